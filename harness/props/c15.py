"""C15 -- setup is pure and reproducible; built solvers are reusable.

correspondence : (a) `c15_kind`  = the name dispatch of `coarse_grid_solver` vs the real function (ValueError or not,
                     does the object keep factors);
                 (b) `c15_cache` = `C15.grun` (the state machine the reuse theorems are about) vs the real object
                     returned by `coarse_grid_solver(name)` on random histories of (matrix, b) calls, including
                     matrices without stored entries and *changing* matrices: which call factorises (counted through
                     wrappers around pinv / lu_factor / cho_factor / splu), which factorisation answers each call
                     (bitwise against objects created for that matrix alone), the cached state after every call;
                 (c) `c15_trace` = `C15.runCalls` (cycle recursion V / W / F / AMLI + solve loop with the coarse
                     solver object threaded through) vs real hierarchies: number of coarse-solver calls and of
                     factorisations per `solve` call of a history, TypeError for an unknown cycle on >= 3 levels;
                     per instance the hypothesis of the theorems is checked (every coarse call passes the object
                     `levels[-1].A`);
                 (d) `c15_store` = the store model of the constructor prologues vs the real builds: is `levels[0].A`
                     the user's object, where does each in-place `filter_matrix_rows` of AIR land;
                 (e) `ext_convert` (extension E27) = the model of the conversions the constructors apply to their input
                     (`Model/ExtSpmm.lean`: COO with duplicates summed, CSC, dense, BSR -> CSR; proved to preserve the
                     dense meaning, which makes the Galerkin step of the model independent of the input format) vs
                     scipy's `.tocsr()` on the inputs this check feeds the constructors (n <= 24): exact as dense
                     meanings (index / data arrays compared too, counted as a feature);
                 (f) `ext_c15_canon` (extension E41) = the canonical stored form (`Model/ExtC15Canon.lean`): `canonNZ` /
                     `canonSD` / `isCanonical` vs scipy's `sum_duplicates()`, `eliminate_zeros()`, `has_canonical_format` on
                     the conversions of small integer matrices given as dense / CSR / CSC / COO / BSR, canonical, with
                     stored zeros, with split and cancelling duplicates, unsorted (array by array, exact); what the
                     uniqueness theorems predict is checked on the real conversions (inputs with one stored pattern
                     reach CSR as identical arrays; every stored form has the same canonical arrays); `pwRaw` / `pwStep`
                     (one step of the pairwise constructor path: strength + kernel + T + stall test) vs
                     `pyamg.aggregation.pairwise_aggregation(matchings=1)` on canonical and on messy arrays.
                 (g) `c04y_convert` (extension E54) = the model of `lil.tocsr()` and `dia.tocsr()` (`Model/ExtC04YConv.lean`; proved:
                     dense meaning preserved, DIA always canonical without stored zeros and its arrays a function of the meaning,
                     LIL canonical iff its index lists are sorted) vs scipy on small integer / complex matrices: `dia_array(D)`,
                     DIA built by hand with the offsets in random order, `L` larger / smaller than the number of columns, extra
                     all-zero diagonals and non-zero junk in the padding, `lil_array(D)`, LIL with explicit zeros, LIL with a row
                     listed backwards -- indptr / indices / data, dense meaning, `has_canonical_format`, stored zeros, exact; the
                     prediction of `convert_dia_arrays_unique` is checked on the real conversions (one array triple per matrix);
                     `c04y_pw` = `pwMRaw` / `pwMStep` (`Model/ExtC04YPairwise.lean`: the pairwise constructor path with m
                     matchings: per matching strength + kernel + T_temp, `T @ T_temp`, `T_temp.T @ Ac @ T_temp` in csr_matmat's
                     storage order, then the stall test) vs `pyamg.aggregation.pairwise_aggregation(matchings=m)`, m = 2 (the
                     default of pairwise_solver), 3 and 1, on canonical and on messy arrays, n <= 12, exact.
search         : on the real constructors and `solve`:
                 purity   -- the user's A (every format; also with tiny / subnormal / explicitly stored zero entries) and B / BH
                             are bitwise unchanged by every build (stored arrays up to the order inside a row);
                 formats  -- CSR / CSC / COO (duplicates, shuffled) / LIL / DIA / BSR / dense input give the same levels;
                 seeds    -- two builds from fresh copies with the same NumPy seed are equal field by field, bitwise; the two builds
                             are the two calls of ONE caller: they receive the SAME option objects (dicts, lists, tuples holding
                             dicts, B / BH arrays), deep-compared before / after the first build (a build that changes them is a
                             feature, a changed second build a violation); on >= 3 levels the hierarchy built with one option
                             object for all levels equals the one built with the options written out level by level as copies;
                 reuse    -- after a random history of solve / preconditioner calls the observed call returns the
                             bits a never-used solver returns; no level operator changed; every ordered pair of different
                             smoothers that share a per-level cache;
                 repeat   -- relaxation-type / polynomial coarse solvers on hierarchies of every constructor (CSR, BSR 1x1, BSR 2x2
                             coarsest operators, also larger than the Krylov space of the spectral-radius estimate): after a first
                             solve, the same call twice on one object (other calls in between) and once on a twin solver with the
                             same first solve, the NumPy global RNG in a different state each time: bit-identical.
"""
import contextlib
import copy
import hashlib
import importlib
import warnings

import numpy as np
import scipy.sparse as sp

import gen
from common import enc_ints

META = {
    'rule': 'matrices: 1-D / 2-D Poisson, anisotropic and upwind stencils, weighted graph Laplacians, random SPD, block-diagonal '
            'with isolated nodes, elasticity (BSR 2x2), n = 1..3, complex Hermitian (aggregation solvers), all scaled by a '
            'non-dyadic factor so that summation order shows in the bits, n <= 120; in 22 % of the cases (and in a fixed grid of every '
            'constructor x every strength option, real and complex, CSR / CSC / COO / BSR input, candidates included) the matrix also stores '
            'weak couplings of magnitude 1e-14 ... 1e-300, subnormal values and explicit zeros; constructors ruge_stuben / air / '
            'smoothed_aggregation / rootnode / pairwise (+ adaptive_sa in the thorough tier) x strength / splitting / aggregation / '
            'interpolation / smoothing / filtering / candidates options (all randomised routines included) x 20 smoothers x 13 '
            'coarse solvers x max_levels / max_coarse; formats CSR, CSC, COO (split duplicates, shuffled), LIL, DIA, BSR(1,2,3), '
            'dense; float64 / float32 / int64 / complex128 values; histories of 0..5 calls (solve with b 1-d / column / zero, x0, '
            'cycle V/W/F/AMLI, tol, maxiter, residual lists, accel, cycles_per_level, return_info, callback; preconditioner '
            'applications) before the observed call; every ordered pair pre != post of the smoothers that keep something on the '
            'level or the level matrix (Schwarz with user subdomains: transposed / rotated / block / random index sets, default and '
            'strength-based Schwarz, block Jacobi / block Gauss-Seidel with block sizes 2 and 3, Jacobi-NE, Gauss-Seidel-NE / -NR, '
            'Chebyshev, Jacobi) on a symmetric and a nonsymmetric problem, history = the observed call itself or two other solves; '
            'options with nested dicts (energy smoothing x every prefilter / postfilter form x cg / cgnr / gmres; per-level lists of '
            'strength / aggregate / smooth / improve_candidates / pre- and postsmoother, tuple-with-dict coarse solvers, one object '
            'for pre- and postsmoother) on problems that coarsen to 3..5 levels, all constructors, the same option objects for two '
            'builds; repeated solves: 18 coarse solvers (13 relaxation-type, string and tuple form) x all constructors x coarsest '
            'level of 3..60 unknowns stored as CSR / BSR 1x1 / BSR 2x2, first solve + call + 0..2 other calls + call, twin solver; '
            'non-trivial = hierarchy with >= 2 levels (build cases), non-empty history on '
            '>= 2 levels or a caching coarse solver (reuse cases), a history with >= 2 calls (cache cases); distinct = distinct '
            '(constructor, input format, dtype, option names, history shape)',
    'search_only': ['the user\'s A and B / BH are unchanged by a build (bitwise snapshots of every array of every format); the store '
                    'model proves only that the modelled steps never write into the user\'s objects',
                    'same hierarchy for every input format (bitwise for CSC / COO / LIL / DIA / dense against canonical CSR; '
                    '1e-3 relative (to the largest entry of the operator) for BSR with 1 x 1 blocks and one candidate vector -- the '
                    'block code path rounds differently and energy-minimising prolongation smoothing / candidate relaxation amplify '
                    'that (4e-6 observed in 15000 comparisons); with several candidates the local QR factorisations amplify it '
                    'without bound, there only the number of levels and all shapes are compared)',
                    'reproducibility with the same NumPy seed (bitwise, field by field): a runtime fact, no theorem',
                    'smoothers, transfer operators, Krylov accelerators and factorisations are functions of their arguments and '
                    'never write into a level operator: observed bitwise (used versus fresh solver, operator snapshots), the '
                    'theorems take it as the shape of the model',
                    'adaptive_sa_solver (thorough tier): purity and reproducibility only',
                    'the caller\'s option objects: a build may change them (levelize extends short per-level lists in place, the '
                    'coarse solver adds iterations to its dict, energy smoothing pops a zero theta: counted as features '
                    'build_changes_option_objects:*) as long as a second build that receives the same objects is bit-identical; a '
                    'single option value means the same as that value written out level by level (the documented meaning), observed '
                    'bitwise on hierarchies with >= 3 levels',
                    'after its first solve a solver draws no random numbers: the same call with the NumPy global RNG in different '
                    'states returns the same bits (on the object itself and on a twin with the same first solve); the first solve '
                    'itself is the known finding coarse-relaxation-lazy-random-rho; coarse_solver=\'jacobi_ne\' with rho on a coarsest '
                    'operator not stored as CSR is the known finding coarse-relaxation-rho-every-solve (fixed corpus case on every run; '
                    'assigned only for that name + a non-CSR coarsest operator + bit-identical results under equal RNG states)',
                    'format independence at model level: the conversions to CSR keep the dense meaning and the Galerkin step sees '
                    'the meaning only (convert_preserves_meaning, galerkin_format_independent); the canonical stored form is unique '
                    '(canonical_unique: sorted duplicate-free rows + same meaning + same stored pattern => equal indptr / indices / '
                    'data), COO / dense always, CSC without duplicates, BSR with sorted block rows convert to it '
                    '(convert_canonical), so inputs with the same meaning and the same explicit-zero pattern reach the constructors '
                    'as IDENTICAL arrays and the hierarchy is the same for an ARBITRARY step function '
                    '(hierarchy_format_independent_canonical: nothing assumed about strength, splitting / aggregation, interpolation, '
                    'smoothing); for arbitrary stored forms (unsorted, duplicates, stored zeros) E27\'s hypothesis PStepOK is '
                    'discharged for every construction of P that reads the level matrix through sum_duplicates + eliminate_zeros '
                    '(pstep_ok_behind_canoniser) and for the pairwise-aggregation path assembled from the C14 strength model and the '
                    'C12 kernel model (pairwise_pstep_ok, pairwise_hierarchy_format_independent).  The models are run against '
                    'scipy.sparse / pyamg here (ext_convert, ext_c15_canon) and by the C04 check.  NOT proved: that the real '
                    'array-level strength / aggregation / interpolation routines are functions of the dense meaning on non-canonical '
                    'arrays -- they are not (the pairwise kernel takes the last of several equal weights in storage order: feature '
                    'canon_pw:stored-form-changes-P counts such inputs), which is why the format search compares against canonical '
                    'CSR and leaves unsorted / stored-zero inputs to the purity check.  Extension E54: the LIL and DIA conversions are '
                    'modelled and proved too (convert_lil, convert_dia, convert_dia_canonical, convert_lil_canonical_iff; the E27 / E41 '
                    'statements for all seven formats: convert_all_*, hierarchy_input_independent_all), and PStepOK is discharged for the '
                    'pairwise path with ANY number of matchings (pairwise_matchings_pstep_ok; matchings = 2 is the default of '
                    'pairwise_solver), so pairwise_matchings_hierarchy_input_independent_all covers the default options for all seven '
                    'input formats; both models run against scipy / pyamg here (c04y_convert, c04y_pw).  Still observed only: that '
                    'scipy\'s lil / dia `tocsr()` and pyamg\'s strength routine + pairwise kernel compute what the models compute'],
    'partial': [],
    'assumptions': ['thresholds (strength theta, AIR theta, filter theta) are chosen off the ratios that occur in the structured test '
                    'matrices (0.27, 0.47, 0.13, 0.29, ... instead of 0.25, 0.5, 0.1, 0.3): a connection exactly at a threshold is '
                    'decided by rounding and may fall differently on the CSR and the BSR code path',
                    '"numerical content" of the user\'s matrix = shape, dtype, format, the represented matrix (dense, bitwise) and the '
                    'stored arrays data / indices / indptr (row / col, offsets) byte for byte up to the order of the entries inside a row '
                    '(CSR, BSR) or column (CSC): a pure re-ordering (in-place sort_indices) is counted as a feature, not as a violation',
                    'left out of the generators until fixed or listed (reported): explicitly stored zeros x strength=\'evolution\' '
                    '(evolution_strength_of_connection calls eliminate_zeros() on the user\'s CSR matrix); BSR-versus-CSR hierarchy '
                    'comparison for matrices with stored entries 0 < |a| < 1e-16 (the BSR branch of classical_strength_of_connection '
                    'drops them, the CSR branch keeps them as strong connections; the symmetric measure is all ones for BSR, scaled '
                    'values that underflow for CSR)',
                    '"hierarchy" = A, P, R, B, BH, splitting of every level; with keep=True also AggOp / T, and the pattern of C',
                    'reuse theorems: every coarse-solver call of a solver passes the same matrix (checked per instance: the object '
                    'levels[-1].A, content unchanged)',
                    'the NumPy global random state is set before every call (it is an input of the randomised routines)'],
}

CT = {'rs': ('pyamg.classical.classical', 'ruge_stuben_solver'),
      'air': ('pyamg.classical.air', 'air_solver'),
      'sa': ('pyamg.aggregation.aggregation', 'smoothed_aggregation_solver'),
      'rn': ('pyamg.aggregation.rootnode', 'rootnode_solver'),
      'pw': ('pyamg.aggregation.pairwise', 'pairwise_solver'),
      'asa': ('pyamg.aggregation.adaptive', 'adaptive_sa_solver')}
FORMATS = ['csr', 'csc', 'coo', 'lil', 'dia', 'bsr', 'dense']

# known-finding keys (each decided from the concrete input, see classify_* below)
K_BSR_BLOCKS = 'bsr-blocks-are-supernodes'
K_INT64 = 'int64-index-arrays-rejected'
K_SORT = 'solve-sorts-level-operator-in-place'
K_LAZY_RHO = 'coarse-relaxation-lazy-random-rho'
K_RHO_EVERY = 'coarse-relaxation-rho-every-solve'
K_BSR_UNSUPPORTED = 'bsr-input-csr-only-option'
K_BSR_SYM_VALUES = 'bsr-symmetric-strength-unit-values'
K_RS_BSR_ZEROS = 'rs-bsr-stored-zeros-are-connections'


def hb(*parts):
    h = hashlib.blake2b(digest_size=10)
    for p in parts:
        h.update(p if isinstance(p, (bytes, bytearray, memoryview)) else str(p).encode())
        h.update(b'|')
    return h.hexdigest()


def _key(*a):
    return hb(repr(a))


def pick(rng, xs):
    return xs[int(rng.integers(len(xs)))]


def name_of(opt):
    return opt[0] if isinstance(opt, tuple) else opt


# ------------------------------------------------------------------------------------------------
# (un)packing of cases for replay files
# ------------------------------------------------------------------------------------------------

def pack(o):
    if isinstance(o, dict):
        return {'__d': [[pack(k), pack(v)] for k, v in o.items()]}
    if isinstance(o, tuple):
        return {'__t': [pack(v) for v in o]}
    if isinstance(o, list):
        return [pack(v) for v in o]
    if isinstance(o, np.ndarray):
        if np.iscomplexobj(o):
            return {'__a': o.real.tolist(), '__i': o.imag.tolist(), 'dtype': str(o.dtype)}
        return {'__a': o.tolist(), 'dtype': str(o.dtype)}
    if isinstance(o, np.generic):
        return pack(o.item())
    if isinstance(o, complex):
        return {'__c': [o.real, o.imag]}
    return o


def unpack(o):
    if isinstance(o, list):
        return [unpack(v) for v in o]
    if isinstance(o, dict):
        if '__d' in o:
            return {unpack(k): unpack(v) for k, v in o['__d']}
        if '__t' in o:
            return tuple(unpack(v) for v in o['__t'])
        if '__a' in o:
            a = np.array(o['__a'], dtype=float if '__i' in o else o['dtype'])
            if '__i' in o:
                a = (a + 1j * np.array(o['__i'], dtype=float)).astype(o['dtype'])
            return a
        if '__c' in o:
            return complex(*o['__c'])
    return o


# ------------------------------------------------------------------------------------------------
# matrices and input formats
# ------------------------------------------------------------------------------------------------

def stencil2d(nx, ny, eps=1.0, conv=0.0):
    n = nx * ny
    M = np.zeros((n, n))
    for j in range(ny):
        for i in range(nx):
            k = j * nx + i
            M[k, k] = 2 + 2 * eps + conv
            if i > 0:
                M[k, k - 1] = -1 - conv
            if i < nx - 1:
                M[k, k + 1] = -1
            if j > 0:
                M[k, k - nx] = -eps
            if j < ny - 1:
                M[k, k + nx] = -eps
    return M


def gen_matrix(rng, ctor, quick, want_int=False):
    cplx_ok = ctor in ('sa', 'rn')
    fams = ['p1', 'p2', 'p2', 'p2', 'aniso', 'aniso', 'upwind', 'lap', 'lap', 'spd', 'blocks', 'tiny', 'elas']
    if cplx_ok:
        fams += ['cherm', 'cherm']
    if ctor == 'air':
        fams += ['upwind', 'upwind']
    fam = str(pick(rng, fams))
    big = rng.random() < (0.2 if quick else 0.4)
    tags = {'fam': fam}
    if fam == 'p1':
        n = int(rng.integers(8, 90 if big else 36))
        M = 2 * np.eye(n) - np.eye(n, k=1) - np.eye(n, k=-1)
    elif fam == 'p2':
        M = stencil2d(int(rng.integers(3, 11 if big else 8)), int(rng.integers(3, 11 if big else 7)))
    elif fam == 'aniso':
        M = stencil2d(int(rng.integers(3, 10 if big else 7)), int(rng.integers(3, 10 if big else 7)),
                      eps=float(pick(rng, [0.001, 0.1, 10.0])))
    elif fam == 'upwind':
        M = stencil2d(int(rng.integers(2, 10 if big else 7)), int(rng.integers(1, 10 if big else 7)),
                      eps=float(pick(rng, [1.0, 0.5])), conv=float(pick(rng, [0.5, 2.0, 10.0])))
    elif fam == 'lap':
        M = gen.spd_matrix(rng, int(rng.integers(6, 60 if big else 30)), 'laplacian').toarray()
    elif fam == 'spd':
        M = gen.spd_matrix(rng, int(rng.integers(4, 25)), 'random').toarray()
    elif fam == 'blocks':
        a, b, c = int(rng.integers(2, 20)), int(rng.integers(0, 4)), int(rng.integers(0, 12))
        n = a + b + c
        M = np.zeros((n, n))
        M[:a, :a] = 2 * np.eye(a) - np.eye(a, k=1) - np.eye(a, k=-1)
        if b:
            M[a:a + b, a:a + b] = np.diag(rng.choice([1.0, 4.0], size=b))
        if c:
            M[a + b:, a + b:] = 4 * np.eye(c) - np.eye(c, k=1) - np.eye(c, k=-1) - (np.eye(c, k=2) + np.eye(c, k=-2)) * 0.5
        if rng.random() < 0.5:
            p = rng.permutation(n)
            M = M[np.ix_(p, p)]
    elif fam == 'tiny':
        n = int(rng.integers(1, 4))
        M = (2 * np.eye(n) - np.eye(n, k=1) - np.eye(n, k=-1)) * 3.0
    elif fam == 'elas':
        import pyamg
        E, _ = pyamg.gallery.linear_elasticity((int(rng.integers(2, 6 if big else 4)), int(rng.integers(2, 5 if big else 4))))
        M = E.toarray()
        tags['elas'] = True
    else:   # cherm
        M = gen.spd_matrix(rng, int(rng.integers(3, 40 if big else 25)), str(pick(rng, ['poisson1d', 'poisson2d', 'laplacian'])),
                           complex_=True).toarray()
    M = np.array(M)
    integral = bool(np.all(M == np.round(M.real)) and not np.iscomplexobj(M))
    if want_int and integral:
        tags['int'] = True
    elif fam != 'tiny':
        # non-dyadic values: the order of every floating-point sum shows in the last bits
        if rng.random() < 0.85:
            M = M * float(pick(rng, [1.0 / 3.0, 0.7, 1.1, 1e-3 / 7.0, 13.0 / 9.0]))
        if rng.random() < 0.5 and M.shape[0] > 1:
            n = M.shape[0]
            d = 1.0 + 0.37 * rng.random(n)
            if fam in ('upwind',):
                M = d[:, None] * M                      # row scaling keeps the M-matrix structure, breaks symmetry further
            else:
                Dg = d.astype(M.dtype)
                M = (Dg[:, None] * M) * Dg[None, :]      # congruence: stays symmetric / Hermitian positive definite
    tags['complex'] = bool(np.iscomplexobj(M))
    return np.ascontiguousarray(M), tags


def make_input(D, fmt, bs=1, dtype=None, shuffle_seed=0, zmask=None):
    """a FRESH object holding the matrix D in the requested format (int32 index arrays); zmask = positions that are stored
    although their value is zero (the formats that can hold explicit zeros keep them)"""
    D = np.array(D)
    if dtype is not None:
        D = D.astype(dtype)
    if fmt == 'dense':
        return D
    if zmask is not None:
        rr, cc = np.nonzero((D != 0) | zmask)                 # row-major: sorted rows, sorted columns, no duplicates
        C = sp.csr_array((D[rr, cc], (rr, cc)), shape=D.shape)
    else:
        C = sp.csr_array(D)
    C.indptr = C.indptr.astype(np.int32)
    C.indices = C.indices.astype(np.int32)
    if fmt == 'csr':
        return C
    if fmt == 'csr_unsorted':
        r = np.random.default_rng(shuffle_seed)
        for i in range(C.shape[0]):
            s, e = C.indptr[i], C.indptr[i + 1]
            p = r.permutation(e - s)
            C.indices[s:e] = C.indices[s:e][p]
            C.data[s:e] = C.data[s:e][p]
        C.has_sorted_indices = False
        return C
    if fmt == 'csr_stored_zeros':
        # CSR that stores the zeros a BSR matrix with this blocksize stores inside its blocks
        Z = sp.csr_array(sp.bsr_array(C, blocksize=(bs, bs)))
        Z.indptr = Z.indptr.astype(np.int32)
        Z.indices = Z.indices.astype(np.int32)
        return Z
    if fmt == 'csr_int64':
        C.indptr = C.indptr.astype(np.int64)
        C.indices = C.indices.astype(np.int64)
        return C
    if fmt == 'bsr':
        A = sp.bsr_array(C, blocksize=(bs, bs))
        A.indptr = A.indptr.astype(np.int32)
        A.indices = A.indices.astype(np.int32)
        return A
    if fmt == 'coo':
        T = C.tocoo()
        row, col, dat = T.row.astype(np.int32), T.col.astype(np.int32), T.data.copy()
        if shuffle_seed and len(dat):
            # every stored entry split into two halves (exact in binary floating point), then shuffled
            r = np.random.default_rng(shuffle_seed)
            if np.issubdtype(dat.dtype, np.inexact):
                row, col, dat = np.concatenate([row, row]), np.concatenate([col, col]), np.concatenate([dat * 0.5, dat * 0.5])
            p = r.permutation(len(dat))
            row, col, dat = row[p], col[p], dat[p]
        return sp.coo_array((dat, (row, col)), shape=C.shape)
    if fmt == 'csc':
        A = C.tocsc()
        A.indptr = A.indptr.astype(np.int32)
        A.indices = A.indices.astype(np.int32)
        return A
    return getattr(sp, fmt + '_array')(C)


def snapshot(M):
    """(raw, content): raw = every stored array, content = what the object represents"""
    if M is None:
        return (None, None)
    if sp.issparse(M):
        if M.format == 'lil':
            raw = hb(repr(M.rows.tolist()), repr(M.data.tolist()), M.dtype, M.shape)
        else:
            parts = [M.format, M.dtype, M.shape]
            for nm in ('data', 'indices', 'indptr', 'row', 'col', 'coords', 'offsets'):
                v = getattr(M, nm, None)
                if v is None:
                    continue
                if isinstance(v, tuple):
                    parts += [np.ascontiguousarray(t).tobytes() for t in v]
                else:
                    parts.append(np.ascontiguousarray(v).tobytes())
            raw = hb(*parts)
        content = hb(M.format, M.dtype, M.shape, getattr(M, 'blocksize', None), np.ascontiguousarray(M.toarray()).tobytes())
        return (raw, content)
    a = np.asarray(M)
    h = hb(a.dtype, a.shape, np.ascontiguousarray(a).tobytes())
    return (h, h)


def canon_hash(M):
    """hash of the stored arrays up to the order of the entries inside a row (CSR / BSR) or column (CSC): what an in-place
    sort_indices() leaves invariant.  Our compressed inputs have no duplicate entries, so the canonical order is unique.
    Other formats / dense arrays: the stored arrays themselves."""
    if sp.issparse(M) and M.format in ('csr', 'csc', 'bsr'):
        ptr, idx = np.asarray(M.indptr), np.asarray(M.indices)
        nnz = int(ptr[-1]) if len(ptr) else 0
        if len(idx) < nnz or np.any(np.diff(ptr) < 0):
            return snapshot(M)[0]
        major = np.repeat(np.arange(len(ptr) - 1), np.diff(ptr))
        order = np.lexsort((idx[:nnz], major))
        return hb(M.format, M.dtype, M.shape, getattr(M, 'blocksize', None), ptr.dtype, idx.dtype, len(idx), len(M.data),
                  np.ascontiguousarray(ptr).tobytes(), np.ascontiguousarray(idx[:nnz][order]).tobytes(),
                  np.ascontiguousarray(M.data[:nnz][order]).tobytes())
    return snapshot(M)[0]


# ------------------------------------------------------------------------------------------------
# tiny / subnormal / explicitly stored zero entries
# ------------------------------------------------------------------------------------------------

TINY_VALUES = [1e-14, 1e-15, 2e-16, 1e-16, 9e-17, 1e-17, 1e-18, 1e-18, 1e-20, 1e-30, 1e-150, 1e-300,
               float(np.ldexp(3.0, -1060)), float(np.ldexp(1.0, -1070))]   # the last two are subnormal, halves exact


def decorate_tiny(rng, D, symmetric, zeros=False, count=None):
    """weak long-range couplings: entries of magnitude 1e-14 ... subnormal (either sign; complex for complex D) at
    off-diagonal positions where D is zero; with `zeros` also positions that are stored with the value 0.0 (returned as a
    mask).  `symmetric` keeps D symmetric / Hermitian.  Returns (D', zmask or None)."""
    n = D.shape[0]
    D = np.array(D)
    free = [(i, j) for i in range(n) for j in range(i + 1, n) if D[i, j] == 0 and D[j, i] == 0]
    if not free:
        return D, None
    k = count or int(rng.integers(1, max(2, min(len(free), n) + 1)))
    sel = rng.permutation(len(free))[:k]
    zmask = np.zeros(D.shape, dtype=bool) if zeros else None
    for t in sel:
        i, j = free[int(t)]
        if rng.random() < 0.5:
            i, j = j, i
        if zeros and rng.random() < 0.4:
            zmask[i, j] = True
            if symmetric or rng.random() < 0.5:
                zmask[j, i] = True
            continue
        v = float(pick(rng, TINY_VALUES)) * (1.0 if rng.random() < 0.5 else -1.0)
        if np.iscomplexobj(D):
            v = v * (1.0 + 0.5j) if rng.random() < 0.7 else v * 1j
        D[i, j] = v
        if symmetric:
            D[j, i] = np.conj(v)
        elif rng.random() < 0.4:
            D[j, i] = float(pick(rng, TINY_VALUES))
    return D, zmask


# ------------------------------------------------------------------------------------------------
# option grids
# ------------------------------------------------------------------------------------------------

SMOOTHERS = ['gauss_seidel', ('gauss_seidel', {'sweep': 'symmetric', 'iterations': 2}), ('gauss_seidel', {'sweep': 'backward'}),
             'jacobi', ('jacobi', {'omega': 0.8, 'withrho': False}), 'block_jacobi', 'block_gauss_seidel',
             ('block_gauss_seidel', {'sweep': 'symmetric'}), 'schwarz', 'strength_based_schwarz', 'richardson',
             ('sor', {'omega': 1.2}), 'chebyshev', ('chebyshev', {'degree': 2, 'iterations': 2}), 'jacobi_ne', 'gauss_seidel_ne',
             'gauss_seidel_nr', ('cg', {'maxiter': 2}), ('gmres', {'maxiter': 2}), ('cgnr', {'maxiter': 1}), ('cgne', {'maxiter': 1}), None]
CF_SMOOTHERS = ['cf_jacobi', 'fc_jacobi', ('fc_jacobi', {'omega': 1.0, 'iterations': 1, 'withrho': False, 'f_iterations': 2,
                                                         'c_iterations': 1}), 'cf_block_jacobi', 'fc_block_jacobi']
RHO_PLACEHOLDER = 'rho'
COARSE = ['pinv', 'pinv', 'pinv', 'lu', 'lu', 'cholesky', 'splu', 'splu', 'splu', ('splu', {}), ('pinv', {'rtol': 1e-12}), 'cg', 'gmres',
          'bicgstab', 'gauss_seidel', ('gauss_seidel', {'iterations': 3}), 'gauss_seidel_ne', 'gauss_seidel_nr', 'block_gauss_seidel',
          ('jacobi', {'withrho': False, 'omega': 0.5}), ('block_jacobi', {'withrho': False, 'omega': 0.5}), 'sor', 'schwarz', None,
          'callable', 'callable', str(RHO_PLACEHOLDER)]
RHO_COARSE = ('jacobi', 'richardson', 'chebyshev', 'block_jacobi', 'jacobi_ne')
RELAX_COARSE = ('gauss_seidel', 'jacobi', 'block_gauss_seidel', 'schwarz', 'block_jacobi', 'richardson', 'sor', 'chebyshev',
                'jacobi_ne', 'gauss_seidel_ne', 'gauss_seidel_nr')


def _dense_solve(A, b):
    return np.linalg.solve(A.toarray() + 1e-30 * np.eye(A.shape[0]), b)


STRENGTH_RS = [('classical', {'theta': 0.27}), ('classical', {'theta': 0.47, 'norm': 'min'}), ('classical', {'theta': 0.0}),
               'symmetric', ('symmetric', {'theta': 0.13}), None, 'evolution', 'energy_based', 'algebraic_distance', 'affinity']
STRENGTH_AIR = [('classical', {'theta': 0.31, 'norm': 'min'}), ('classical', {'theta': 0.27}), 'symmetric', None, 'evolution']
STRENGTH_SA = ['symmetric', ('symmetric', {'theta': 0.0}), ('symmetric', {'theta': 0.29}), ('classical', {'theta': 0.23}),
               ('classical', {'theta': 0.27, 'norm': 'abs'}), 'evolution', ('evolution', {'k': 2, 'epsilon': 4.0}), None,
               'energy_based', 'algebraic_distance', 'affinity']
AGGREGATE_PW = [('pairwise', {'theta': 0.27, 'norm': 'min', 'matchings': 2}), ('pairwise', {'theta': 0.0, 'norm': 'abs', 'matchings': 1}),
                ('pairwise', {'theta': 0.47, 'norm': 'min', 'matchings': 3})]


def opts_rs(rng, tags):
    st = pick(rng, STRENGTH_RS)
    cf = pick(rng, [('RS', {'second_pass': False}), ('RS', {'second_pass': True}), 'PMIS', 'PMISc', 'CLJP', 'CLJPc',
                    ('PMISc', {'method': 'MIS'}), ('CLJP', {'color': True})])
    ip = pick(rng, ['classical', 'direct', ('classical', {'modified': False})])
    return {'strength': st, 'CF': cf, 'interpolation': ip}


def opts_air(rng, tags):
    st = pick(rng, STRENGTH_AIR)
    cf = pick(rng, [('RS', {'second_pass': True}), ('RS', {'second_pass': False}), 'PMIS', 'PMISc', 'CLJP', 'CLJPc'])
    ip = pick(rng, ['one_point', 'one_point', 'inject', 'classical', 'direct', ('one_point', {'by_val': True})])
    rs = pick(rng, [('air', {'theta': 0.053, 'degree': 2}), ('air', {'theta': 0.11, 'degree': 1}), 'air',
                    ('air', {'theta': 0.21, 'degree': 1, 'use_gmres': True, 'maxiter': 3})])
    fo = pick(rng, [None, None, (True, 0.11), (False, 0.11), (True, 0.41), (False, 0.41), (True, 0.0), (False, 0.69)])
    return {'strength': st, 'CF': cf, 'interpolation': ip, 'restrict': rs, 'filter_operator': fo}


def gen_B(rng, n, k, cplx):
    B = np.ones((n, k))
    if k >= 2:
        B[:, 1] = np.arange(n) / max(1, n - 1)
    if k >= 3:
        B[:, 2:] = rng.integers(-3, 4, size=(n, k - 2)) + 0.5
    B = B * (1.0 + 0.01 * rng.random((n, k)))
    if cplx:
        B = B.astype(complex)
        if k >= 2:
            B[:, 1] = B[:, 1] * (1 + 0.5j)
    if k == 1 and rng.random() < 0.3:
        return np.ascontiguousarray(B[:, 0])
    return B


def smooth_grid(root=False):
    """every prolongation-smoother option the aggregation constructors accept (names x weighting x degree x filtering /
    Krylov method); rootnode_solver takes the energy family (and None) only"""
    g = [None]
    if not root:
        g += ['jacobi', 'richardson']
        for w in ('diagonal', 'block', 'local'):
            for deg in (1, 2):
                for fe in (False, True):
                    g.append(('jacobi', {'omega': 4.0 / 3.0, 'degree': deg, 'weighting': w, 'filter_entries': fe}))
        for deg in (1, 2):
            g.append(('richardson', {'omega': 4.0 / 3.0, 'degree': deg}))
    g.append('energy')
    for kry in ('cg', 'cgnr', 'gmres'):
        for w in ('local', 'diagonal', 'block'):
            for deg in (1, 2):
                g.append(('energy', {'krylov': kry, 'maxiter': 2, 'degree': deg, 'weighting': w}))
    g.append(('energy', {'krylov': 'cg', 'maxiter': 2, 'prefilter': {'theta': 0.13}}))
    g.append(('energy', {'krylov': 'cgnr', 'maxiter': 2, 'postfilter': {'k': 3}}))
    return g


def fit_symmetry(sm, sym, fam):
    """energy smoothing with CG needs the Hermitian setting; keep the option valid for the symmetry flag"""
    if name_of(sm) == 'energy':
        kw = dict(sm[1]) if isinstance(sm, tuple) else {}
        kry = kw.get('krylov')
        if (sym == 'nonsymmetric' or fam == 'upwind') and kry in (None, 'cg'):
            kw['krylov'] = 'gmres' if sym == 'nonsymmetric' else 'cgnr'
            kw.setdefault('maxiter', 2)
            return ('energy', kw)
    return sm


def opts_sa(rng, tags, root=False):
    cplx = tags['complex']
    fam = tags['fam']
    sym = 'nonsymmetric' if fam == 'upwind' else pick(rng, ['hermitian', 'hermitian', 'symmetric', 'nonsymmetric'])
    st = pick(rng, STRENGTH_SA)
    ag = pick(rng, ['standard', 'standard', 'naive', 'lloyd', ('lloyd', {'ratio': 0.3, 'maxiter': 3}), 'pairwise',
                    ('pairwise', {'theta': 0.27, 'norm': 'min', 'matchings': 1})])
    if cplx and name_of(ag) in ('pairwise', 'lloyd'):
        ag = 'standard'
    if cplx and name_of(st) in ('affinity', 'algebraic_distance', 'energy_based'):
        st = 'symmetric'
    if root:
        sm = pick(rng, ['energy', ('energy', {'maxiter': 2, 'degree': 1}), None, ('energy', {'krylov': 'cgnr', 'maxiter': 2}),
                        ('energy', {'krylov': 'gmres', 'maxiter': 3, 'degree': 2})])
    else:
        sm = pick(rng, [('jacobi', {'omega': 4.0 / 3.0}), 'jacobi', ('jacobi', {'omega': 1.0, 'degree': 2}), 'richardson', None,
                        ('energy', {'maxiter': 2}), ('energy', {'krylov': 'cgnr', 'maxiter': 2}), ('energy', {'krylov': 'gmres', 'maxiter': 2})])
    if rng.random() < 0.5:
        sm = pick(rng, smooth_grid(root))            # the whole grid, not only the usual suspects
    sm = fit_symmetry(sm, sym, fam)
    ic = pick(rng, [None, None, ('gauss_seidel', {'sweep': 'symmetric', 'iterations': 2}),
                    [('block_gauss_seidel', {'sweep': 'symmetric', 'iterations': 4}), None], ('jacobi', {'iterations': 2}),
                    ('richardson', {'iterations': 1})])
    if cplx and ic is not None:
        ic = pick(rng, [None, ('gauss_seidel', {'sweep': 'symmetric', 'iterations': 2})])
    dd = pick(rng, [False, False, False, True])
    return {'symmetry': sym, 'strength': st, 'aggregate': ag, 'smooth': sm, 'improve_candidates': ic, 'diagonal_dominance': dd}


def opts_pw(rng, tags):
    ag = pick(rng, AGGREGATE_PW)
    return {'aggregate': ag}


def zeros_are_dropped_in_place(kw):
    """evolution_strength_of_connection calls A.eliminate_zeros() on the matrix it is given, for CSR input the user's object:
    stored zeros disappear from the user's arrays (the represented matrix stays).  Reported; until it is fixed or listed in
    KNOWN_FINDINGS.txt this input class (explicitly stored zeros x strength='evolution') is left out of the generators."""
    return name_of(kw.get('strength')) == 'evolution'


def gen_case(rng, quick, ctor=None, reuse=False):
    """one (constructor, matrix, options) case; the input format is chosen by the caller"""
    ctor = ctor or str(pick(rng, ['rs', 'air', 'sa', 'sa', 'rn', 'pw']))
    want_int = rng.random() < 0.12
    D, tags = gen_matrix(rng, ctor, quick, want_int)
    n = D.shape[0]
    zmask = None
    if not tags.get('int') and n >= 4 and rng.random() < 0.22:
        # stored entries far below the rounding level of the others (down to subnormal), optionally explicit zeros
        D, zmask = decorate_tiny(rng, D, symmetric=tags['fam'] != 'upwind', zeros=bool(rng.random() < 0.4))
        if zmask is not None and not zmask.any():
            zmask = None
        tags['tiny'] = 'values' if zmask is None else 'values+zeros'
    if ctor == 'rs':
        kw = opts_rs(rng, tags)
    elif ctor == 'air':
        kw = opts_air(rng, tags)
    elif ctor == 'pw':
        kw = opts_pw(rng, tags)
    else:
        kw = opts_sa(rng, tags, root=(ctor == 'rn'))
    if zmask is not None and zeros_are_dropped_in_place(kw):
        zmask = None
        tags['tiny'] = 'values'
    kw['max_levels'] = int(pick(rng, [1, 2, 2, 3, 3, 4, 10, 10, 10, 10, 10, 10, 10, 10, 10]))
    kw['max_coarse'] = int(pick(rng, [1, 2, 3, 3, 5, 5, 8]))
    kw['keep'] = bool(rng.random() < 0.5) if ctor != 'pw' else None
    if kw['keep'] is None:
        del kw['keep']
    dtype = None
    if tags.get('int'):
        dtype = 'int64'
    elif not tags['complex'] and ctor in ('rs', 'sa', 'pw') and rng.random() < 0.05 and not reuse:
        dtype = 'float32'
    bs = 1
    if tags.get('elas'):
        bs = 2
    elif rng.random() < 0.25:
        cand = [b for b in (2, 3) if n % b == 0]
        if cand:
            bs = int(pick(rng, cand))
    k = 1
    if ctor in ('sa', 'rn'):
        r = rng.random()
        k = 1 if r < 0.5 else (2 if r < 0.8 else 3)
        if tags.get('elas'):
            k = 3
        if r >= 0.25 or tags.get('elas'):
            kw['B'] = gen_B(rng, n, k, tags['complex'])
            if dtype == 'float32':
                kw['B'] = kw['B'].astype(np.float32)
            if kw['symmetry'] == 'nonsymmetric' and rng.random() < 0.5:
                kw['BH'] = gen_B(rng, n, k, tags['complex']).reshape(n, -1)
                kw['B'] = kw['B'].reshape(n, -1)
        if dtype == 'float32':
            kw['improve_candidates'] = None
            kw['strength'] = 'symmetric'
            kw['aggregate'] = 'standard'
            kw['smooth'] = 'jacobi'
    if dtype == 'float32' and ctor == 'rs':
        kw['strength'] = ('classical', {'theta': 0.27})
    # smoothers / coarse solver
    r = rng.random()
    if reuse or r < 0.6:
        pool = SMOOTHERS + (CF_SMOOTHERS if ctor in ('rs', 'air') else [])
        if (k > 1 or bs > 1) and rng.random() < 0.5:
            # some level is BSR with blocks larger than 1 x 1: the block smoothers really work on blocks there
            pool = ['block_jacobi', ('block_jacobi', {'omega': 0.9, 'withrho': False}), 'block_gauss_seidel',
                    ('block_gauss_seidel', {'sweep': 'symmetric', 'iterations': 2})]
            if ctor == 'air':
                pool += ['cf_block_jacobi', 'fc_block_jacobi']
        pre = pick(rng, pool)
        post = pre if rng.random() < 0.5 else pick(rng, pool)
        if dtype == 'float32':
            pre = post = pick(rng, ['gauss_seidel', 'jacobi', None])
        kw['presmoother'], kw['postsmoother'] = pre, post
        if reuse and n >= 4 and rng.random() < 0.15:
            # two different smoothers that keep something on the level / the level matrix (user subdomains, block sizes, ...)
            sps = shared_specs((D != 0) if zmask is None else ((D != 0) | zmask), n, rng)
            ia, ib = (int(v) for v in rng.permutation(len(sps))[:2])
            kw['presmoother'], kw['postsmoother'] = per_level(sps[ia], 99), per_level(sps[ib], 99)
            tags['shared_pair'] = sps[ia][0] + '/' + sps[ib][0]
        kw['coarse_solver'] = pick(rng, COARSE)
        if kw['coarse_solver'] == RHO_PLACEHOLDER:
            kw['coarse_solver'] = pick(rng, list(RHO_COARSE))
    case = {'ctor': ctor, 'A': D, 'dtype': dtype, 'bs': bs, 'kw': kw, 'seed': int(rng.integers(2 ** 31)), 'tags': tags}
    if zmask is not None:
        case['zmask'] = zmask
    return case


def real_kw(kw):
    kw = copy.deepcopy(kw)
    if kw.get('coarse_solver') == 'callable':
        kw['coarse_solver'] = _dense_solve
    return kw


def ctor_fn(ctor):
    import pyamg  # noqa: F401
    mod, fn = CT[ctor]
    return getattr(importlib.import_module(mod), fn)


class Built:
    pass


def build(case, fmt, bs=1, shuffle_seed=0, trace_air=False, kw=None):
    """build on a FRESH input object; returns Built (ml or exc, input object, user arrays before/after).  `kw` = the option
    objects to hand to the constructor AS THEY ARE (a caller that builds twice with its own option objects); default: a
    pristine deep copy of the options of the case"""
    out = Built()
    Ain = make_input(case['A'], fmt, bs, case.get('dtype'), shuffle_seed, case.get('zmask'))
    kw = real_kw(case['kw']) if kw is None else kw
    out.Ain, out.kw = Ain, kw
    out.snapA0 = snapshot(Ain)
    out.canonA0 = canon_hash(Ain)
    out.snapB0 = {k: snapshot(kw.get(k)) for k in ('B', 'BH')}
    out.air = None
    np.random.seed(case['seed'])
    fn = ctor_fn(case['ctor'])
    try:
        with warnings.catch_warnings():
            warnings.simplefilter('ignore')
            if trace_air and case['ctor'] == 'air':
                with air_trace(Ain) as rec:
                    out.ml = fn(Ain, **kw)
                out.air = rec
            else:
                out.ml = fn(Ain, **kw)
        out.exc = None
    except Exception as e:  # noqa: BLE001
        out.ml, out.exc = None, e
    out.snapA1 = snapshot(Ain)
    out.canonA1 = canon_hash(Ain)
    out.snapB1 = {k: snapshot(kw.get(k)) for k in ('B', 'BH')}
    return out


@contextlib.contextmanager
def air_trace(Ain):
    """record, for every extend_hierarchy call of air_solver, where filter_matrix_rows writes"""
    import pyamg.classical.air as air
    rec = {'ext': 0, 'targets': [], 'user_hit': False}
    cur = {}
    o_ext, o_filt = air.extend_hierarchy, air.filter_matrix_rows

    def ext(levels, *a, **k):
        rec['ext'] += 1
        cur['levels'] = levels
        return o_ext(levels, *a, **k)

    def filt(A, *a, **k):
        levels = cur.get('levels')
        if A is Ain:
            rec['user_hit'] = True
        if levels is not None and A is levels[-1].A:
            rec['targets'].append(f'L{len(levels) - 1}')
        else:
            rec['targets'].append('D')
        return o_filt(A, *a, **k)

    air.extend_hierarchy, air.filter_matrix_rows = ext, filt
    try:
        yield rec
    finally:
        air.extend_hierarchy, air.filter_matrix_rows = o_ext, o_filt


# ------------------------------------------------------------------------------------------------
# hierarchies as comparable values
# ------------------------------------------------------------------------------------------------

OPERATOR_FIELDS = ('A', 'P', 'R', 'B', 'BH', 'splitting')
KEEP_FIELDS = ('AggOp', 'T', 'C', 'Cpts', 'Fpts')


def level_values(ml):
    """per level: field -> ('sparse', format, shape, dtype, dense array) | ('array', array)"""
    out = []
    for lv in ml.levels:
        d = {}
        for nm, v in vars(lv).items():
            if sp.issparse(v):
                d[nm] = ('sparse', v.format, v.shape, str(v.dtype), v.toarray(), snapshot(v)[0])
            elif isinstance(v, np.ndarray):
                d[nm] = ('array', v.shape, str(v.dtype), np.array(v))
        out.append(d)
    return out


def bits_equal(a, b):
    a, b = np.ascontiguousarray(a), np.ascontiguousarray(b)
    return a.shape == b.shape and a.dtype == b.dtype and a.tobytes() == b.tobytes()


def compare_levels(la, lb, mode):
    """mode 'bits': every field bitwise (raw storage too); 'content': operator fields, dense bitwise, format ignored;
    'tol': operator fields to 1e-3 relative (3e-2 in single precision); 'shape': number of levels and shapes only.  Returns None or a description of the first difference."""
    if len(la) != len(lb):
        return f'{len(la)} levels versus {len(lb)} levels'
    for i, (da, db) in enumerate(zip(la, lb)):
        names = sorted(set(da) | set(db)) if mode == 'bits' else [n for n in OPERATOR_FIELDS + KEEP_FIELDS if n in da or n in db]
        for nm in names:
            if nm not in da or nm not in db:
                if mode == 'bits' or nm in OPERATOR_FIELDS:
                    return f'level {i}: field {nm} exists in one hierarchy only'
                continue
            va, vb = da[nm], db[nm]
            xa, xb = (va[4], vb[4]) if va[0] == 'sparse' else (va[3], vb[3])
            if va[0] != vb[0] or xa.shape != xb.shape:
                return f'level {i}: {nm} has shape {xa.shape} versus {xb.shape}'
            if mode == 'bits':
                if va[0] == 'sparse' and (va[1] != vb[1] or va[5] != vb[5]):
                    return f'level {i}: stored arrays of {nm} differ (format {va[1]} / {vb[1]})'
                if not bits_equal(xa, xb):
                    return f'level {i}: {nm} differs, max |diff| = {np.abs(xa.astype(complex) - xb.astype(complex)).max():.3e}'
                continue
            if mode == 'shape':
                continue
            if nm == 'C':
                pd_ = (xa != 0) != (xb != 0)
                if pd_.any():
                    # 'tol' mode compares hierarchies whose level matrices agree to rounding only (the block code path
                    # sums in another order): an entry of A that is rounding noise in one hierarchy and an exact,
                    # eliminated zero in the other is a connection in one strength pattern only
                    if mode == 'tol' and 'A' in da and 'A' in db:
                        Aa = da['A'][4] if da['A'][0] == 'sparse' else da['A'][3]
                        Ab = db['A'][4] if db['A'][0] == 'sparse' else db['A'][3]
                        if Aa.shape == pd_.shape == Ab.shape:
                            sc = max(float(np.abs(Aa).max()), 1e-300)
                            noise = (np.abs(Aa) <= 1e-9 * sc) & (np.abs(Ab) <= 1e-9 * sc)
                            if not (pd_ & ~noise).any():
                                continue
                    return f'level {i}: pattern of the strength matrix C differs'
                continue
            if mode == 'content':
                if xa.dtype != xb.dtype or not bits_equal(xa, xb):
                    return (f'level {i}: {nm} differs, max |diff| = '
                            f'{np.abs(xa.astype(complex) - xb.astype(complex)).max():.3e} (dtype {xa.dtype} / {xb.dtype})')
            else:
                if xa.dtype != xb.dtype:
                    return f'level {i}: {nm} has dtype {xa.dtype} versus {xb.dtype}'
                sc = max(1.0, float(np.abs(xa).max())) if xa.size else 1.0
                df = float(np.abs(xa.astype(complex) - xb.astype(complex)).max()) if xa.size else 0.0
                rtol = 1e-3 if xa.dtype.itemsize >= 8 and xa.dtype.kind != 'c' or xa.dtype.itemsize >= 16 else 3e-2
                if np.isfinite(xa).all() != np.isfinite(xb).all() or (np.isfinite(df) and df > rtol * sc):
                    return f'level {i}: {nm} differs by {df:.3e} (scale {sc:.3e})'
    return None


def opt_names(kw):
    def nm(v):
        if isinstance(v, list):
            return '[' + ','.join(nm(x) for x in v) + ']'
        if callable(v):
            return 'callable'
        return str(name_of(v))
    return {k: nm(v) for k, v in kw.items() if k not in ('B', 'BH', 'max_levels', 'max_coarse', 'keep')}


def case_summary(case, fmt=None, bs=None):
    out = {'ctor': case['ctor'], 'n': int(case['A'].shape[0]), 'fam': case['tags']['fam'], 'fmt': fmt, 'bs': bs,
           'dtype': case.get('dtype') or str(case['A'].dtype), 'options': opt_names(case['kw'])}
    if case['tags'].get('tiny'):
        out['tiny_entries'] = case['tags']['tiny']
    return out


def replay_payload(kind, case, **extra):
    c = {k: v for k, v in case.items()}
    return {'kind': kind, 'summary': case_summary(case, extra.get('fmt'), extra.get('bs')), 'packed': pack({'case': c, **extra})}


# ------------------------------------------------------------------------------------------------
# part B1: purity, reproducibility, format equivalence
# ------------------------------------------------------------------------------------------------

def filter_active(case):
    fo = case['kw'].get('filter_operator')
    return case['ctor'] == 'air' and fo is not None and fo[1] != 0


def energy_filters_by_strength(smooth):
    """energy smoothing whose sparsity pattern is filtered by the VALUES of the strength matrix (prefilter / postfilter theta > 0)"""
    def has(sm):
        if isinstance(sm, (tuple, list)) and len(sm) == 2 and isinstance(sm[1], dict):
            for k in ('prefilter', 'postfilter'):
                f = sm[1].get(k) or {}
                if isinstance(f, dict) and (f.get('theta') or 0) > 0:
                    return True
        return False
    if isinstance(smooth, list):
        return any(has(s) for s in smooth)
    return has(smooth)


def classify_format(case, fmt, bs, ref_ok, got):
    """known-finding key for a format-dependent outcome, decided from the input alone"""
    if fmt == 'bsr' and bs > 1 and case['ctor'] in ('sa', 'rn', 'pw', 'air'):
        return K_BSR_BLOCKS            # blocks are supernodes: block strength / aggregation / default candidates by design;
                                       # options that cannot work on supernodes raise
    if (fmt == 'bsr' and bs == 1 and case['ctor'] == 'air' and got is None and name_of(case['kw'].get('strength')) == 'symmetric'
            and name_of(case['kw'].get('interpolation')) == 'one_point'):
        return K_BSR_SYM_VALUES        # symmetric strength: measure values for CSR, all ones for BSR; one-point
                                       # interpolation ranks the connections by those values
    if (fmt == 'bsr' and bs == 1 and case['ctor'] in ('sa', 'rn') and got is None
            and name_of(case['kw'].get('strength')) in ('symmetric', 'energy_based')
            and name_of(case['kw'].get('smooth')) == 'energy' and energy_filters_by_strength(case['kw'].get('smooth'))):
        return K_BSR_SYM_VALUES        # the same values select the sparsity pattern of energy smoothing when a pre-/post-filter
                                       # with theta > 0 is requested (filter_matrix_rows on the strength matrix)
    if fmt == 'bsr' and bs > 1 and case['ctor'] == 'rs' and got is None:
        return K_RS_BSR_ZEROS          # csr_array(bsr) keeps the zeros stored inside the blocks: they count as connections
    if fmt == 'bsr' and ref_ok and isinstance(got, TypeError) and str(got).startswith('expected csr_array'):
        kw = case['kw']
        ags = kw.get('aggregate')
        ags = ags if isinstance(ags, list) else [ags]
        if case['ctor'] in ('sa', 'rn') and any(name_of(a) == 'pairwise' for a in ags):
            return K_BSR_UNSUPPORTED   # pairwise aggregation of a BSR matrix returns BSR, fit_candidates wants CSR
        if case['ctor'] == 'air' and (kw.get('strength') is None or name_of(kw.get('interpolation')) in ('classical', 'direct')):
            return K_BSR_UNSUPPORTED   # CSR-only kernels behind these options
    return None


def bsr_treats_tiny_differently(case):
    """the BSR code paths of the strength measures treat stored entries far below the rounding level differently, even for
    1 x 1 blocks: classical_strength_of_connection drops |a| < 1e-16 (absolute) in its BSR branch only (a row whose off-diagonal
    entries are all that small, or theta = 0: strong connections for CSR input, none for BSR input);
    symmetric_strength_of_connection returns all ones for BSR and |a| scaled by the row maximum for CSR, where such entries
    underflow to stored zeros that later steps eliminate.  Both reported; until they are fixed or listed in KNOWN_FINDINGS.txt
    the hierarchy comparison BSR versus CSR is left out for exactly this input class (a stored entry with 0 < |a| < 1e-16);
    the purity of the BSR input is still checked."""
    if not case['tags'].get('tiny'):
        return False
    a = np.abs(case['A'])
    return bool(((a > 0) & (a < 1e-16)).any())


def opt_freeze(o):
    """an option object as a comparable value (deep): dicts by sorted keys, arrays / matrices by content"""
    if isinstance(o, dict):
        return ('dict', tuple(sorted(((repr(k), opt_freeze(v)) for k, v in o.items()), key=lambda kv: kv[0])))
    if isinstance(o, (list, tuple)):
        return (type(o).__name__, tuple(opt_freeze(v) for v in o))
    if isinstance(o, np.ndarray) or sp.issparse(o):
        return ('array', snapshot(o)[0])
    if callable(o):
        return ('callable', getattr(o, '__name__', '?'))
    return (type(o).__name__, repr(o))


def opt_diff(a, b, path='options'):
    """where the option objects `b` (after a build) differ from the deep copy `a` taken before it; None when equal"""
    if isinstance(a, dict) and isinstance(b, dict):
        for k in a:
            if k not in b:
                return f'{path}: key {k!r} removed'
        for k in b:
            if k not in a:
                return f'{path}: key {k!r} added (= {str(b[k])[:40]})'
        for k in a:
            d = opt_diff(a[k], b[k], f'{path}[{k!r}]')
            if d:
                return d
        return None
    if isinstance(a, (list, tuple)) and type(a) is type(b):
        if len(a) != len(b):
            return f'{path}: {type(a).__name__} of length {len(a)} -> length {len(b)}'
        for i, (x, y) in enumerate(zip(a, b)):
            d = opt_diff(x, y, f'{path}[{i}]')
            if d:
                return d
        return None
    if opt_freeze(a) != opt_freeze(b):
        return f'{path}: {str(a)[:40]} -> {str(b)[:40]}'
    return None


def carries_dict(o):
    if isinstance(o, dict):
        return True
    return isinstance(o, (list, tuple)) and any(carries_dict(v) for v in o)


PER_LEVEL_OPTIONS = {'sa': ('strength', 'aggregate', 'smooth', 'improve_candidates', 'presmoother', 'postsmoother'),
                     'rn': ('strength', 'aggregate', 'smooth', 'improve_candidates', 'presmoother', 'postsmoother'),
                     'pw': ('aggregate', 'presmoother', 'postsmoother'),
                     'rs': ('presmoother', 'postsmoother'), 'air': ('presmoother', 'postsmoother')}


def expand_per_level(kw, ctor, nlev):
    """the same options with every per-level option WRITTEN OUT level by level as independent copies (documented meaning of
    a single value: "that option at every level"; of a short list: "the last entry for all later levels"); one option
    object given once is shared by all levels of a build, the written-out form shares nothing.  None if there is nothing
    mutable to share."""
    names = [nm for nm in PER_LEVEL_OPTIONS.get(ctor, ()) if nm in kw and carries_dict(kw[nm])]
    if not names or nlev < 3:
        return None
    out = dict(kw)
    for nm in names:
        v = kw[nm]
        if isinstance(v, list):
            if not v or any(name_of(e) == 'predefined' for e in v):
                return None
            L = max(len(v), nlev - 1)
            out[nm] = [copy.deepcopy(v[min(i, len(v) - 1)]) for i in range(L)]
        else:
            if name_of(v) == 'predefined':
                return None
            out[nm] = [copy.deepcopy(v) for _ in range(nlev - 1)]
    return out


def same_outcome(a, b):
    """two builds: both raise the same exception type, or bit-identical levels"""
    if a.ml is None or b.ml is None:
        return a.ml is None and b.ml is None and type(a.exc) is type(b.exc)
    return compare_levels(level_values(a.ml), level_values(b.ml), 'bits') is None


def eval_build_case(ctx, case, fmts, pending_store):
    ctor = case['ctor']
    rng_seed = case['seed']
    # the two reference builds are the two calls of ONE caller: fresh copies of the matrix, the same seed, and the caller's
    # own option objects (dicts, lists, tuples holding dicts, B / BH arrays) handed to both calls
    shared = real_kw(case['kw'])
    opt0 = copy.deepcopy(shared)
    ref = build(case, 'csr', trace_air=True, kw=shared)
    mutated = opt_diff(opt0, shared)
    ref2 = build(case, 'csr', kw=shared)
    nlev = len(ref.ml.levels) if ref.ml is not None else 0
    summ = case_summary(case)
    if mutated:
        ctx.feat('build_changes_option_objects:' + mutated.split(':')[0][8:60] + ':' + mutated.split(':')[1].split('(')[0].strip()[:30])
    if carries_dict([v for k, v in shared.items() if k not in ('B', 'BH')]):
        ctx.feat('options_with_nested_dicts')

    def blame_options():
        """a second build with the caller's option objects differs from the first: because the first build changed them?
        (decided by a third build that gets pristine copies of the options)"""
        if not mutated:
            return ''
        third = build(case, 'csr')
        if same_outcome(ref, third):
            return (f'; the first build CHANGED THE CALLER\'S OPTION OBJECTS ({mutated}) and the second build was given the same '
                    f'objects -- a third build with pristine copies of the options equals the first')
        return f'; (the first build also changed the caller\'s option objects: {mutated})'

    def payload(**extra):
        return replay_payload('build', case, **extra)

    def check_purity(b, fmt, bs):
        if b.snapA0[1] != b.snapA1[1]:
            ctx.violation(f'{ctor}: the build changed the numerical content of the user\'s matrix (format {fmt}'
                          f'{"" if fmt != "bsr" else f" blocksize {bs}"}, dtype {summ["dtype"]}); options {summ["options"]}',
                          payload(fmt=fmt, bs=bs, what='purity'))
        elif b.snapA0[0] != b.snapA1[0]:
            if b.canonA0 == b.canonA1:
                ctx.feat('user_matrix_storage_reordered_content_same')     # in-place sort_indices of CSR / CSC / BSR
            else:
                # same represented matrix, but the stored arrays are not a re-ordering inside the rows of what the user
                # passed (stored zeros dropped or overwritten, index arrays replaced, entries merged, ...)
                ctx.violation(f'{ctor}: the build changed the stored arrays (data / indices / indptr) of the user\'s matrix, '
                              f'not only the order inside a row (format {fmt}{"" if fmt != "bsr" else f" blocksize {bs}"}, dtype '
                              f'{summ["dtype"]}); options {summ["options"]}', payload(fmt=fmt, bs=bs, what='purity'))
        for k in ('B', 'BH'):
            if b.snapB0[k] != b.snapB1[k]:
                ctx.violation(f'{ctor}: the build changed the user\'s candidate array {k} (format {fmt}); options {summ["options"]}',
                              payload(fmt=fmt, bs=bs, what='purity'))

    ctx.case(key=_key('build', ctor, 'csr', summ['dtype'], sorted(summ['options'].items()), nlev > 1), nontrivial=nlev >= 2,
             sample={**summ, 'levels': nlev} if ctx.evaluations % 97 == 0 else None)
    ctx.feat('ctor:' + ctor)
    ctx.feat('levels:' + str(min(nlev, 5)))
    if case['tags'].get('tiny'):
        ctx.feat('tiny_entries:' + case['tags']['tiny'])
    if ref.exc is not None:
        ctx.feat('reference_build_raises:' + type(ref.exc).__name__)
    check_purity(ref, 'csr', 1)
    # ---- store model (alias of the finest level, targets of AIR's in-place filtering)
    fp = np.dtype(case.get('dtype') or case['A'].dtype).kind in 'fc'

    def store_item(b, fmt, bs):
        if b.ml is None:
            return
        ext = b.air['ext'] if b.air else max(0, len(b.ml.levels) - 1)
        impl = (('alias' if b.ml.levels[0].A is b.Ain else 'copy') + ';' + ('1' if (b.air and b.air['user_hit']) else '0') + ';' +
                ((','.join(b.air['targets']) or '-') if b.air else '-') + ';' +
                ('1' if (b.snapA0[0] != b.snapA1[0] and b.snapA0[1] == b.snapA1[1]) else '0'))
        pending_store.append((f'c15_store {ctor} {fmt} {"fp" if fp else "int"} {1 if filter_active(case) else 0} {ext}',
                              impl, case, fmt, bs))
    store_item(ref, 'csr', 1)
    # ---- reproducibility
    if (ref.exc is None) != (ref2.exc is None) or (ref.exc is not None and type(ref.exc) is not type(ref2.exc)):
        ctx.violation(f'{ctor}: two builds from fresh copies with the same seed: one raises {ref.exc!r}, the other {ref2.exc!r}'
                      + blame_options(), payload(fmt='csr', bs=1, what='seed'))
    ref_levels = None
    if ref.ml is not None and ref2.ml is not None:
        ref_levels = level_values(ref.ml)
        d = compare_levels(ref_levels, level_values(ref2.ml), 'bits')
        if d:
            ctx.violation(f'{ctor}: two builds from fresh copies of the same matrix with the same NumPy seed (and the same option '
                          f'objects) differ: {d}; options {summ["options"]}' + blame_options(), payload(fmt='csr', bs=1, what='seed'))
    elif ref.ml is not None and ref_levels is None:
        ref_levels = level_values(ref.ml)
    # ---- one option object shared by all levels of ONE build versus the same options written out level by level
    pristine = copy.deepcopy(opt0)                       # `shared` has been through two builds
    wide = expand_per_level(pristine, ctor, nlev) if ref.ml is not None else None
    if wide is not None:
        b = build(case, 'csr', kw=wide)
        ctx.feat('per_level_written_out')
        d = (f'it raises {type(b.exc).__name__}: {str(b.exc)[:80]}' if b.ml is None
             else compare_levels(ref_levels, level_values(b.ml), 'bits'))
        if d:
            ctx.violation(f'{ctor}: {nlev} levels; the hierarchy built with one option object for all levels differs from the one '
                          f'built with the same options written out level by level as independent copies '
                          f'({", ".join(k for k in wide if wide[k] is not pristine.get(k))}): {d}; options '
                          f'{summ["options"]}' + (f'; the build changes the option objects it is given ({mutated})' if mutated else ''),
                          payload(fmt='csr', bs=1, what='levels'))
    # ---- other formats
    for fmt, bs in fmts:
        shuffle = rng_seed % 1000 + 1 if fmt in ('coo', 'csr_unsorted') else 0
        b = build(case, fmt, bs, shuffle, trace_air=True)
        ctx.case(key=_key('build', ctor, fmt, bs, summ['dtype'], sorted(summ['options'].items())), nontrivial=nlev >= 2)
        ctx.feat('format:' + fmt + (str(bs) if fmt == 'bsr' else ''))
        check_purity(b, fmt, bs)
        if fmt == 'csr_unsorted':
            continue          # the same format with another storage order: purity only
        if case.get('zmask') is not None:
            continue          # explicitly stored zeros exist in some formats only (they are entries of the graph): purity only
        if fmt == 'bsr' and bsr_treats_tiny_differently(case):
            ctx.feat('left_out:bsr_versus_csr_with_entries_below_1e-16')
            continue
        store_item(b, fmt, bs)
        fk = classify_format(case, fmt, bs, ref.exc is None, b.exc)
        if fk == K_RS_BSR_ZEROS:
            # exactly that mechanism?  then CSR input that stores the same zeros gives the BSR hierarchy
            z = build(case, 'csr_stored_zeros', bs)
            if z.ml is None or b.ml is None or compare_levels(level_values(z.ml), level_values(b.ml), 'content'):
                fk = None
        if ref.exc is not None:
            if b.exc is None:
                ctx.feat('format_accepts_what_csr_rejects')
            continue
        if b.exc is not None:
            ctx.violation(f'{ctor}: CSR input builds a hierarchy, the same matrix as {fmt}{bs if fmt == "bsr" else ""} raises '
                          f'{type(b.exc).__name__}: {str(b.exc)[:120]}; options {summ["options"]}',
                          payload(fmt=fmt, bs=bs, what='format'), fkey=fk)
            continue
        mode = 'content'
        if fmt == 'bsr':
            # the block code path rounds differently; with several candidates the local QR factorisations of
            # fit_candidates amplify that without bound (nearly dependent columns on small aggregates): values are
            # compared on the well-conditioned single-candidate instances only, shapes always
            Bc = case['kw'].get('B')
            mode = 'tol' if (Bc is None or Bc.ndim == 1 or Bc.shape[1] == 1) else 'shape'
            ctx.feat('bsr_compare:' + mode)
        d = compare_levels(ref_levels, level_values(b.ml), mode)
        if d:
            ctx.violation(f'{ctor}: the hierarchy built from {fmt}{bs if fmt == "bsr" else ""} input differs from the one built from '
                          f'CSR input of the same matrix: {d}; options {summ["options"]}',
                          payload(fmt=fmt, bs=bs, what='format'), fkey=fk)


def flush_store(ctx, pending, q):
    for it in pending:
        q.add(it[0], lambda line, o, it=it: store_one(ctx, it, o))
    pending.clear()


def store_one(ctx, it, o):
    line, impl, case, fmt, bs = it
    if True:
        m = o.split(';')
        i = impl.split(';')
        ctx.feat('store:' + m[0])
        # fields 0..2 exactly; field 3: stored arrays re-ordered (observed) only where the model allows it
        if m[:3] != i[:3] or m[1] != '0' or (i[3] == '1' and m[3] != '1'):
            ctx.corr('c15_store', {'line': line, **case_summary(case, fmt, bs)}, o, impl)
            # independent judgement: purity of this very build is decided by the snapshots in eval_build_case


def smoother_core(ctx, q):
    """a fixed core that runs whatever the seed: every prolongation-smoother option x {smoothed_aggregation, rootnode} x
    {CSR, BSR 1x1, BSR 2x2} x {symmetric, nonsymmetric problem}: purity of A and B, same-seed reproducibility, format
    comparison as in the random stream"""
    pending = []
    Dsym = np.ascontiguousarray(stencil2d(5, 4, eps=0.5) * (1.0 / 3.0))
    Dnon = np.ascontiguousarray(stencil2d(5, 4, eps=0.5, conv=2.0) * 0.7)
    n = Dsym.shape[0]
    Bk = np.ones((n, 2))
    Bk[:, 1] = np.arange(n) / (n - 1.0) + 0.01
    for root in (False, True):
        ctor = 'rn' if root else 'sa'
        for j, sm in enumerate(smooth_grid(root)):
            for D, fam, sym in ((Dsym, 'aniso', 'hermitian'), (Dnon, 'upwind', 'nonsymmetric')):
                if fam == 'upwind' and j % 3 != 0:
                    continue                          # the nonsymmetric problem on a third of the grid
                kw = {'symmetry': sym, 'strength': ('symmetric', {'theta': 0.13}), 'aggregate': 'standard',
                      'smooth': fit_symmetry(sm, sym, fam), 'improve_candidates': None, 'max_levels': 3, 'max_coarse': 2, 'keep': False}
                if j % 2 == 0:
                    kw['B'] = Bk.copy()
                    if sym == 'nonsymmetric':
                        kw['BH'] = Bk.copy()
                elif root:
                    kw['B'] = Bk.copy()               # rootnode wants at least blocksize candidates (BSR 2x2 below)
                case = {'ctor': ctor, 'A': D, 'dtype': None, 'bs': 2, 'kw': kw, 'seed': 12345 + j,
                        'tags': {'fam': fam, 'complex': False}}
                eval_build_case(ctx, case, [('bsr', 1), ('bsr', 2)], pending)
                ctx.feat('smoother_core')
    flush_store(ctx, pending, q)


def tiny_core(ctx, rng, q):
    """a fixed grid that runs whatever the seed: every constructor x every strength option (pairwise: every aggregation
    option) on matrices that store entries of magnitude 1e-14 ... subnormal and explicit zeros (positions and values from the
    seed), real and complex, candidates with such entries too; evaluated like every build case (stored arrays of the user's
    matrix and of B / BH before/after, same-seed reproducibility, CSR / CSC / BSR input)"""
    pending = []
    Dsym = np.ascontiguousarray(stencil2d(5, 4, eps=0.5) * (1.0 / 3.0))
    Dnon = np.ascontiguousarray(stencil2d(5, 4, eps=0.5, conv=2.0) * 0.7)
    Dc = gen.spd_matrix(rng, 18, 'poisson1d', complex_=True).toarray() * 0.7
    grid = ([('rs', st) for st in STRENGTH_RS] + [('air', st) for st in STRENGTH_AIR] + [('sa', st) for st in STRENGTH_SA]
            + [('rn', st) for st in STRENGTH_SA] + [('pw', ag) for ag in AGGREGATE_PW])
    other = [('csc', 1), ('bsr', 1), ('bsr', 2), ('coo', 1)]
    for j, (ctor, opt) in enumerate(grid):
        variants = [(Dnon, 'upwind', 'nonsymmetric')] if ctor == 'air' else [(Dsym, 'aniso', 'hermitian')]
        if ctor in ('sa', 'rn') and name_of(opt) in ('symmetric', 'classical', 'evolution'):
            variants.append((Dc, 'cherm', 'hermitian'))
        elif ctor != 'air' and j % 3 == 0:
            variants.append((Dnon, 'upwind', 'nonsymmetric'))
        for D0, fam, sym in variants:
            n = D0.shape[0]
            cplx = bool(np.iscomplexobj(D0))
            if ctor == 'pw':
                kw = {'aggregate': opt}
            else:
                kw = {'strength': opt, 'keep': bool(j % 2)}
            if ctor in ('sa', 'rn'):
                kw.update({'symmetry': sym, 'aggregate': 'standard', 'smooth': fit_symmetry('energy' if ctor == 'rn' else 'jacobi', sym, fam),
                           'improve_candidates': [('gauss_seidel', {'sweep': 'symmetric', 'iterations': 2}), None] if j % 2 else None})
                Bk = np.ones((n, 2), dtype=D0.dtype)
                Bk[:, 1] = np.arange(n) / (n - 1.0) + 0.01
                for i in rng.permutation(n)[:5]:
                    Bk[int(i), 1] = float(pick(rng, TINY_VALUES + [0.0, -0.0]))
                kw['B'] = Bk
                if sym == 'nonsymmetric':
                    kw['BH'] = Bk.copy()
            kw.update({'max_levels': 3, 'max_coarse': 2})
            zeros = not zeros_are_dropped_in_place(kw)
            D, zmask = decorate_tiny(rng, D0, symmetric=fam != 'upwind', zeros=zeros, count=10)
            tags = {'fam': fam, 'complex': cplx, 'tiny': 'values+zeros' if zeros else 'values'}
            case = {'ctor': ctor, 'A': D, 'dtype': None, 'bs': 2, 'kw': kw, 'seed': 777 + j, 'tags': tags}
            if zeros and zmask is not None and zmask.any():
                case['zmask'] = zmask
            fm = [other[j % len(other)]]
            if j % 4 == 3:
                fm.append(('csr_unsorted', 1))
            eval_build_case(ctx, case, fm, pending)
            ctx.feat('tiny_core')
    flush_store(ctx, pending, q)


def int64_case(ctx, rng):
    """DESIGN section 7 #19: csr_array with int64 index arrays"""
    ctor = str(pick(rng, ['rs', 'air', 'sa', 'rn', 'pw']))
    D = stencil2d(4, 3) / 3.0
    case = {'ctor': ctor, 'A': D, 'dtype': None, 'bs': 1, 'kw': {'max_coarse': 3}, 'seed': 1, 'tags': {'fam': 'p2', 'complex': False}}
    ref = build(case, 'csr')
    b = build(case, 'csr_int64')
    ctx.case(key=_key('int64', ctor), nontrivial=True)
    ctx.feat('format:csr_int64')
    if b.snapA0 != b.snapA1:
        ctx.violation(f'{ctor}: the build changed the user\'s matrix (int64 index arrays)', replay_payload('int64', case))
    if ref.exc is None and b.exc is not None:
        ctx.violation(f'{CT[ctor][1]}(csr_array with int64 indices/indptr) raises {type(b.exc).__name__}: {str(b.exc)[:100]} '
                      f'while the same matrix with int32 index arrays builds {len(ref.ml.levels)} levels',
                      replay_payload('int64', case), fkey=K_INT64)
    elif ref.exc is None and b.exc is None:
        d = compare_levels(level_values(ref.ml), level_values(b.ml), 'content')
        if d:
            ctx.violation(f'{ctor}: int64 index arrays give another hierarchy: {d}', replay_payload('int64', case))


# ------------------------------------------------------------------------------------------------
# part B2: reuse of a built solver
# ------------------------------------------------------------------------------------------------

def gen_call(rng, n, cplx, nlev):
    kw = {}
    b = rng.integers(-4, 5, size=n).astype(complex if cplx else float) / 3.0
    if cplx:
        b = b + 1j * rng.integers(-3, 4, size=n) / 7.0
    r = rng.random()
    if r < 0.08:
        b = b * 0
    if rng.random() < 0.3:
        b = b.reshape(-1, 1)
    if rng.random() < 0.15:
        return {'kind': 'prec', 'b': np.ravel(b), 'cycle': str(pick(rng, ['V', 'W', 'F'])), 'seed': int(rng.integers(2 ** 31))}
    kw['b'] = b
    if rng.random() < 0.6:
        kw['x0'] = rng.integers(-3, 4, size=b.shape).astype(b.dtype) / 5.0
    kw['cycle'] = str(pick(rng, ['V', 'V', 'W', 'F', 'AMLI', 'v']))
    kw['tol'] = float(pick(rng, [1e-5, 1e-10, 1e-2, 0.5, 1e-14]))
    kw['maxiter'] = int(pick(rng, [1, 1, 2, 3, 7]))
    if rng.random() < 0.55:
        kw['residuals'] = [1.0, 2.0] if rng.random() < 0.3 else []
    acc = str(pick(rng, ['none', 'none', 'none', 'cg', 'gmres', 'fgmres', 'bicgstab', 'cgs', 'minres', 'cr']))
    if acc != 'none':
        kw['accel'] = acc
    if kw['cycle'] == 'AMLI' and acc not in ('none', 'fgmres'):
        kw['accel'] = 'fgmres'
    if rng.random() < 0.2:
        kw['cycles_per_level'] = int(pick(rng, [2, 3]))
    if rng.random() < 0.2:
        kw['return_info'] = True
    if rng.random() < 0.15:
        kw['callback'] = True
    return {'kind': 'solve', 'seed': int(rng.integers(2 ** 31)), **kw}


def do_call(ml, call, seed_override=None):
    """run one call on a solver; the result as a tuple of comparable bits"""
    call = copy.deepcopy(call)
    np.random.seed(call['seed'] if seed_override is None else seed_override)
    try:
        with warnings.catch_warnings():
            warnings.simplefilter('ignore')
            with np.errstate(all='ignore'):
                if call['kind'] == 'prec':
                    y = ml.aspreconditioner(cycle=call['cycle']) @ call['b']
                    return ('ok', np.asarray(y).dtype.str, np.asarray(y).shape, np.ascontiguousarray(y).tobytes())
                kw = {k: v for k, v in call.items() if k not in ('kind', 'seed', 'b')}
                seen = []
                if kw.get('callback'):
                    kw['callback'] = lambda x: seen.append(np.ascontiguousarray(x).tobytes() if not np.isscalar(x) else repr(x))
                r = ml.solve(call['b'], **kw)
                info = None
                if isinstance(r, tuple):
                    r, info = r
                r = np.asarray(r)
                res = kw.get('residuals')
                resb = None if res is None else np.asarray(res, dtype=float).tobytes()
                return ('ok', r.dtype.str, r.shape, np.ascontiguousarray(r).tobytes(), repr(info), resb, tuple(seen))
    except Exception as e:  # noqa: BLE001
        return ('exc', type(e).__name__, str(e)[:100])


def describe_diff(r1, r2):
    if r1[0] != r2[0]:
        return f'outcome {r1[0]} ({r1[1:3]}) versus {r2[0]} ({r2[1:3]})'
    if r1[0] == 'exc':
        return f'{r1[1]}: {r1[2]} versus {r2[1]}: {r2[2]}'
    if r1[1:3] != r2[1:3]:
        return f'dtype / shape {r1[1:3]} versus {r2[1:3]}'
    a = np.frombuffer(r1[3], dtype=r1[1])
    b = np.frombuffer(r2[3], dtype=r2[1])
    if r1[3] != r2[3]:
        with np.errstate(all='ignore'):
            return f'x differs in {int((a != b).sum())} of {a.size} entries, max |diff| = {np.nanmax(np.abs(a - b)):.3e}'
    if len(r1) > 4:
        if r1[4] != r2[4]:
            return f'info {r1[4]} versus {r2[4]}'
        if r1[5] != r2[5]:
            ra = np.frombuffer(r1[5] or b'', dtype=float)
            rb = np.frombuffer(r2[5] or b'', dtype=float)
            return f'residual lists differ: {len(ra)} / {len(rb)} entries, last {ra[-1:]} / {rb[-1:]}'
        if r1[6] != r2[6]:
            return 'callback arguments differ'
    return 'results differ'


def operator_snapshots(ml):
    d = {}
    for i, lv in enumerate(ml.levels):
        for nm, v in vars(lv).items():
            if sp.issparse(v) or isinstance(v, np.ndarray):
                d[(i, nm)] = snapshot(v)
    return d


def presort(ml):
    """equalise the storage order of every sparse level attribute (what get_diagonal does lazily at solve time)"""
    for lv in ml.levels:
        for v in vars(lv).values():
            if sp.issparse(v) and v.format in ('csr', 'csc', 'bsr'):
                v.sort_indices()


def run_protocol(case, history, last, fmt, bs, sort_first=False, same_seed=False):
    """build two solvers from fresh copies, run the history on one, the observed call on both"""
    used = build(case, fmt, bs)
    fresh = build(case, fmt, bs)
    if used.ml is None or fresh.ml is None:
        return None
    if sort_first:
        presort(used.ml)
        presort(fresh.ml)
    ops0 = operator_snapshots(used.ml)
    so = last['seed'] if same_seed else None
    outs = [do_call(used.ml, c, so) for c in history]
    ops_mid = operator_snapshots(used.ml)
    r_used = do_call(used.ml, last, so)
    r_fresh = do_call(fresh.ml, last, so)
    ops1 = operator_snapshots(used.ml)
    changed_content = [k for k, v in ops0.items() if k in ops1 and ops1[k][1] != v[1]]
    changed_raw = [k for k, v in ops0.items() if k in ops1 and ops1[k][0] != v[0] and ops1[k][1] == v[1]]
    return {'used': used, 'fresh': fresh, 'r_used': r_used, 'r_fresh': r_fresh, 'outs': outs,
            'changed_content': changed_content, 'changed_raw': changed_raw, 'ops_mid': ops_mid}


def smoother_names(case):
    return {str(name_of(case['kw'].get(k))) for k in ('presmoother', 'postsmoother')}


def eval_reuse_case(ctx, case, history, last, fmt, bs):
    ctor = case['ctor']
    summ = case_summary(case, fmt, bs)
    pr = run_protocol(case, history, last, fmt, bs)
    if pr is None:
        ctx.feat('reuse_build_raises')
        return
    ml = pr['used'].ml
    nlev = len(ml.levels)
    cs = str(name_of(case['kw'].get('coarse_solver', 'pinv')))
    hshape = tuple((c['kind'], c.get('cycle'), c.get('accel'), 'x0' in c, 'residuals' in c) for c in history)
    ctx.case(key=_key('reuse', ctor, fmt, sorted(summ['options'].items()), hshape, last.get('cycle'), last.get('accel')),
             nontrivial=bool(history) and (nlev >= 2 or cs in ('pinv', 'lu', 'cholesky', 'splu')),
             sample={**summ, 'levels': nlev, 'history': [str(h) for h in hshape]} if ctx.evaluations % 61 == 0 else None)
    ctx.feat('reuse_ctor:' + ctor)
    if case['tags'].get('shared_pair'):
        ctx.feat('reuse_shared_cache_pair')
    ctx.feat('coarse:' + cs)
    ctx.feat('history_len:' + str(len(history)))
    ctx.feat('last:' + last['kind'] + ':' + str(last.get('cycle')).upper() + ':' + str(last.get('accel', 'none')))
    ctx.feat('last_outcome:' + pr['r_used'][0])
    for o in pr['outs']:
        ctx.feat('history_outcome:' + o[0])

    def payload(what):
        return replay_payload('reuse', case, fmt=fmt, bs=bs, history=history, last=last, what=what)

    if pr['changed_content']:
        ctx.violation(f'{ctor}: solving changed level operator(s) {sorted(pr["changed_content"])[:4]} (level, field); smoothers '
                      f'{sorted(smoother_names(case))}, coarse solver {cs}', payload('operator'))
    if pr['changed_raw']:
        ctx.feat('level_operator_storage_reordered_by_solve')
    if pr['r_used'] == pr['r_fresh']:
        return
    diff = describe_diff(pr['r_used'], pr['r_fresh'])
    what = (f'{ctor} ({fmt}): the observed call {call_text(last)} returns different bits on a solver used for '
            f'{[call_text(c) for c in history]} than on a never-used solver: {diff}; smoothers {sorted(smoother_names(case))}, '
            f'coarse solver {cs}, {nlev} levels')
    # classification: is this exactly one of the two listed mechanisms?
    # (1) get_diagonal sorts the index arrays of the matrix it is given in place; the NE / NR smoothers and the
    #     relaxation-type coarse solvers call it at solve time, so the first solve re-orders level operators and every
    #     later product sums in another order.  Decided by: with all level operators sorted beforehand the bits agree.
    # (2) a relaxation-type coarse solver scaled by a spectral radius estimates that radius inside the first solve, from
    #     np.random start vectors, and caches it on the coarsest matrix.  Decided by: additionally with the same RNG state
    #     before every call the bits agree.
    fk = None
    co = case['kw'].get('coarse_solver')
    if pr['changed_raw']:
        p2 = run_protocol(case, history, last, fmt, bs, sort_first=True)
        if p2 is not None and p2['r_used'] == p2['r_fresh'] and not p2['changed_content']:
            fk = K_SORT
    if fk is None and cs in RHO_COARSE and not (isinstance(co, tuple) and co[1].get('withrho') is False):
        p3 = run_protocol(case, history, last, fmt, bs, sort_first=True, same_seed=True)
        if p3 is not None and p3['r_used'] == p3['r_fresh'] and not p3['changed_content']:
            fk = K_LAZY_RHO
    ctx.violation(what, payload('reuse'), fkey=fk)


def call_text(c):
    if c['kind'] == 'prec':
        return f'aspreconditioner({c["cycle"]}) @ b'
    parts = [f'b{list(c["b"].shape)}']
    for k in ('x0',):
        if k in c:
            parts.append('x0')
    for k in ('cycle', 'tol', 'maxiter', 'accel', 'cycles_per_level', 'return_info'):
        if k in c:
            parts.append(f'{k}={c[k]!r}')
    if 'residuals' in c:
        parts.append(f'residuals={c["residuals"]}')
    return 'solve(' + ', '.join(parts) + ')'


def reuse_stream(ctx, rng, count):
    for t in range(count):
        if out_of_time(ctx, 50, 120):
            ctx.feat('reuse_budget_cut')
            break
        case = gen_case(rng, ctx.quick, reuse=True)
        if t % 3 == 0:
            case['kw']['coarse_solver'] = pick(rng, ['pinv', 'lu', 'cholesky', 'splu'])
        if t % 5 == 0:
            case['kw']['max_coarse'] = int(pick(rng, [1, 2, 5]))
        n = case['A'].shape[0]
        fmt, bs = 'csr', 1
        r = rng.random()
        if r < 0.15 and case['ctor'] != 'rs':
            fmt, bs = 'bsr', case['bs']
        elif r < 0.25:
            fmt = str(pick(rng, ['dense', 'csc', 'coo']))
        probe = build(case, fmt, bs)
        if probe.ml is None:
            ctx.feat('reuse_build_raises')
            continue
        nlev = len(probe.ml.levels)
        cplx = case['tags']['complex']
        history = [gen_call(rng, n, cplx, nlev) for _ in range(int(pick(rng, [0, 1, 1, 2, 2, 3, 5])))]
        last = gen_call(rng, n, cplx, nlev)
        eval_reuse_case(ctx, case, history, last, fmt, bs)


# ------------------------------------------------------------------------------------------------
# smoother pairs that share per-level caches (format copies Acsr / Acsc / Absr, Schwarz parameters, block inverses, spectral
# radii on the level matrix): pre != post
# ------------------------------------------------------------------------------------------------

def user_subdomains(P, kind, rng=None):
    """user-chosen Schwarz subdomains (one sorted index set per row) derived from the boolean pattern P:
    'transpose' = incoming instead of outgoing connections, 'rotate' = the set of the next row (both keep the array lengths of
    the default / strength-based subdomains, the content differs), 'blocks' = contiguous blocks of three, 'random' = the row
    plus random extra nodes"""
    n = P.shape[0]
    P = np.array(P, dtype=bool) | np.eye(n, dtype=bool)
    if kind == 'transpose':
        Q = P.T
    elif kind == 'rotate':
        Q = np.roll(P, -1, axis=0)
    elif kind == 'blocks':
        g = np.arange(n) // 3
        Q = g[:, None] == g[None, :]
    else:
        Q = P | (rng.random((n, n)) < 2.0 / n)
    C = sp.csr_array(Q.astype(float))
    C.sort_indices()
    return {'subdomain': C.indices.astype(np.int32), 'subdomain_ptr': C.indptr.astype(np.int32)}


def shared_specs(P, n, rng):
    """(label, option for the finest level, option for the coarser levels) for every smoother that keeps something on the
    level or on the level matrix"""
    out = [('schwarz_rot', ('schwarz', user_subdomains(P, 'rotate')), 'schwarz'),
           ('schwarz_T', ('schwarz', dict(user_subdomains(P, 'transpose'), sweep='backward')), ('schwarz', {'sweep': 'backward'})),
           ('schwarz_rnd', ('schwarz', dict(user_subdomains(P, str(pick(rng, ['blocks', 'random'])), rng), iterations=2)), 'schwarz'),
           ('schwarz', 'schwarz', 'schwarz'),
           ('sb_schwarz', 'strength_based_schwarz', 'strength_based_schwarz'),
           ('sb_schwarz2', ('strength_based_schwarz', {'iterations': 2, 'sweep': 'symmetric'}),
            ('strength_based_schwarz', {'iterations': 2, 'sweep': 'symmetric'}))]
    for b in (2, 3):
        if n % b == 0:
            out.append((f'block_jacobi{b}', ('block_jacobi', {'blocksize': b}), 'block_jacobi'))
            out.append((f'block_gs{b}', ('block_gauss_seidel', {'blocksize': b, 'sweep': 'symmetric' if b == 3 else 'forward'}),
                        'block_gauss_seidel'))
    out += [(nm, nm, nm) for nm in ('jacobi_ne', 'gauss_seidel_ne', 'gauss_seidel_nr', 'chebyshev', 'jacobi')]
    out.append(('chebyshev2', ('chebyshev', {'degree': 2, 'iterations': 2}), ('chebyshev', {'degree': 2, 'iterations': 2})))
    out.append(('jacobi_ne_w', ('jacobi_ne', {'omega': 0.9, 'withrho': False}), ('jacobi_ne', {'omega': 0.9, 'withrho': False})))
    return out


def per_level(spec, max_levels):
    """options tied to the finest level (index sets, block sizes) are given level by level"""
    return spec[1] if max_levels <= 2 or spec[1] == spec[2] else [spec[1], spec[2]]


def pair_core(ctx, rng):
    """every ordered pair pre != post of the cache-sharing smoothers: the observed solve on a solver that has solved before
    (the same call, or two other calls) against a never-used solver of the same build, bit for bit; operators unchanged"""
    Dsym = np.ascontiguousarray(stencil2d(6, 6, eps=0.5) * (1.0 / 3.0))
    Dnon = np.ascontiguousarray(stencil2d(6, 6, eps=0.5, conv=2.0) * 0.7)
    n = Dsym.shape[0]
    patterns = {}
    labels = [sp_[0] for sp_ in shared_specs(Dsym != 0, n, np.random.default_rng(0))]
    pairs = [(a, b) for a in range(len(labels)) for b in range(len(labels)) if a != b]
    for t, (ia, ib) in enumerate(pairs):
        if out_of_time(ctx, 44, 300):
            ctx.feat('pair_budget_cut')
            break
        ctor = str(pick(rng, ['sa', 'sa', 'rs', 'rn', 'air']))
        non = ctor == 'air' or rng.random() < 0.4
        D, fam = (Dnon, 'upwind') if non else (Dsym, 'aniso')
        keep = bool(rng.random() < 0.5)
        max_levels = int(pick(rng, [2, 2, 2, 3]))
        if ctor in ('sa', 'rn'):
            sym = 'nonsymmetric' if non else 'hermitian'
            kw = {'symmetry': sym, 'strength': pick(rng, [('classical', {'theta': 0.47}), ('symmetric', {'theta': 0.13}), None]),
                  'smooth': fit_symmetry('energy' if ctor == 'rn' else 'jacobi', sym, fam)}
        elif ctor == 'rs':
            kw = {'strength': pick(rng, [('classical', {'theta': 0.47}), ('classical', {'theta': 0.27}), None])}
        else:
            kw = {'strength': ('classical', {'theta': 0.31, 'norm': 'min'})}
        kw.update({'keep': keep, 'max_levels': max_levels, 'max_coarse': 3,
                   'coarse_solver': pick(rng, ['pinv', 'splu', 'lu'])})
        case = {'ctor': ctor, 'A': D, 'dtype': None, 'bs': 1, 'kw': kw, 'seed': 4242 + t, 'tags': {'fam': fam, 'complex': False}}
        # the subdomains of the strength-based smoother on the finest level: pattern of C (kept) or of A
        pk = (ctor, non, keep, repr(kw['strength']))
        if pk not in patterns:
            probe = build(case, 'csr')
            if probe.ml is None:
                patterns[pk] = None
            else:
                lv = probe.ml.levels[0]
                patterns[pk] = (lv.C if hasattr(lv, 'C') else lv.A).toarray() != 0
        if patterns[pk] is None:
            ctx.feat('reuse_build_raises')
            continue
        specs = shared_specs(patterns[pk], n, rng)
        kw['presmoother'] = per_level(specs[ia], max_levels)
        kw['postsmoother'] = per_level(specs[ib], max_levels)
        b1 = rng.integers(-4, 5, size=n) / 3.0
        b2 = rng.integers(-4, 5, size=n) / 3.0
        x0 = rng.integers(-3, 4, size=n) / 5.0
        last = {'kind': 'solve', 'seed': 11, 'b': b2, 'x0': x0, 'cycle': str(pick(rng, ['V', 'V', 'W', 'F'])), 'tol': 1e-30, 'maxiter': 3}
        if t % 2 == 0:
            history = [copy.deepcopy(last)]                  # the same call twice on one object
        else:
            history = [{'kind': 'solve', 'seed': 12, 'b': b1, 'cycle': 'V', 'tol': 1e-30, 'maxiter': 2},
                       {'kind': 'solve', 'seed': 13, 'b': b1.reshape(-1, 1), 'x0': x0.reshape(-1, 1), 'cycle': 'W', 'tol': 1e-3, 'maxiter': 2,
                        'residuals': []}]
        ctx.feat('pair:' + specs[ia][0] + '/' + specs[ib][0])
        ctx.feat('pair_core')
        eval_reuse_case(ctx, case, history, last, 'csr', 1)


# ------------------------------------------------------------------------------------------------
# part B3: (a) options that carry nested dicts / per-level lists on hierarchies with >= 3 levels (the caller's option objects
# across two builds and across the levels of one build: eval_build_case); (b) the same solve repeated on one object with
# relaxation-type / polynomial coarse solvers
# ------------------------------------------------------------------------------------------------

FILTERS = [{'postfilter': {'theta': 0.11}}, {'postfilter': {'k': 2}}, {'postfilter': {'k': 3, 'theta': 0.07}}, {'prefilter': {'k': 3}},
           {'prefilter': {'theta': 0.13}, 'postfilter': {'theta': 0.09}}, {'prefilter': {'theta': 0.0}, 'postfilter': {'theta': 0.0}},
           {'prefilter': {'k': 4, 'theta': 0.05}, 'postfilter': {'k': 3}}]
SM_NESTED = [('gauss_seidel', {'sweep': 'symmetric', 'iterations': 2}),
             [('gauss_seidel', {'sweep': 'backward'}), ('jacobi', {'omega': 0.8, 'withrho': False})],
             ('chebyshev', {'degree': 2, 'iterations': 2}), [('sor', {'omega': 1.2}), ('richardson', {'omega': 0.9})],
             ('schwarz', {'iterations': 2}), [('jacobi_ne', {'omega': 0.9, 'withrho': False}), 'gauss_seidel'], ('gmres', {'maxiter': 2}),
             [('block_gauss_seidel', {'sweep': 'symmetric'}), ('block_jacobi', {'omega': 0.9, 'withrho': False})]]
COARSE_NESTED = [('jacobi', {'withrho': False, 'omega': 0.5}), ('pinv', {'rtol': 1e-12}), ('splu', {}), ('cg', {'maxiter': 3}),
                 ('gauss_seidel', {'iterations': 3}), 'pinv']


def gen_nested_case(rng, ctor, filt=None, kry=None):
    """a problem that coarsens to >= 3 levels x options given as tuples with dicts, dicts inside dicts, per-level lists"""
    non = ctor == 'air' or (ctor != 'pw' and filt is None and rng.random() < 0.3)
    if non:
        D, fam = stencil2d(8, 6, eps=0.5, conv=2.0) * 0.7, 'upwind'
    else:
        fam = str(pick(rng, ['p1', 'p1', 'aniso', 'p2'] + (['cherm'] if ctor in ('sa', 'rn') and filt is None else [])))
        if fam == 'p1':
            n = int(rng.integers(40, 72))
            D = (2 * np.eye(n) - np.eye(n, k=1) - np.eye(n, k=-1)) * 0.7
        elif fam == 'aniso':
            D = stencil2d(8, 6, eps=0.1) * (1.0 / 3.0)
        elif fam == 'p2':
            D = stencil2d(7, 7) * 1.1
        else:
            D = gen.spd_matrix(rng, int(rng.integers(30, 48)), 'poisson1d', complex_=True).toarray() * 0.7
    D = np.ascontiguousarray(D)
    n = D.shape[0]
    cplx = bool(np.iscomplexobj(D))
    kw = {'max_levels': int(pick(rng, [3, 4, 10, 10])), 'max_coarse': int(pick(rng, [2, 3]))}
    if ctor in ('sa', 'rn'):
        sym = 'nonsymmetric' if non else ('hermitian' if cplx else str(pick(rng, ['hermitian', 'symmetric'])))
        f = copy.deepcopy(filt if filt is not None else pick(rng, FILTERS))
        sm = fit_symmetry(('energy', {'krylov': kry or str(pick(rng, ['cg', 'cgnr', 'gmres'])), 'maxiter': 2,
                                      'degree': int(pick(rng, [1, 2])), **f}), sym, fam)
        r = rng.random()
        if filt is not None:
            pass
        elif ctor == 'sa' and r < 0.3:
            sm = pick(rng, [('jacobi', {'omega': 4.0 / 3.0, 'degree': 2, 'filter_entries': True, 'weighting': 'local'}),
                            [('jacobi', {'omega': 1.0}), ('richardson', {'omega': 4.0 / 3.0})], [sm, None]])
        elif r < 0.5:
            sm = [sm, ('energy', {'krylov': sm[1]['krylov'], 'maxiter': 1})]
        st = pick(rng, [('symmetric', {'theta': 0.0}), [('symmetric', {'theta': 0.0}), ('classical', {'theta': 0.23})],
                        [('evolution', {'k': 2, 'epsilon': 4.0}), ('symmetric', {'theta': 0.13})],
                        ('classical', {'theta': 0.27, 'norm': 'abs'}), [None, ('symmetric', {})]])
        ags = ['standard', [('standard', {}), ('naive', {})], ('naive', {})]
        if ctor == 'sa' and not cplx:
            ags += [('lloyd', {'ratio': 0.3, 'maxiter': 3}), ['standard', ('lloyd', {'ratio': 0.3, 'maxiter': 3})]]
        ics = [None, [('gauss_seidel', {'sweep': 'symmetric', 'iterations': 2}), None], ('gauss_seidel', {'sweep': 'symmetric', 'iterations': 2})]
        if not cplx:
            ics += [[('block_gauss_seidel', {'sweep': 'symmetric', 'iterations': 4}), None],
                    [('gauss_seidel', {'sweep': 'symmetric', 'iterations': 2}), ('jacobi', {'iterations': 2})],
                    [None, ('richardson', {'iterations': 1})]]
        kw.update({'symmetry': sym, 'strength': st, 'aggregate': pick(rng, ags), 'smooth': sm, 'improve_candidates': pick(rng, ics),
                   'keep': bool(rng.random() < 0.5)})
        k = int(pick(rng, [1, 1, 2]))
        kw['B'] = gen_B(rng, n, k, cplx)
        if sym == 'nonsymmetric' and rng.random() < 0.5:
            kw['BH'] = gen_B(rng, n, k, cplx).reshape(n, -1)
            kw['B'] = kw['B'].reshape(n, -1)
    elif ctor == 'rs':
        kw.update({'strength': pick(rng, [('classical', {'theta': 0.27}), ('symmetric', {'theta': 0.13}), ('evolution', {'k': 2, 'epsilon': 4.0})]),
                   'CF': pick(rng, [('RS', {'second_pass': True}), ('PMISc', {'method': 'MIS'}), ('CLJP', {'color': True})]),
                   'interpolation': pick(rng, [('classical', {'modified': False}), ('direct', {})]), 'keep': bool(rng.random() < 0.5)})
    elif ctor == 'air':
        kw.update({'strength': ('classical', {'theta': 0.31, 'norm': 'min'}), 'CF': ('RS', {'second_pass': True}),
                   'interpolation': pick(rng, [('one_point', {'by_val': True}), ('one_point', {})]),
                   'restrict': pick(rng, [('air', {'theta': 0.053, 'degree': 2}), ('air', {'theta': 0.11, 'degree': 1})]),
                   'filter_operator': pick(rng, [None, (True, 0.11)]), 'keep': bool(rng.random() < 0.5)})
    else:
        kw['aggregate'] = pick(rng, [('pairwise', {'theta': 0.27, 'norm': 'min', 'matchings': 2}),
                                     [('pairwise', {'theta': 0.27, 'norm': 'min', 'matchings': 1}),
                                      ('pairwise', {'theta': 0.0, 'norm': 'abs', 'matchings': 2})]])
    pool = SM_NESTED + ([('fc_jacobi', {'omega': 1.0, 'iterations': 1, 'withrho': False, 'f_iterations': 2, 'c_iterations': 1})]
                        if ctor in ('rs', 'air') else [])
    pre = copy.deepcopy(pick(rng, pool))
    kw['presmoother'] = pre
    kw['postsmoother'] = pre if rng.random() < 0.5 else copy.deepcopy(pick(rng, pool))     # also: ONE object for both
    kw['coarse_solver'] = copy.deepcopy(pick(rng, COARSE_NESTED))
    return {'ctor': ctor, 'A': D, 'dtype': None, 'bs': 1, 'kw': kw, 'seed': int(rng.integers(2 ** 31)), 'tags': {'fam': fam, 'complex': cplx}}


def options_core(ctx, rng, count, q):
    """fixed part (whatever the seed): rootnode / smoothed aggregation x every pre- / post-filter option of energy smoothing x
    the three Krylov variants; then `count` random cases over all constructors.  Judged by eval_build_case: purity, two
    builds with the caller's own option objects, one object for all levels versus written out level by level"""
    pending = []
    cases = []
    for ctor in ('rn', 'sa'):
        for j, f in enumerate(FILTERS):
            cases.append((ctor, f, ('cg', 'cgnr', 'gmres')[j % 3]))
    for t in range(count):
        cases.append((str(pick(rng, ['rn', 'rn', 'sa', 'sa', 'rs', 'air', 'pw'])), None, None))
    for t, (ctor, f, kry) in enumerate(cases):
        if out_of_time(ctx, 28, 500):
            ctx.feat('options_budget_cut')
            break
        case = gen_nested_case(rng, ctor, f, kry)
        eval_build_case(ctx, case, [[('csc', 1)], [('dense', 1)], []][t % 3], pending)
        ctx.feat('options_core')
    flush_store(ctx, pending, q)


REPEAT_COARSE = ['jacobi', 'richardson', 'chebyshev', 'block_jacobi', 'jacobi_ne', ('chebyshev', {'degree': 2}), ('richardson', {'iterations': 6}),
                 ('jacobi', {'iterations': 3}), ('block_jacobi', {'iterations': 2}), ('jacobi_ne', {'iterations': 2}), 'gauss_seidel',
                 'gauss_seidel_ne', 'gauss_seidel_nr', 'sor', 'schwarz', 'block_gauss_seidel', 'cg', 'pinv']


def rho_on_converted_copy(case, ml):
    """the input class of the known finding coarse-relaxation-rho-every-solve, decided from the input alone: a relaxation-type
    coarse solver that scales by a spectral radius of a CONVERTED COPY of the coarsest operator -- measured on BSR 1x1 / 2x2
    coarsest levels of smoothed-aggregation and root-node hierarchies: of the eleven relaxation names only 'jacobi_ne' with
    rho (setup_jacobi_ne estimates on lvl.Acsr of the throw-away level made in every coarse solve; jacobi / block_jacobi /
    richardson / chebyshev cache on the level matrix itself, gauss_seidel_ne / _nr use no radius) -- AND a coarsest operator that
    is not stored as CSR (for CSR the "copy" is the operator itself and the cache hits)"""
    co = case['kw'].get('coarse_solver')
    return (name_of(co) == 'jacobi_ne' and not (isinstance(co, tuple) and co[1].get('withrho') is False)
            and ml.levels[-1].A.format != 'csr')


def repeat_protocol(case, warm, call, extras, fmt, bs, sort_first=False, one_seed=None):
    """two solvers from fresh copies; both perform the same first solve (same RNG state: whatever a solver sets up lazily in its
    first solve is the same on both); then `call` on one of them, other calls, `call` again; and `call` once on the twin --
    each time with a different state of the NumPy global RNG"""
    used = build(case, fmt, bs)
    twin = build(case, fmt, bs)
    if used.ml is None or twin.ml is None:
        return None
    if sort_first:
        presort(used.ml)
        presort(twin.ml)
    ops0 = operator_snapshots(used.ml)
    s = call['seed']
    w1 = do_call(used.ml, warm)
    w2 = do_call(twin.ml, warm)
    r2 = do_call(used.ml, call, one_seed if one_seed is not None else s)
    outs = [do_call(used.ml, c, one_seed) for c in extras]
    r3 = do_call(used.ml, call, one_seed if one_seed is not None else (s + 1) % 2 ** 31)
    rt = do_call(twin.ml, call, one_seed if one_seed is not None else (s + 2) % 2 ** 31)
    ops1 = operator_snapshots(used.ml)
    changed = [k for k, v in ops0.items() if k in ops1 and ops1[k][1] != v[1]]
    return {'used': used, 'w': (w1, w2), 'r': (r2, r3, rt), 'outs': outs, 'changed_content': changed}


def eval_repeat_case(ctx, case, warm, call, extras, fmt, bs):
    ctor = case['ctor']
    summ = case_summary(case, fmt, bs)
    pr = repeat_protocol(case, warm, call, extras, fmt, bs)
    if pr is None:
        ctx.feat('repeat_build_raises')
        return
    ml = pr['used'].ml
    nlev = len(ml.levels)
    Ac = ml.levels[-1].A
    cfmt = Ac.format + ('%dx%d' % Ac.blocksize if Ac.format == 'bsr' else '')
    cs = str(name_of(case['kw'].get('coarse_solver', 'pinv')))
    ctx.case(key=_key('repeat', ctor, fmt, cs, cfmt, nlev >= 2, int(Ac.shape[0]) > 15, call.get('cycle'), call.get('accel'), len(extras)),
             nontrivial=nlev >= 2, sample={**summ, 'levels': nlev, 'coarsest': cfmt + ' n=%d' % Ac.shape[0]} if ctx.evaluations % 41 == 0 else None)
    ctx.feat('repeat_ctor:' + ctor)
    ctx.feat('repeat_coarse:' + cs)
    ctx.feat('repeat_coarsest:' + cfmt + (':n>15' if Ac.shape[0] > 15 else ':n<=15'))
    ctx.feat('repeat_outcome:' + pr['r'][0][0])

    def payload(what):
        return replay_payload('repeat', case, fmt=fmt, bs=bs, warm=warm, call=call, extras=extras, what=what)

    if pr['changed_content']:
        ctx.violation(f'{ctor}: solving changed level operator(s) {sorted(pr["changed_content"])[:4]} (level, field); smoothers '
                      f'{sorted(smoother_names(case))}, coarse solver {cs}', payload('operator'))
    w1, w2 = pr['w']
    if w1 != w2:
        ctx.violation(f'{ctor} ({fmt}): the first solve {call_text(warm)} of two solvers built from fresh copies with the same seed, '
                      f'same RNG state, differs: {describe_diff(w1, w2)}; smoothers {sorted(smoother_names(case))}, coarse solver {cs}',
                      payload('repeat'))
        return
    if w1[0] == 'exc':
        ctx.feat('repeat_first_solve_raises')
        return
    r2, r3, rt = pr['r']
    if r2 == r3 and r2 == rt:
        return
    which = (f'repeated on the same object (after {[call_text(c) for c in extras]}): {describe_diff(r2, r3)}' if r2 != r3
             else f'on a twin solver with the same first solve: {describe_diff(r2, rt)}')
    # classification: get_diagonal's in-place sort reached an operator only in a later call?  (decided as in eval_reuse_case)
    fk = None
    p2 = repeat_protocol(case, warm, call, extras, fmt, bs, sort_first=True)
    if p2 is not None and len(set(p2['r'])) == 1 and not p2['changed_content']:
        fk = K_SORT
    note = ''
    if fk is None:
        p3 = repeat_protocol(case, warm, call, extras, fmt, bs, sort_first=True, one_seed=call['seed'])
        if p3 is not None and len(set(p3['r'])) == 1:
            if rho_on_converted_copy(case, ml) and not p3['changed_content']:
                fk = K_RHO_EVERY       # exactly the listed input class, and the RNG state of each solve explains the difference
            note = ' [bit-identical when the NumPy global RNG is put into the same state before every call: the solver still draws random numbers in its second and later solves]'
    ctx.violation(f'{ctor} ({fmt}): after a first solve {call_text(warm)} the call {call_text(call)} (NumPy global RNG in another state '
                  f'each time) returns different bits {which}; smoothers {sorted(smoother_names(case))}, coarse solver '
                  f'{case["kw"].get("coarse_solver")!r}, {nlev} levels, coarsest operator {cfmt} n={Ac.shape[0]}' + note,
                  payload('repeat'), fkey=fk)


def rho_every_solve_corpus(ctx):
    """fixed corpus, every run: the listed instance of coarse-relaxation-rho-every-solve (and its root-node twin): three identical
    solves on one object with the NumPy global RNG in three different states"""
    import pyamg
    D = np.ascontiguousarray(pyamg.gallery.poisson((14, 14), format='csr').toarray() / 3.0)
    n = D.shape[0]
    b = (np.arange(n) % 7) / 3.0
    for ctor in ('sa', 'rn'):
        case = {'ctor': ctor, 'A': D, 'dtype': None, 'bs': 1, 'kw': {'max_levels': 2, 'max_coarse': 40, 'coarse_solver': 'jacobi_ne'},
                'seed': 5, 'tags': {'fam': 'p2', 'complex': False}}
        call = {'kind': 'solve', 'seed': 2, 'b': b, 'tol': 1e-30, 'maxiter': 2}
        ctx.feat('rho_every_solve_corpus')
        eval_repeat_case(ctx, case, dict(call, seed=1), call, [], 'csr', 1)


def repeat_core(ctx, rng, count):
    """fixed part: every relaxation-type / polynomial coarse solver x {smoothed aggregation, rootnode, one of ruge_stuben / air /
    pairwise} on a scalar problem whose coarsest level is larger than the Krylov space of the spectral-radius estimate (so an
    estimate really depends on its start vector), 1 and 2 candidates; then `count` random cases"""
    Dsym = np.ascontiguousarray(stencil2d(12, 10, eps=0.5) * (1.0 / 3.0))
    Dnon = np.ascontiguousarray(stencil2d(12, 10, eps=0.5, conv=2.0) * 0.7)
    n = Dsym.shape[0]
    t = 0
    for j, cs in enumerate(REPEAT_COARSE):
        for ctor in ('sa', 'rn', ('rs', 'air', 'pw')[j % 3]):
            if out_of_time(ctx, 34, 450):
                ctx.feat('repeat_budget_cut')
                return
            t += 1
            non = ctor == 'air' or (ctor in ('sa', 'rn') and t % 5 == 0)
            D, fam = (Dnon, 'upwind') if non else (Dsym, 'aniso')
            kw = {'coarse_solver': copy.deepcopy(cs), 'max_levels': 2, 'max_coarse': 8}
            if t % 4 == 3:
                kw['max_levels'] = 3
            if ctor in ('sa', 'rn'):
                sym = 'nonsymmetric' if non else 'hermitian'
                kw.update({'symmetry': sym, 'strength': ('symmetric', {'theta': 0.0}),
                           'smooth': fit_symmetry(('energy', {'maxiter': 2}) if ctor == 'rn' else 'jacobi', sym, fam)})
                if t % 4 == 2:
                    Bk = np.ones((n, 2))
                    Bk[:, 1] = np.arange(n) / (n - 1.0) + 0.01
                    kw['B'] = Bk
            elif ctor == 'air':
                kw['strength'] = ('classical', {'theta': 0.31, 'norm': 'min'})
            kw['presmoother'] = kw['postsmoother'] = pick(rng, ['gauss_seidel', 'jacobi', ('gauss_seidel', {'sweep': 'symmetric'}), 'chebyshev'])
            case = {'ctor': ctor, 'A': D, 'dtype': None, 'bs': 1, 'kw': kw, 'seed': 9090 + t, 'tags': {'fam': fam, 'complex': False}}
            b1 = rng.integers(-4, 5, size=n) / 3.0 + 0.1
            b2 = rng.integers(-4, 5, size=n) / 3.0 + 0.2
            warm = {'kind': 'solve', 'seed': 21 + t, 'b': b1, 'cycle': 'V', 'tol': 1e-30, 'maxiter': 1}
            call = {'kind': 'solve', 'seed': int(rng.integers(2 ** 30)), 'b': b2, 'cycle': str(pick(rng, ['V', 'V', 'W', 'F'])), 'tol': 1e-30,
                    'maxiter': 2}
            if t % 3 == 0:
                call['x0'] = rng.integers(-3, 4, size=n) / 5.0
            if t % 7 == 0:
                call['accel'] = str(pick(rng, ['cg', 'gmres', 'bicgstab']))
            extras = [gen_call(rng, n, False, 2) for _ in range(t % 3)]
            fmt = 'bsr' if (ctor in ('sa', 'rn') and t % 6 == 1) else ('dense' if t % 6 == 4 else 'csr')
            ctx.feat('repeat_core')
            eval_repeat_case(ctx, case, warm, call, extras, fmt, 1)
    for _ in range(count):
        if out_of_time(ctx, 36, 420):
            ctx.feat('repeat_budget_cut')
            return
        case = gen_case(rng, ctx.quick, ctor=str(pick(rng, ['sa', 'sa', 'rn', 'rs', 'air', 'pw'])), reuse=True)
        case['kw']['coarse_solver'] = copy.deepcopy(pick(rng, REPEAT_COARSE))
        case['kw']['max_coarse'] = int(pick(rng, [5, 10, 20, 30]))
        case['kw']['max_levels'] = int(pick(rng, [2, 2, 3, 10]))
        n = case['A'].shape[0]
        cplx = case['tags']['complex']
        fmt, bs = 'csr', 1
        r = rng.random()
        if r < 0.2 and case['ctor'] != 'rs':
            fmt, bs = 'bsr', case['bs']
        elif r < 0.3:
            fmt = str(pick(rng, ['dense', 'csc', 'coo']))
        b1 = rng.integers(-4, 5, size=n).astype(complex if cplx else float) / 3.0 + 0.1
        warm = {'kind': 'solve', 'seed': int(rng.integers(2 ** 30)), 'b': b1, 'cycle': 'V', 'tol': 1e-30, 'maxiter': 1}
        call = gen_call(rng, n, cplx, 2)
        extras = [gen_call(rng, n, cplx, 2) for _ in range(int(pick(rng, [0, 0, 1, 2])))]
        ctx.feat('repeat_stream')
        eval_repeat_case(ctx, case, warm, call, extras, fmt, bs)


# ------------------------------------------------------------------------------------------------
# part A: the cache state machine and the call structure against the real objects
# ------------------------------------------------------------------------------------------------

@contextlib.contextmanager
def counting_factorisations():
    """count entries into the four factorisation routines coarse_grid_solver uses"""
    import scipy.linalg
    import scipy.sparse.linalg
    import pyamg.multilevel as mlmod
    rec = {'n': 0, 'args': []}
    saved = [(mlmod, 'pinv', mlmod.pinv), (scipy.linalg, 'lu_factor', scipy.linalg.lu_factor),
             (scipy.linalg, 'cho_factor', scipy.linalg.cho_factor), (scipy.sparse.linalg, 'splu', scipy.sparse.linalg.splu)]

    def wrap(f):
        def g(M, *a, **k):
            rec['n'] += 1
            rec['args'].append(M.toarray() if sp.issparse(M) else np.array(M))
            return f(M, *a, **k)
        return g
    for mod, nm, f in saved:
        setattr(mod, nm, wrap(f))
    try:
        yield rec
    finally:
        for mod, nm, f in saved:
            setattr(mod, nm, f)


CACHE_NAMES = ['pinv', 'pinv2', 'lu', 'cholesky', 'splu', 'cg', 'gmres', 'gauss_seidel', 'sor', 'None', '<callable>']
ALL_NAMES = (['pinv', 'pinv2', 'lu', 'cholesky', 'splu', 'bicg', 'bicgstab', 'cg', 'cgs', 'gmres', 'qmr', 'minres'] + list(RELAX_COARSE)
             + ['None', '<callable>', 'LU', 'Pinv', 'spLU', 'superlu', 'cg ', 'direct', 'gauss-seidel', 'amg', 'none', '', 'strength_based_schwarz',
                'cgnr', 'cgne', 'fgmres', 'cr', 'steepest_descent', 'minimal_residual', 'pinv3', 'cholesky2', 'ilu'])


def real_solver_arg(name):
    if name == 'None':
        return None
    if name == '<callable>':
        return _dense_solve
    return name


class LeanQueue:
    """all protocol lines of a run go through ONE driver process (its start-up dominates the cost)"""

    def __init__(self):
        self.items = []

    def add(self, line, handler):
        self.items.append((line, handler))

    def flush(self, ctx):
        if not self.items:
            return
        outs = ctx.lean([it[0] for it in self.items])
        for (line, handler), o in zip(self.items, outs):
            handler(line, o)
        self.items = []


# ------------------------------------------------------------------------------------------------
# extension E27: the input conversions of the sparse-algebra model against scipy's tocsr()
# ------------------------------------------------------------------------------------------------

def _fr(x):
    a, b = x.as_integer_ratio()          # lowest terms, positive denominator: the form the driver prints
    return str(a) if b == 1 else f'{a}/{b}'


def sp_vals(v, cplx=None):
    v = np.asarray(v).reshape(-1)
    if v.size == 0:
        return '-'
    if np.iscomplexobj(v) if cplx is None else cplx:
        v = v.astype(complex)
        return ','.join(_fr(a) + '|' + _fr(b) for a, b in zip(v.real.tolist(), v.imag.tolist()))
    return ','.join(_fr(a) for a in v.astype(float).tolist())


def sp_ints(v):
    v = np.asarray(v).reshape(-1)
    return ','.join(map(str, v.tolist())) if v.size else '-'


def sp_token(M):
    """raw arrays of a scipy.sparse object / ndarray as a matrix token of `ext_convert`"""
    if isinstance(M, np.ndarray):
        return f'dense:{M.shape[0]}:{M.shape[1]}:' + sp_vals(M)
    r, c = M.shape
    if M.format == 'coo':
        return f'coo:{r}:{c}:{sp_ints(M.row)}:{sp_ints(M.col)}:{sp_vals(M.data)}'
    nnz = int(M.indptr[-1])
    if M.format == 'bsr':
        br, bc = M.blocksize
        return f'bsr:{r}:{c}:{br}:{bc}:{sp_ints(M.indptr)}:{sp_ints(M.indices[:nnz])}:{sp_vals(M.data[:nnz])}'
    return f'{M.format}:{r}:{c}:{sp_ints(M.indptr)}:{sp_ints(M.indices[:nnz])}:{sp_vals(M.data[:nnz])}'


def part_convert(ctx, rng, count, q):
    for t in range(count):
        ctor = str(pick(rng, ['rs', 'sa', 'sa', 'air']))
        D, tags = gen_matrix(rng, ctor, True)
        n = D.shape[0]
        if n > 24:
            k = int(rng.integers(2, 25))
            D = D[:k, :k]
            n = k
        if rng.random() < 0.3 and n >= 2:
            D = D[:, :n - 1]                      # conversions are not restricted to square matrices
        seed = int(rng.integers(1, 2 ** 31))
        inputs = [('csr_unsorted', 1), ('coo', 1), ('csc', 1), ('dense', 1)]
        inputs += [('bsr', b) for b in (1, 2, 3) if D.shape[0] % b == 0 and D.shape[1] % b == 0]
        for fmt, bs in inputs:
            if fmt == 'bsr' and bs > 1:
                X = sp.bsr_array(sp.csr_array(D), blocksize=(bs, bs))
            else:
                X = make_input(D, fmt, bs, shuffle_seed=seed)
            C = sp.csr_array(X) if isinstance(X, np.ndarray) else X.tocsr()
            nnz = int(C.indptr[-1])
            impl = (f'{C.shape[0]}:{C.shape[1]}:{sp_ints(C.indptr)}:{sp_ints(C.indices[:nnz])}:{sp_vals(C.data[:nnz], cplx=True)}',
                    sp_vals(C.toarray(), cplx=True), sp_vals(np.asarray(D), cplx=True))
            q.add('ext_convert ' + sp_token(X),
                  lambda line, o, fmt=fmt, bs=bs, impl=impl, shape=D.shape: convert_one(ctx, line, o, fmt, bs, impl, shape))


def convert_one(ctx, line, o, fmt, bs, impl, shape):
    name = fmt + (str(bs) if fmt == 'bsr' else '')
    ctx.case(key=_key('convert', name, shape), nontrivial=shape[0] >= 2)
    ctx.feat('convert:' + name)
    parts = o.split(';')
    if len(parts) != 2 or parts[1] != impl[1]:
        ctx.corr('ext_convert', {'line': line[:600], 'format': name}, o[:400], impl[1][:400])
        # the property behind it: scipy's conversion keeps the represented matrix
        if impl[1] != impl[2]:
            ctx.violation(f'scipy conversion of a {name} input to CSR changed the represented matrix', {'convert': line[:2000]})
        return
    ctx.feat('convert:layout-same' if parts[0] == impl[0] else 'convert:layout-differs:' + name)


# ------------------------------------------------------------------------------------------------
# extension E41: the canonical stored form (`ext_c15_canon`) against scipy's sum_duplicates / eliminate_zeros / tocsr and
# one array-level constructor step (pairwise aggregation, one matching) against pyamg
# ------------------------------------------------------------------------------------------------

def csr_text(C, cplx=True):
    nnz = int(C.indptr[-1])
    return f'{C.shape[0]}:{C.shape[1]}:{sp_ints(C.indptr)}:{sp_ints(C.indices[:nnz])}:{sp_vals(C.data[:nnz], cplx=cplx)}'


def messy_arrays(rng, D, zmask, dup=True, shuffle=True):
    """compressed arrays over the rows of D: entries split into two stored parts (exact: small integers), cancelling pairs
    or stored zeros at the positions of zmask, shuffled inside every row"""
    indptr, indices, data = [0], [], []
    for i in range(D.shape[0]):
        ent = []
        for j in range(D.shape[1]):
            v = D[i, j]
            if v != 0:
                if dup and rng.random() < 0.4:
                    a = float(rng.integers(-3, 4))
                    ent += [(j, a), (j, v - a)]
                else:
                    ent.append((j, v))
            elif zmask is not None and zmask[i, j]:
                if dup and rng.random() < 0.5:
                    a = float(rng.integers(1, 4))
                    ent += [(j, a), (j, -a)]
                else:
                    ent.append((j, 0.0 * v))
        if shuffle and ent:
            ent = [ent[k] for k in rng.permutation(len(ent))]
        indices += [e[0] for e in ent]
        data += [e[1] for e in ent]
        indptr.append(len(indices))
    return (np.asarray(data, dtype=D.dtype), np.asarray(indices, dtype=np.int32), np.asarray(indptr, dtype=np.int32))


def canon_inputs(rng, D, zmask):
    """(name, group, object): group 'plain' = the stored pattern is the non-zero pattern of D, 'z' = non-zeros and zmask,
    None = anything (unsorted, duplicates); every object represents D"""
    out = [('dense', 'plain', D.copy())]
    out.append(('csr', 'plain', gen.int32csr(sp.csr_array(D))))
    out.append(('csc', 'plain', sp.csc_array(D)))
    # COO: split entries, shuffled, no stored zero and no cancelling pair -> pattern of the non-zeros
    dat, idx, ptr = messy_arrays(rng, D, None, dup=True)
    keep = dat != 0
    row = np.repeat(np.arange(D.shape[0]), np.diff(ptr))
    p = rng.permutation(int(keep.sum()))
    out.append(('coo', 'plain', sp.coo_array((dat[keep][p], (row[keep][p].astype(np.int32), idx[keep][p])), shape=D.shape)))
    if zmask is not None and zmask.any():
        out.append(('csr_zeros', 'z', sp.csr_array(messy_arrays(rng, D, zmask, dup=False, shuffle=False), shape=D.shape)))
        dat, idx, ptr = messy_arrays(rng, D, zmask, dup=True)
        row = np.repeat(np.arange(D.shape[0]), np.diff(ptr)).astype(np.int32)
        p = rng.permutation(len(dat))
        out.append(('coo_zeros', 'z', sp.coo_array((dat[p], (row[p], idx[p])), shape=D.shape)))
        out.append(('csc_zeros', 'z', sp.csc_array(messy_arrays(rng, D.T.copy(), zmask.T, dup=False, shuffle=True),
                                                   shape=D.shape)))
    out.append(('csr_messy', None, sp.csr_array(messy_arrays(rng, D, zmask), shape=D.shape)))
    out.append(('csc_messy', None, sp.csc_array(messy_arrays(rng, D.T.copy(), None if zmask is None else zmask.T), shape=D.shape)))
    for b in (1, 2, 3):
        if D.shape[0] % b == 0 and D.shape[1] % b == 0:
            out.append((f'bsr{b}', None, sp.bsr_array(sp.csr_array(D), blocksize=(b, b))))
    return out


def part_canon(ctx, rng, count, q):
    for t in range(count):
        n = int(rng.integers(1, 8))
        m = n if rng.random() < 0.6 else int(rng.integers(1, 8))
        D = (rng.integers(-4, 5, size=(n, m)) * (rng.random((n, m)) < 0.5)).astype(float)
        if rng.random() < 0.25:
            D = D + 1j * (rng.integers(-2, 3, size=(n, m)) * (rng.random((n, m)) < 0.3))
        zmask = ((rng.random((n, m)) < 0.25) & (D == 0)) if rng.random() < 0.7 else None
        group = {}
        for name, grp, X in canon_inputs(rng, D, zmask):
            C0 = sp.csr_array(X) if isinstance(X, np.ndarray) else X.tocsr().copy()
            conv = csr_text(C0)
            fresh = sp.csr_array((C0.data.copy(), C0.indices.copy(), C0.indptr.copy()), shape=C0.shape)
            canonical = '1' if fresh.has_canonical_format else '0'
            nozero = '1' if not (C0.data[:int(C0.indptr[-1])] == 0).any() else '0'
            C1 = sp.csr_array((C0.data.copy(), C0.indices.copy(), C0.indptr.copy()), shape=C0.shape)
            C1.sum_duplicates()
            sd = csr_text(C1)
            C1.eliminate_zeros()
            nz = csr_text(C1)
            same = bool((C1.toarray() == D).all())
            group.setdefault('nz', []).append((name, nz))
            if grp is not None:
                group.setdefault(grp, []).append((name, conv))
            impl = ';'.join([nz, sd, canonical, nozero, conv])
            rep = None if same else {'kind': 'canon', 'summary': f'{name} {D.shape}',
                                     'packed': pack({'format': name, 'D': D, 'csr': (C0.data, C0.indices, C0.indptr, tuple(C0.shape))})}
            q.add('ext_c15_canon nz ' + sp_token(X),
                  lambda line, o, name=name, impl=impl, rep=rep, shape=D.shape: canon_one(ctx, line, o, name, impl, rep, shape))
        # what the uniqueness theorems predict about the real conversions: one array triple per group
        for grp, members in group.items():
            texts = {tx for _, tx in members}
            ctx.feat(f'canon:group:{grp}')
            if len(texts) > 1:
                ctx.corr('ext_c15_canon arrays-unique', {'group': grp, 'D': pack(D), 'members': [nm for nm, _ in members]},
                         'identical arrays', sorted(texts)[:2])
                # the property: the conversions keep the represented matrix (judged in canon_one), nothing more is claimed


def canon_one(ctx, line, o, name, impl, rep, shape):
    ctx.case(key=_key('canon', name, shape), nontrivial=shape[0] >= 2)
    ctx.feat('canon:' + name)
    if o != impl:
        ctx.corr('ext_c15_canon nz', {'line': line[:600], 'format': name}, o[:600], impl[:600])
        if rep is not None:
            ctx.violation(f'scipy sum_duplicates / eliminate_zeros after the conversion of a {name} input changed the represented '
                          f'matrix', rep)


def canon_pw_formats_agree(ctx, D, theta, norm):
    """the property behind the pairwise step: the same P for the formats whose conversion is canonical"""
    ref = real_pairwise_step(gen.int32csr(sp.csr_array(D)), theta, norm)
    for fmt in ('csc', 'coo', 'dense'):
        X = make_input(D, fmt, shuffle_seed=7)
        got = real_pairwise_step(gen.int32csr(sp.csr_array(X)), theta, norm)
        if got != ref:
            ctx.violation(f'pairwise aggregation step: P from {fmt} input differs from P from canonical CSR input',
                          {'kind': 'canon_pw', 'summary': f'{fmt} n={D.shape[0]} theta={theta} norm={norm}',
                           'packed': pack({'D': D, 'theta': theta, 'norm': norm, 'format': fmt})})
            return False
    return True


def real_pairwise_step(A, theta, norm):
    """what pairwise._extend_hierarchy computes for the level matrix A (one matching): the text of P, 'none' when it stalls"""
    from pyamg.aggregation.aggregate import pairwise_aggregation
    with warnings.catch_warnings():
        warnings.simplefilter('ignore')
        P = pairwise_aggregation(A, matchings=1, theta=theta, norm=norm, compute_P=True)[0]
    if P.shape[1] >= P.shape[0]:
        return 'none'
    return csr_text(sp.csr_array(P), cplx=False)


def part_canon_pw(ctx, rng, count, q):
    tiny = _fr(float(np.finfo(np.float64).tiny))
    for t in range(count):
        n = int(rng.integers(1, 10))
        off = -(rng.integers(0, 5, size=(n, n)) * (rng.random((n, n)) < 0.45)).astype(float)
        if rng.random() < 0.3:
            off = off + (rng.integers(0, 3, size=(n, n)) * (rng.random((n, n)) < 0.15))      # a few positive couplings
        if rng.random() < 0.6:
            off = np.minimum(off, off.T)
        np.fill_diagonal(off, 0.0)
        dg = rng.integers(1, 9, size=n).astype(float)
        if rng.random() < 0.2:
            dg[int(rng.integers(0, n))] = 0.0                                                # a missing diagonal entry
        D = off + np.diag(dg)
        theta = float(pick(rng, [0.0, 0.25, 0.25, 0.5, 1.0]))
        norm = str(pick(rng, ['min', 'min', 'abs']))
        zmask = (rng.random((n, n)) < 0.2) & (D == 0)
        A_can = gen.int32csr(sp.csr_array(D))
        A_messy = sp.csr_array(messy_arrays(rng, D, zmask), shape=D.shape)
        for label, A in (('canonical', A_can), ('messy', A_messy)):
            Ac = A.copy()
            Ac.sum_duplicates()
            Ac.eliminate_zeros()
            impl = real_pairwise_step(A.copy(), theta, norm) + ';' + real_pairwise_step(Ac, theta, norm)
            line = f'ext_c15_canon pw {norm} {_fr(theta)} {tiny} ' + csr_text(A, cplx=False)
            q.add(line, lambda line, o, label=label, impl=impl, D=D, theta=theta, norm=norm:
                  canon_pw_one(ctx, line, o, label, impl, D, theta, norm))


def canon_pw_one(ctx, line, o, label, impl, D, theta, norm):
    n = D.shape[0]
    ctx.case(key=_key('canon_pw', label, norm, theta, n), nontrivial=n >= 2)
    ctx.feat('canon_pw:' + label)
    ctx.feat('canon_pw:stall' if impl.endswith(';none') else 'canon_pw:coarsened')
    if label == 'messy' and impl.split(';')[0] != impl.split(';')[1]:
        ctx.feat('canon_pw:stored-form-changes-P')       # the array-level path is not a function of the dense meaning
    if o != impl:
        ctx.corr('ext_c15_canon pw', {'line': line[:900], 'stored': label}, o[:400], impl[:400])
        canon_pw_formats_agree(ctx, D, theta, norm)


# ------------------------------------------------------------------------------------------------
# extension E54: LIL / DIA -> CSR (`c04y_convert`, Model/ExtC04YConv.lean) against scipy's tocsr(); the pairwise
# constructor path with the default two (and three) matchings (`c04y_pw`, Model/ExtC04YPairwise.lean) against pyamg
# ------------------------------------------------------------------------------------------------

def lil_token(X):
    r, c = X.shape
    idx = '/'.join(sp_ints(list(X.rows[i])) for i in range(r))
    dat = '/'.join(sp_vals(list(X.data[i]), cplx=True) for i in range(r))
    return f'lil:{r}:{c}:{idx}:{dat}'


def dia_token(X):
    r, c = X.shape
    return f'dia:{r}:{c}:{X.data.shape[1]}:{sp_ints(X.offsets)}:{sp_vals(X.data, cplx=True)}'


def dia_by_hand(rng, D, L, extra=0, garbage=True):
    """a DIA object for D with data.shape[1] = L (D must vanish in the columns >= L), the offsets in random order, `extra`
    all-zero diagonals, and random non-zero numbers in the padding (positions whose row or column lies outside the matrix)"""
    n, m = D.shape
    offs = sorted({int(j) - int(i) for i, j in zip(*np.nonzero(D))})
    spare = [o for o in range(-(n - 1), max(m, L)) if o not in offs]
    for _ in range(extra):
        if spare:
            offs.append(int(spare.pop(int(rng.integers(0, len(spare))))))
    offs = [offs[k] for k in rng.permutation(len(offs))]
    data = np.zeros((len(offs), L), dtype=D.dtype)
    for k, o in enumerate(offs):
        for j in range(L):
            i = j - o
            if 0 <= i < n and j < m:
                data[k, j] = D[i, j]
            elif garbage:
                data[k, j] = float(rng.integers(1, 9))
    return sp.dia_array((data, np.asarray(offs, dtype=np.int32)), shape=D.shape)


def convx_inputs(rng, D):
    """(name, group, object): every object represents D; group 'dia' = the uniqueness theorem predicts identical CSR arrays"""
    n, m = D.shape
    out = [('dia', 'dia', sp.dia_array(D))]
    used = int(np.max(np.nonzero(D)[1])) + 1 if D.any() else 1
    out.append(('dia_padded', 'dia', dia_by_hand(rng, D, m + int(rng.integers(0, 3)), extra=int(rng.integers(0, 3)))))
    out.append(('dia_short', 'dia', dia_by_hand(rng, D, max(used, 1), extra=int(rng.integers(0, 2)))))
    X = sp.lil_array(D)
    out.append(('lil', None, X))
    Z = sp.lil_array(D)                                   # explicit zeros, index lists kept sorted
    for i in range(n):
        for j in range(m):
            if D[i, j] == 0 and rng.random() < 0.25:
                k = int(np.searchsorted(Z.rows[i], j))
                Z.rows[i].insert(k, j)
                Z.data[i].insert(k, 0.0 * D[0, 0])
    out.append(('lil_zeros', None, Z))
    U = sp.lil_array(D)                                   # SciPy's invariant broken by hand: a row listed backwards
    for i in range(n):
        if len(U.rows[i]) >= 2 and rng.random() < 0.6:
            U.rows[i] = U.rows[i][::-1]
            U.data[i] = U.data[i][::-1]
    out.append(('lil_unsorted', None, U))
    return out


def part_convert_x(ctx, rng, count, q):
    for t in range(count):
        n = int(rng.integers(1, 8))
        m = n if rng.random() < 0.6 else int(rng.integers(1, 8))
        if rng.random() < 0.5:
            D = (rng.integers(-4, 5, size=(n, m)) * (rng.random((n, m)) < 0.4)).astype(float)
        else:                                             # banded: what DIA is made for
            D = np.zeros((n, m))
            for o in rng.integers(-(n - 1), m, size=int(rng.integers(1, 4))):
                for i in range(n):
                    if 0 <= i + o < m and rng.random() < 0.8:
                        D[i, i + o] = float(rng.integers(-4, 5))
        if rng.random() < 0.25:
            D = D + 1j * (rng.integers(-2, 3, size=(n, m)) * (D != 0))
        group = []
        for name, grp, X in convx_inputs(rng, D):
            C0 = X.tocsr()
            conv = csr_text(C0)
            fresh = sp.csr_array((C0.data.copy(), C0.indices.copy(), C0.indptr.copy()), shape=C0.shape)
            canonical = '1' if fresh.has_canonical_format else '0'
            nozero = '1' if not (C0.data[:int(C0.indptr[-1])] == 0).any() else '0'
            impl = ';'.join([conv, sp_vals(C0.toarray(), cplx=True), canonical, nozero])
            same = bool((C0.toarray() == D).all())
            if grp == 'dia':
                group.append(conv)
            tok = dia_token(X) if X.format == 'dia' else lil_token(X)
            rep = None if same else {'kind': 'convert_x', 'summary': f'{name} {D.shape}', 'packed': pack({'format': name, 'D': D, 'token': tok})}
            q.add('c04y_convert ' + tok,
                  lambda line, o, name=name, impl=impl, rep=rep, shape=D.shape: convert_x_one(ctx, line, o, name, impl, rep, shape))
        # diaToCsr_unique on the real conversions: every DIA layout of one matrix reaches CSR as the same arrays
        ctx.feat('convert_x:group:dia')
        if len(set(group)) > 1:
            ctx.corr('c04y_convert dia-arrays-unique', {'D': pack(D)}, 'identical arrays', sorted(set(group))[:2])


def convert_x_one(ctx, line, o, name, impl, rep, shape):
    ctx.case(key=_key('convert_x', name, shape), nontrivial=shape[0] >= 2)
    ctx.feat('convert_x:' + name)
    if o != impl:
        ctx.corr('c04y_convert', {'line': line[:600], 'format': name}, o[:600], impl[:600])
        if rep is not None:
            ctx.violation(f'scipy conversion of a {name} input to CSR changed the represented matrix', rep)
        return
    fl = o.split(';')
    ctx.feat('convert_x:canonical' if fl[2] == '1' else 'convert_x:not-canonical:' + name)


def real_pairwise_step_m(A, theta, norm, m):
    """pairwise._extend_hierarchy for the level matrix A with `matchings = m`: the text of P, 'none' when it stalls"""
    from pyamg.aggregation.aggregate import pairwise_aggregation
    with warnings.catch_warnings():
        warnings.simplefilter('ignore')
        P = pairwise_aggregation(A, matchings=m, theta=theta, norm=norm, compute_P=True)[0]
    if P.shape[1] >= P.shape[0]:
        return 'none'
    return csr_text(sp.csr_array(P), cplx=False)


def pw_m_formats_agree(ctx, D, theta, norm, m):
    """the property behind it: the same P for the formats whose conversion is canonical"""
    ref = real_pairwise_step_m(gen.int32csr(sp.csr_array(D)), theta, norm, m)
    for fmt in ('csc', 'coo', 'dense', 'lil', 'dia'):
        X = make_input(D, fmt, shuffle_seed=7)
        got = real_pairwise_step_m(gen.int32csr(sp.csr_array(X)), theta, norm, m)
        if got != ref:
            ctx.violation(f'pairwise aggregation step (matchings={m}): P from {fmt} input differs from P from canonical CSR input',
                          {'kind': 'canon_pw_m', 'summary': f'{fmt} n={D.shape[0]} theta={theta} norm={norm} matchings={m}',
                           'packed': pack({'D': D, 'theta': theta, 'norm': norm, 'format': fmt, 'm': m})})
            return False
    return True


def part_pw_matchings(ctx, rng, count, q):
    tiny = _fr(float(np.finfo(np.float64).tiny))
    for t in range(count):
        n = int(rng.integers(1, 13))
        off = -(rng.integers(0, 5, size=(n, n)) * (rng.random((n, n)) < 0.4)).astype(float)
        if rng.random() < 0.3:
            off = off + (rng.integers(0, 3, size=(n, n)) * (rng.random((n, n)) < 0.15))
        if rng.random() < 0.6:
            off = np.minimum(off, off.T)
        np.fill_diagonal(off, 0.0)
        dg = rng.integers(1, 9, size=n).astype(float)
        if rng.random() < 0.15:
            dg[int(rng.integers(0, n))] = 0.0
        D = off + np.diag(dg)
        theta = float(pick(rng, [0.0, 0.25, 0.25, 0.5, 1.0]))
        norm = str(pick(rng, ['min', 'min', 'abs']))
        m = int(pick(rng, [2, 2, 2, 3, 1]))
        zmask = (rng.random((n, n)) < 0.2) & (D == 0)
        A_can = gen.int32csr(sp.csr_array(D))
        A_messy = sp.csr_array(messy_arrays(rng, D, zmask), shape=D.shape)
        for label, A in (('canonical', A_can), ('messy', A_messy)):
            Ac = A.copy()
            Ac.sum_duplicates()
            Ac.eliminate_zeros()
            impl = real_pairwise_step_m(A.copy(), theta, norm, m) + ';' + real_pairwise_step_m(Ac, theta, norm, m)
            line = f'c04y_pw {m} {norm} {_fr(theta)} {tiny} ' + csr_text(A, cplx=False)
            q.add(line, lambda line, o, label=label, impl=impl, D=D, theta=theta, norm=norm, m=m:
                  pw_m_one(ctx, line, o, label, impl, D, theta, norm, m))


def pw_m_one(ctx, line, o, label, impl, D, theta, norm, m):
    n = D.shape[0]
    ctx.case(key=_key('pw_m', label, norm, theta, n, m), nontrivial=n >= 2)
    ctx.feat(f'pw_m:{m}:' + label)
    ctx.feat(f'pw_m:{m}:' + ('stall' if impl.endswith(';none') else 'coarsened'))
    if label == 'messy' and impl.split(';')[0] != impl.split(';')[1]:
        ctx.feat('pw_m:stored-form-changes-P')
    if o != impl:
        ctx.corr('c04y_pw', {'line': line[:900], 'stored': label, 'matchings': m}, o[:400], impl[:400])
        pw_m_formats_agree(ctx, D, theta, norm, m)


def part_kind(ctx, q):
    names = [nm for nm in ALL_NAMES if nm and ' ' not in nm]
    A = gen.int32csr(sp.csr_array(np.array([[2.0, -1.0], [-1.0, 2.0]])))
    for nm in names:
        q.add(f'c15_kind {nm}', lambda line, o, nm=nm: kind_one(ctx, nm, o, A))


def kind_one(ctx, nm, o, A):
    from pyamg.multilevel import coarse_grid_solver
    if True:
        ctx.case(key=_key('kind', nm), nontrivial=True)
        try:
            obj = coarse_grid_solver(real_solver_arg(nm))
            obj(A, np.array([1.0, 0.0]))
            impl = 'direct' if any(hasattr(obj, a) for a in ('P', 'LU', 'L')) else 'stateless'
        except ValueError as e:
            impl = 'error' if 'unknown solver' in str(e) else 'ValueError:' + str(e)[:60]
        except Exception as e:  # noqa: BLE001
            impl = type(e).__name__
        if o != impl:
            ctx.corr('c15_kind', {'name': nm}, o, impl)


def cache_matrices(rng, n, count):
    """matrix ids 1..count: distinct SPD matrices of one size; id 0: a matrix without stored entries"""
    mats = {0: gen.int32csr(sp.csr_array((n, n), dtype=float))}
    for i in range(1, count + 1):
        W = np.triu((rng.random((n, n)) < 0.6) * rng.integers(1, 4, size=(n, n)), 1).astype(float)
        W = W + W.T
        M = (np.diag(W.sum(1) + 1.0 + i) - W) / 3.0
        mats[i] = gen.int32csr(sp.csr_array(M))
    return mats


def part_cache(ctx, rng, count, q):
    from pyamg.multilevel import coarse_grid_solver
    items = []
    for t in range(count):
        name = str(pick(rng, CACHE_NAMES))
        n = int(rng.integers(1, 7))
        nm = int(rng.integers(1, 4))
        mats = cache_matrices(rng, n, nm)
        L = int(pick(rng, [1, 2, 2, 3, 4, 6, 9]))
        mode = rng.random()
        if mode < 0.45:
            m0 = int(rng.integers(1, nm + 1))
            hist = [m0] * L                                      # the situation of the reuse theorems
        elif mode < 0.6:
            m0 = int(rng.integers(1, nm + 1))
            hist = [0 if rng.random() < 0.4 else m0 for _ in range(L)]
        else:
            hist = [int(rng.integers(0, nm + 1)) for _ in range(L)]
        bs = [rng.integers(-4, 5, size=n).astype(float) / 3.0 for _ in hist]
        if rng.random() < 0.3:
            bs = [b.reshape(-1, 1) for b in bs]
        # real object
        obj = coarse_grid_solver(real_solver_arg(name))
        impl_steps = []
        total = 0
        state = None
        with counting_factorisations() as rec:
            for i, (m, b) in enumerate(zip(hist, bs)):
                before = rec['n']
                try:
                    x = np.asarray(obj(mats[m], b.copy()))
                except Exception as e:  # noqa: BLE001
                    impl_steps.append(f'EXC:{type(e).__name__}')
                    break
                fact_now = rec['n'] - before
                if fact_now:
                    total += fact_now
                    Mf = rec['args'][-1]
                    ids = [k for k, M in mats.items() if k and M.shape == Mf.shape and np.array_equal(M.toarray(), Mf)]
                    state = ids[0] if ids else 'unknown-matrix'
                cached = any(hasattr(obj, a) for a in ('P', 'LU', 'L'))
                st_txt = str(state) if cached and state is not None else ('n' if not cached else '?')
                impl_steps.append((x, st_txt))
        items.append((name, hist, bs, mats, impl_steps, total))
    for it in items:
        q.add(f'c15_cache {it[0]} {enc_ints(it[1])}', lambda line, o, it=it: cache_one(ctx, it, line, o))


def cache_one(ctx, it, line, o):
    from pyamg.multilevel import coarse_grid_solver
    name, hist, bs, mats, impl_steps, total = it
    if True:
        ctx.case(key=_key('cache', name, tuple(hist)), nontrivial=len(hist) >= 2)
        ctx.feat('cache:' + name)
        steps, cnt = o.split(';')
        steps = steps.split(',')
        bad = None
        if int(cnt) != total:
            bad = f'{total} factorisations, model {cnt}'
        if len(steps) != len(impl_steps):
            bad = f'{len(impl_steps)} answered calls, model {len(steps)}'
        if not bad:
            for i, (ms, im) in enumerate(zip(steps, impl_steps)):
                if isinstance(im, str):
                    bad = f'call {i}: {im}'
                    break
                term, st = ms.split('/')
                x, st_txt = im
                if st != st_txt:
                    bad = f'call {i}: cached state {st_txt}, model {st}'
                    break
                b = bs[i]
                if term == 'Z':
                    exp = np.zeros(b.shape)
                else:
                    f = int(term[1:].split(':')[0])
                    exp = np.asarray(coarse_grid_solver(real_solver_arg(name))(mats[f], b.copy()))   # an object made for this call
                if exp.shape != x.shape or exp.tobytes() != x.tobytes():
                    bad = f'call {i}: the answer is not bit-identical to {term} (a new object on that matrix)'
                    break
        if bad:
            case = {'name': name, 'history': hist, 'n': int(mats[0].shape[0])}
            ctx.corr('c15_cache', case, o, bad)
            # the property itself on this history: same matrix throughout and yet the last answer depends on the history?
            nz = [m for m in hist if m != 0]
            if nz and all(m == nz[0] for m in nz):
                fresh_last = np.asarray(coarse_grid_solver(real_solver_arg(name))(mats[hist[-1]], bs[-1].copy()))
                last = impl_steps[-1]
                if isinstance(last, str) or fresh_last.tobytes() != np.asarray(last[0]).tobytes():
                    ctx.violation(f'coarse_grid_solver({name!r}): after the calls {hist[:-1]} (matrix ids; 0 = empty matrix) the answer '
                                  f'for matrix {hist[-1]} is not the answer of a new object ({bad})',
                                  {'kind': 'cache', 'summary': case, 'packed': pack({'name': name, 'hist': hist, 'bs': bs,
                                                                                    'mats': {k: v.toarray() for k, v in mats.items()}})})


def part_trace(ctx, rng, count, q):
    """number of coarse-solver calls / factorisations per solve call of a history on real hierarchies"""
    import pyamg
    items = []
    for t in range(count):
        name = str(pick(rng, ['pinv', 'lu', 'cholesky', 'splu', 'cg', 'gauss_seidel', 'None', '<callable>']))
        levels_wanted = int(pick(rng, [1, 2, 3, 3, 4, 5]))
        n = int(pick(rng, [12, 20, 33, 48]))
        A = gen.int32csr(pyamg.gallery.poisson((n,), format='csr') * (1.0 / 3.0))
        zero = rng.random() < 0.08
        if zero:
            A = gen.int32csr(sp.csr_array((n, n), dtype=float))
            levels_wanted = 1
        lazy = bool(rng.random() < 0.3)
        try:
            ml = pyamg.ruge_stuben_solver(A, max_levels=levels_wanted, max_coarse=1, coarse_solver=real_solver_arg(name),
                                          presmoother='strength_based_schwarz' if lazy else pick(rng, ['gauss_seidel', 'jacobi', None]),
                                          postsmoother='gauss_seidel')
        except Exception:  # noqa: BLE001
            continue
        L = len(ml.levels)
        lazy = lazy and L >= 2
        coarse_obj = ml.coarse_solver
        Ac = ml.levels[-1].A
        cnt = {'coarse': 0, 'passes': 0, 'foreign': 0}

        def coarse_wrap(M, b, cnt=cnt, coarse_obj=coarse_obj, Ac=Ac):
            cnt['coarse'] += 1
            if M is not Ac:
                cnt['foreign'] += 1
            return coarse_obj(M, b)
        ml.coarse_solver = coarse_wrap
        if L >= 2:
            pre0 = ml.levels[0].presmoother

            def pre_wrap(M, x, b, cnt=cnt, pre0=pre0):
                cnt['passes'] += 1
                return pre0(M, x, b)
            ml.levels[0].presmoother = pre_wrap
        calls, impl = [], []
        snapc = snapshot(Ac)
        with counting_factorisations() as rec:
            for _ in range(int(pick(rng, [1, 2, 3, 4]))):
                cyc = str(pick(rng, ['V', 'W', 'F', 'AMLI', 'v', 'w', 'X', 'Z']))
                cpl = int(pick(rng, [1, 1, 2, 3]))
                kw = {'cycle': cyc, 'cycles_per_level': cpl, 'maxiter': int(pick(rng, [1, 2, 3])), 'tol': 1e-30}
                if rng.random() < 0.3 and cyc.upper() != 'AMLI' and not zero:
                    kw['accel'] = str(pick(rng, ['cg', 'gmres', 'bicgstab']))
                cnt['coarse'] = cnt['passes'] = 0
                f0 = rec['n']
                b = rng.integers(-4, 5, size=n).astype(float) / 3.0
                np.random.seed(int(rng.integers(2 ** 31)))
                try:
                    with warnings.catch_warnings():
                        warnings.simplefilter('ignore')
                        with np.errstate(all='ignore'):
                            ml.solve(b, **kw)
                    passes = cnt['passes'] if L >= 2 else cnt['coarse']
                    calls.append(f'{cyc}:{cpl}:{passes}:{"a" if "accel" in kw else "l"}')
                    cached = any(hasattr(coarse_obj, a) for a in ('P', 'LU', 'L'))
                    memo = '1' if (lazy and hasattr(ml.levels[0], 'Acsr')) else 'n'
                    impl.append(f'{cnt["coarse"]}:{rec["n"] - f0}:{"1" if cached else "n"}:{memo}')
                except TypeError:
                    # an accelerated call re-enters through `except TypeError` (SciPy-style interface) and fails there
                    calls.append(f'{cyc}:{cpl}:1:l')
                    impl.append('TypeError')
                    break
                except Exception:  # noqa: BLE001
                    # numerical breakdown inside an accelerator / AMLI step (NaN reaches a LAPACK call): the call has no
                    # counterpart in the model; the history ends here
                    ctx.feat('trace_call_breakdown')
                    break
        if not calls:
            continue
        items.append((f'c15_trace {name} {L} {0 if Ac.nnz == 0 else 1} {1 if lazy else 0} {",".join(calls)}', ','.join(impl), cnt['foreign'],
                      snapc == snapshot(Ac), name, L))
    for it in items:
        q.add(it[0], lambda line, o, it=it: trace_one(ctx, it, o))


def trace_one(ctx, it, o):
    line, impl, foreign, same, name, L = it
    if True:
        ctx.case(key=_key('trace', line), nontrivial=L >= 2)
        ctx.feat('trace_levels:' + str(L))
        if foreign or not same:
            ctx.corr('c15_trace hypothesis', {'line': line}, 'every coarse call passes levels[-1].A, unchanged',
                     f'{foreign} calls with another object; content unchanged: {same}')
        if o != impl:
            ctx.corr('c15_trace', {'line': line}, o, impl)


# ------------------------------------------------------------------------------------------------
# adaptive SA (thorough tier): purity and reproducibility
# ------------------------------------------------------------------------------------------------

def asa_case(ctx, rng):
    D, tags = gen_matrix(rng, 'rs', True)
    if D.shape[0] < 6 or D.shape[0] > 60 or tags['fam'] in ('upwind', 'tiny'):
        return
    seed = int(rng.integers(2 ** 31))
    kw = {'num_candidates': int(pick(rng, [1, 2])), 'candidate_iters': 3, 'max_coarse': 5, 'improvement_iters': int(pick(rng, [0, 1]))}
    case = {'ctor': 'asa', 'A': D, 'dtype': None, 'bs': 1, 'kw': kw, 'seed': seed, 'tags': tags}
    eval_asa_case(ctx, case, str(pick(rng, ['csc', 'dense', 'coo'])))


def eval_asa_case(ctx, case, other_fmt):
    import pyamg
    D, kw, seed = case['A'], case['kw'], case['seed']
    res = []
    for fmt in ('csr', 'csr', other_fmt):
        A = make_input(D, fmt)
        s0 = snapshot(A)
        np.random.seed(seed)
        try:
            with warnings.catch_warnings():
                warnings.simplefilter('ignore')
                ml = pyamg.aggregation.adaptive_sa_solver(A, **copy.deepcopy(kw))[0]
        except Exception as e:  # noqa: BLE001
            res.append(e)
            continue
        if snapshot(A)[1] != s0[1]:
            ctx.violation(f'adaptive_sa_solver changed the user\'s matrix ({fmt})', replay_payload('asa', case, fmt=fmt))
        res.append(level_values(ml))
    ctx.case(key=_key('asa', D.shape[0], case['tags']['fam'], sorted(kw.items())), nontrivial=True)
    ctx.feat('ctor:asa')
    if isinstance(res[0], list) and isinstance(res[1], list):
        d = compare_levels(res[0], res[1], 'bits')
        if d:
            ctx.violation(f'adaptive_sa_solver: two builds with the same seed differ: {d}', replay_payload('asa', case, fmt=other_fmt))


# ------------------------------------------------------------------------------------------------
# entry points
# ------------------------------------------------------------------------------------------------

def out_of_time(ctx, quick_elapsed, thorough_left):
    """quick tier: stop a stream once the check has been running for `quick_elapsed` seconds (a loaded machine must not push
    the tier far beyond a minute); thorough tier: keep `thorough_left` seconds of the budget for what follows"""
    import time
    if ctx.quick:
        return ctx.time_left() < 5 if ctx.deep else time.time() - ctx.t0 > quick_elapsed
    return ctx.time_left() < thorough_left


def choose_formats(rng, case, all_formats):
    fm = [('csc', 1), ('coo', 1), ('lil', 1), ('dia', 1), ('dense', 1), ('bsr', 1), ('csr_unsorted', 1)]
    if case['bs'] > 1 and (all_formats or rng.random() < 0.3):
        fm.append(('bsr', case['bs']))
    if all_formats:
        return fm
    k = int(pick(rng, [2, 2, 3]))
    idx = rng.permutation(len(fm))[:k]
    return [fm[i] for i in idx]


def build_stream(ctx, rng, count, q, all_formats=False):
    pending = []
    for t in range(count):
        if out_of_time(ctx, 34, 400):
            ctx.feat('build_budget_cut')
            break
        case = gen_case(rng, ctx.quick)
        eval_build_case(ctx, case, choose_formats(rng, case, all_formats), pending)
    flush_store(ctx, pending, q)


def format_findings_corpus(ctx, q):
    """fixed corpus, every run (no draw from ctx.rng / ctx.np_rng; the NumPy global state is put back): one concrete instance of
    each listed BSR-versus-CSR finding, judged by eval_build_case / classify_format like every other build case --
    rs-bsr-stored-zeros-are-connections: ruge_stuben_solver(strength='symmetric') on the 4 x 4 Poisson matrix stored as BSR 2x2 (the
    zeros inside the blocks are connections for theta = 0; CSR input storing the same zeros gives the BSR hierarchy);
    bsr-symmetric-strength-unit-values: air_solver(strength='symmetric', one-point interpolation) on an upwind stencil stored as BSR
    1x1, and smoothed_aggregation_solver(strength='symmetric', energy smoothing with prefilter theta = 0.13) on a complex Hermitian
    weighted graph Laplacian, n = 17, stored as BSR 1x1"""
    state = np.random.get_state()
    pending = []
    tail = {'max_levels': 10, 'max_coarse': 3, 'keep': True}
    cases = [({'ctor': 'rs', 'A': np.ascontiguousarray(stencil2d(4, 4) / 3.0), 'dtype': None, 'bs': 2,
               'kw': {'strength': 'symmetric', 'CF': ('RS', {'second_pass': False}), 'interpolation': 'classical', **tail},
               'seed': 7, 'tags': {'fam': 'p2', 'complex': False}}, ('bsr', 2)),
             ({'ctor': 'air', 'A': np.ascontiguousarray(stencil2d(4, 4, eps=0.5, conv=2.0) * 0.7), 'dtype': None, 'bs': 1,
               'kw': {'strength': 'symmetric', 'CF': ('RS', {'second_pass': True}), 'interpolation': 'one_point',
                      'restrict': ('air', {'theta': 0.053, 'degree': 2}), 'filter_operator': None, **tail},
               'seed': 7, 'tags': {'fam': 'upwind', 'complex': False}}, ('bsr', 1))]
    r = np.random.default_rng(2)
    H = gen.spd_matrix(r, 17, 'laplacian', complex_=True).toarray()
    d = 1.0 + 0.37 * r.random(17)
    H = np.ascontiguousarray(((d[:, None] * H) * d[None, :]) * (1.0 / 3.0))
    cases.append(({'ctor': 'sa', 'A': H, 'dtype': None, 'bs': 1,
                   'kw': {'symmetry': 'hermitian', 'strength': 'symmetric', 'aggregate': 'standard',
                          'smooth': ('energy', {'krylov': 'cg', 'maxiter': 2, 'prefilter': {'theta': 0.13}}),
                          'improve_candidates': None, 'max_levels': 2, 'max_coarse': 3, 'keep': True},
                   'seed': 7, 'tags': {'fam': 'cherm', 'complex': True}}, ('bsr', 1)))
    for case, fb in cases:
        ctx.feat('format_findings_corpus')
        eval_build_case(ctx, case, [fb], pending)
    flush_store(ctx, pending, q)
    np.random.set_state(state)


def run(ctx):
    rng = ctx.np_rng
    q = LeanQueue()
    format_findings_corpus(ctx, q)
    part_kind(ctx, q)
    part_cache(ctx, rng, ctx.scale(300, 8000), q)
    part_trace(ctx, rng, ctx.scale(60, 1500), q)
    for _ in range(ctx.scale(2, 10)):
        int64_case(ctx, rng)
    smoother_core(ctx, q)
    tiny_core(ctx, np.random.default_rng(ctx.rng.getrandbits(31)), q)
    part_convert(ctx, np.random.default_rng(ctx.rng.getrandbits(31)), ctx.scale(40, 400), q)   # own stream: ctx.np_rng untouched
    e41 = np.random.default_rng([int(getattr(ctx, 'round_seed', ctx.seed)) % (2 ** 32), 41])   # neither ctx.rng nor ctx.np_rng
    part_canon(ctx, e41, ctx.scale(40, 600), q)
    part_canon_pw(ctx, e41, ctx.scale(60, 1500), q)
    e54 = np.random.default_rng([int(getattr(ctx, 'round_seed', ctx.seed)) % (2 ** 32), 54])   # own stream
    part_convert_x(ctx, e54, ctx.scale(40, 600), q)
    part_pw_matchings(ctx, e54, ctx.scale(60, 1500), q)
    b3 = np.random.default_rng([int(getattr(ctx, 'round_seed', ctx.seed)) % (2 ** 32), 159])   # own stream
    rho_every_solve_corpus(ctx)
    options_core(ctx, b3, ctx.scale(30, 900), q)
    repeat_core(ctx, b3, ctx.scale(24, 1500))
    build_stream(ctx, rng, ctx.scale(200, 7000), q)
    pair_core(ctx, np.random.default_rng(ctx.rng.getrandbits(31)))
    reuse_stream(ctx, rng, ctx.scale(450, 16000))
    if not ctx.quick:
        for _ in range(80):
            asa_case(ctx, rng)
    q.flush(ctx)


def search(ctx):
    rng = ctx.np_rng
    q = LeanQueue()
    build_stream(ctx, rng, ctx.scale(150, 800), q, all_formats=True)
    reuse_stream(ctx, rng, ctx.scale(300, 1500))
    b3 = np.random.default_rng([int(getattr(ctx, 'round_seed', ctx.seed)) % (2 ** 32), 160])
    options_core(ctx, b3, ctx.scale(60, 400), q)
    repeat_core(ctx, b3, ctx.scale(60, 400))
    q.flush(ctx)


def replay(ctx, data):
    case = data['case']
    print('replaying', case.get('kind'), case.get('summary'))
    p = unpack(case['packed'])
    if case['kind'] == 'build':
        pending, q = [], LeanQueue()
        eval_build_case(ctx, p['case'], [(p['fmt'], p['bs'])] if p.get('fmt') not in (None, 'csr') else [], pending)
        flush_store(ctx, pending, q)
        q.flush(ctx)
    elif case['kind'] == 'reuse':
        eval_reuse_case(ctx, p['case'], p['history'], p['last'], p['fmt'], p['bs'])
    elif case['kind'] == 'repeat':
        eval_repeat_case(ctx, p['case'], p['warm'], p['call'], p['extras'], p['fmt'], p['bs'])
    elif case['kind'] == 'asa':
        eval_asa_case(ctx, p['case'], p.get('fmt') or 'csc')
    elif case['kind'] == 'int64':
        for c in ('rs', 'air', 'sa', 'rn', 'pw'):
            int64_case(ctx, np.random.default_rng(0))
    elif case['kind'] == 'canon':
        data_, idx_, ptr_, shape_ = p['csr']
        C1 = sp.csr_array((np.array(data_), np.array(idx_), np.array(ptr_)), shape=tuple(shape_))
        C1.sum_duplicates()
        C1.eliminate_zeros()
        if not (C1.toarray() == np.asarray(p['D'])).all():
            ctx.violation('scipy sum_duplicates / eliminate_zeros changed the represented matrix', case)
    elif case['kind'] == 'canon_pw':
        canon_pw_formats_agree(ctx, np.asarray(p['D']), p['theta'], p['norm'])
    elif case['kind'] == 'canon_pw_m':
        pw_m_formats_agree(ctx, np.asarray(p['D']), p['theta'], p['norm'], int(p['m']))
    elif case['kind'] == 'convert_x':
        q = LeanQueue()
        for name, grp, X in convx_inputs(np.random.default_rng(0), np.asarray(p['D'])):
            if not (X.tocsr().toarray() == np.asarray(p['D'])).all():
                ctx.violation(f'scipy conversion of a {name} input to CSR changed the represented matrix', case)
    elif case['kind'] == 'cache':
        from pyamg.multilevel import coarse_grid_solver
        mats = {int(k): gen.int32csr(sp.csr_array(np.array(v))) for k, v in p['mats'].items()}
        obj = coarse_grid_solver(real_solver_arg(p['name']))
        xs = [np.asarray(obj(mats[m], np.array(b))) for m, b in zip(p['hist'], p['bs'])]
        fresh = np.asarray(coarse_grid_solver(real_solver_arg(p['name']))(mats[p['hist'][-1]], np.array(p['bs'][-1])))
        print('  used object :', xs[-1].ravel()[:6])
        print('  new object  :', fresh.ravel()[:6])
        if xs[-1].tobytes() != fresh.tobytes():
            ctx.violation('coarse solver answer depends on the history', case)
    for v in ctx.violations[:5]:
        print('  ', v['what'][:400], '[known: %s]' % v['fkey'] if v['fkey'] else '')
    if not ctx.violations:
        print('   no violation on replay')
