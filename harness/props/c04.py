"""C04 -- hierarchy structure: Galerkin coarse operators and coarsening limits.

correspondence : every hierarchy a real constructor returns is compared with the Lean models:
                 `c04_ctor` = the constructor's loop (`Coarsen.build` through `C04.runTrace`, after `levelize` and
                 `nodeSize`) fed with the step outcomes observed on the real run (level sizes, plus the outcome of
                 the step on the last level recomputed from the public building blocks when the real loop claims
                 a stall) -> number of levels, sizes, exit reason, number of step calls, exact;
                 `c04_levelize` vs `levelize_strength_or_aggregation`, exact;
                 `c04_check` = the proved checker `checkHier` (shapes, strict decrease, A_c = R A P entrywise to
                 1e-10 |R||A||P|, R = P^T / P^H) on the exact rational values of small real hierarchies.
                 `c04x_check` (extension E50) = the same checker with the dense products computed over the non-zeros of the
                 left factor (`C04X.checkHierS`, proved equal to `checkHier`: check_hier_fast_same), which makes hierarchies
                 with up to 150 unknowns affordable: run next to `c04_check` on the small ones, alone on the larger ones
                 (as far as a deterministic budget of estimated Lean time reaches: quick 12 s / <= 96 unknowns, thorough 400 s /
                 <= 150), on every `adaptive_sa_solver` hierarchy and on every `MultilevelSolver(levels)` built by hand
                 without R (coarse matrices formed here as P^H A P, so the levels are Galerkin iff the solver fills in R = P^H).
                 `c04x_checkf` (extension E50) = the proved checker for `air_solver(filter_operator=(lump, theta))`
                 (`C04X.checkHierF`, check_hier_filtered_iff): the filtered deep copy of level 0 observed inside the real step
                 against the C19 kernel model of `filter_matrix_rows` applied to the exact values of levels[0].A, A_1 = R_0 Af0 P_0,
                 every coarse level a step was attempted on (filtered in place) = filter(R A P) -- dropped entries exactly zero,
                 kept entries and lumped diagonals to 1e-10 of the entrywise bound --, an untouched last level = R A P; decisions
                 within 1e-8 (plus the rounding bounds) of the threshold are skipped and counted; its verdict must agree with the
                 NumPy oracle.
                 `ext_c04_step` (extension E13) = the model of the guard of each constructor's `_extend_hierarchy`
                 (all-C / all-F splitting, matrix filtered to a diagonal, P.shape[1] >= P.shape[0]) fed with the numbers
                 traced INSIDE every real step (the splitting the step computed, nnz of the filtered matrix, the shapes
                 handed to fit_candidates, the shape of the pairwise P) -> stall / proceed and rows + blocksize of the
                 appended level, exact, on every step of every generated hierarchy; `ext_c04_build` = `Coarsen.build`
                 instantiated with these steps on the table of traced inputs -> rows, blocksizes, exit reason, calls.
                 `ext_spmm` / `ext_convert` (extension E27) = the executable model of the sparse algebra the constructors
                 delegate to scipy.sparse (`Model/ExtSpmm.lean`: CSR product as csr_matmat computes it, transpose, conjugate,
                 COO / CSC / dense / BSR -> CSR; proved: dense meaning of the product = product of the dense meanings, conversions
                 preserve the dense meaning, hence format independence of the Galerkin step) on the level operators of every
                 small real hierarchy: (a) `A_c` of the real level against the exact model product of the stored R, A, P
                 (raw arrays in whatever format the constructor left them, exact rationals; tolerance of the Galerkin clause);
                 (b) R, A, P snapped to the dyadic grid 2^-6 Z in [-16, 16] (all float64 products exact): scipy's `R @ A @ P`
                 against the model product, exact as dense meanings (raw index/data arrays compared too, counted as a feature);
                 (c) the snapped finest matrix re-stored as CSC / COO with shuffled, split (duplicate) entries / dense / BSR:
                 `tocsr()` against the model conversion and the Galerkin product through that input format, exact.
                 `c04y_build` (extension E54) = the COMPOSED loop model (`Model/ExtC04YLoop.lean`: `Coarsen.build` with the step guards
                 of E13, the sparse Galerkin product of E27 and, for air_solver with filter_operator, the C19 kernel model of
                 filter_matrix_rows on the STORED rows + eliminate_zeros) fed with what was traced on the real run: per call of the
                 step the numbers its guard read and the P, R it produced (raw arrays, exact rationals), and the user's matrix.  The
                 model must stop where the real loop stopped (rows, block sizes, exit reason, number of calls), the proved checker
                 must accept the MODEL's hierarchy with tolerance 0 (`checkHierS` / `checkHierF`: that is the composition theorem
                 loop_builds_hierarchy_sparse / air_loop_builds_filtered_hierarchy, valid for every step function returning
                 well-formed P, R), the levels flagged "filtered in place" must be the ones a real step was attempted on, and the
                 model's level matrices must be the real ones entrywise within 10 l tol of the accumulated bound
                 |R_{l-1}|..|R_0||A_0||P_0|..|P_{l-1}| (level 0: exactly); runs with a model filter decision within 1e-8 of the
                 threshold are skipped and counted.  On every third (thorough: fourth) small hierarchy without filtering and on
                 every small AIR hierarchy with filtering.
                 `ext_py_call` (extension E31) = the Lean definitions GENERATED by harness/py2lean.py from the Python AST of the
                 working tree (`levelize_strength_or_aggregation`, `levelize_smooth_or_improve_candidates`, the `unpack_arg`
                 helper of every constructor) executed on generated option values (documented shapes and ill-typed ones:
                 names, None, (name, kwargs) tuples, predefined tuples, empty / short tuples, lists of those, ints, floats, bools,
                 dicts, opaque objects; max_levels / max_coarse ints incl. 0 and negative, bools, None, floats, strings) against
                 the real functions, exact, the exception class included; on documented inputs a disagreement is judged by an
                 independent oracle of the documented result (`doc_levelize`).  Props/C04.lean proves the documented behaviour
                 for these generated definitions (py_levelize_*), and links them to `C04.levelize` (py_levelize_refines_model).
search         : the five constructors x option grids x max_levels x max_coarse x formats x dtypes x keep x
                 candidates x symmetry flags, judged by an independent NumPy oracle of every clause;
                 call histories: 2-3 constructor calls (any of the five; complex data: the two that accept it) on the SAME
                 matrix object (CSR / BSR float input is not copied by the constructors, they tag it), each call with its own
                 symmetry flag (or the default), options, limits, keep, sometimes the very option objects of an earlier call
                 again; every hierarchy is judged against the options of the call that built it (same oracle, same Lean
                 ops), the user's values must stay what they were before the first call, and the hierarchies returned
                 earlier are judged again after each later call.
                 badly scaled matrices (`tinyfy`, 14 % of all generated matrices, single calls and histories alike): the whole
                 matrix times 2^-60 .. 2^-70 / 1e-18 (every stored entry below 1e-16), a few weak couplings 1e-9 .. 1e-300 /
                 subnormals next to O(1) entries, D M D with tiny d_i -- for every constructor, format and option set.  The
                 clause "finest level = the user's values" is an exact comparison with a snapshot taken before the call, so
                 an absolute clean-up threshold applied to the user's (aliased or copied) arrays shows; the Galerkin clause is
                 relative to |R||A||P| entrywise, so a coarse operator that lost its entries below an absolute threshold shows.
"""
import contextlib
import copy
import hashlib
import importlib

import numpy as np
import scipy.sparse as sp

import gen
from common import enc_ints, enc_list, enc_rat, enc_crat, dec_list, dec_crat

META = {
    'rule': 'matrices: 1-D/2-D Poisson, anisotropic and upwind convection-diffusion stencils, weighted graph Laplacians, random SPD, '
            'diagonal / block-diagonal / isolated-node matrices, n = 1..3, complex Hermitian, complex symmetric and complex nonsymmetric '
            'rotations (sa / rootnode), elasticity BSR systems; n <= 150; formats CSR / BSR(1,2,3) / dense / CSC / COO / LIL / DIA / '
            'csr_matrix; float64, some float32 and integer input; option grids per constructor (strength incl. per-level lists, splitting or '
            'aggregation, interpolation or prolongation smoothing, AIR restriction, filter_operator, 1-3 candidates B / BH, symmetry flag, '
            'improve_candidates, diagonal_dominance, keep, predefined strength / aggregation operators) x max_levels in {1,2,3,10,4,6,20} x '
            'max_coarse in {0,1,5,20,2,3,10,50}; plus adaptive_sa_solver and a bare MultilevelSolver; a case is non-trivial unless the user '
            'asked for max_levels = 1; distinct = distinct (constructor, matrix, format, dtype, options, limits); 12 % of the draws are '
            'call histories: 2-3 calls of the constructors on one matrix object (real families: all five constructors; complex: '
            'gallery.gauge_laplacian, Hermitian / symmetric / nonsymmetric rotations with sa / rootnode), formats CSR / BSR / csr_matrix '
            '(object shared with the library) or CSC / dense (converted copy), per call a fresh symmetry flag (hermitian / omitted = '
            'default / symmetric / nonsymmetric), option set, limits and keep, a quarter of the later calls repeat an earlier one with '
            'its option objects and other scalars; each call of a history counts as a case (distinct = the call and the calls before it); '
            '14 % of all generated matrices (every family, constructor, format, option set, histories included) are badly scaled '
            'variants (`tinyfy`): the whole matrix times 2^-60 .. 2^-70 / 1e-18 / 2^-30 / 2^-45 / 2^-100, or a few weak couplings of '
            'magnitude 1e-9 .. 1e-300 and subnormals (new positions or weakened existing couplings; symmetric / Hermitian / one-sided '
            'as the family is) next to the O(1) entries, or D M D with d_i = 2^-27 .. 2^-35 on some unknowns',
    'search_only': ['float32 hierarchies, and those hierarchies with more than 24 unknowns on the finest level that the budget of the proved '
                    'checker does not reach (quick: <= 96 unknowns and 12 s of estimated Lean time, thorough: <= 150 unknowns and 400 s, '
                    'spread evenly over the run; feature lean-big-skipped-budget): shapes, Galerkin product, R = P^T / P^H are judged by the '
                    'NumPy oracle only (the proved checker `checkHier`, in its fast form `checkHierS`, runs on the others)',
                    'finest level = the user\'s values and the user\'s matrix object left untouched: NumPy oracle, exact comparison with '
                    'a snapshot of the values taken before the (first) constructor call -- entries of any magnitude (1e-300, subnormals) count',
                    'AIR filtering: the proved checker `checkHierF` takes the filtered copy of level 0 from a trace inside the real step '
                    '(an AIR hierarchy of one level has none and is checked as a plain level); filter decisions within 1e-8 of the threshold '
                    '(plus the rounding bounds of the two entries) are skipped by it (near_threshold_skipped) and, with lumping, the diagonal '
                    'entry of a row with such a decision -- those entries are judged by the NumPy oracle only (either decision accepted); '
                    'that the real `filter_matrix_rows` (tocsr, amg_core kernel, eliminate_zeros, write-back to BSR) computes what the C19 kernel '
                    'model computes is observed, not proved: exact comparison on dyadic CSR / BSR data with frequent ties (`c04x_filter`) and '
                    'on every filtered level of every such hierarchy; proved: the kernel model on a stored row without duplicate columns and on '
                    'the dense row (`filterMat`, what the checker uses) have the same dense meaning, the definition of the filter '
                    '(filter_stored_vs_dense, filter_dense_definition)',
                    'legitimacy of a stall: the outcome of the step on the last level is recomputed from the public strength / splitting / '
                    'aggregation routines with the NumPy random state recorded at the entry of the real step; the loop theorems take the '
                    'step outcomes as input',
                    'adaptive_sa_solver: the limits (max_levels / max_coarse, known finding adaptive-ignores-limits) and the finest level are '
                    'judged by the NumPy oracle only; shapes, strict decrease, Galerkin product and R = P^H / P^T also by the proved checker. '
                    'MultilevelSolver(levels) without R: R = P^H by NumPy and by the proved checker (transpose and Galerkin clauses)',
                    'that the real `R @ A @ P`, `P.T.tocsr()`, `.conjugate()` of scipy.sparse compute what the proved model of them '
                    '(Model/ExtSpmm.lean: spmm_product, spmm_transpose, spmm_galerkin) computes is observed, not proved: exact comparison of '
                    'dense meanings on the level operators of every third (thorough tier: fourth) small hierarchy, values snapped to a '
                    'dyadic grid where float64 is exact, and A_c of the real level against the exact model product within the Galerkin '
                    'tolerance; the stored index / data arrays agree as well (feature spmm:layout-same)',
                    'composition (extension E54): PROVED for the loop model with an arbitrary numerical step function: if every proceeding '
                    'step returns a well-formed n x r matrix P and r x n matrix R, r > 0 (hypothesis NumOK; discharged for R = P^T / P^H '
                    'computed by the transpose model: step_hypothesis_transpose), the hierarchy satisfies HierOK with tolerance 0, and '
                    'with AIR filtering HierOKF (input without duplicate stored entries), together with the limits clause '
                    '(loop_builds_hierarchy_sparse, air_loop_builds_filtered_hierarchy, loop_limits_sparse).  Observed, not proved: that '
                    'the real strength / splitting / aggregation / interpolation / smoothing routines return such P, R (the model loop '
                    'is run on the observed P, R of every third small hierarchy and reproduces the real level matrices: c04y_build), '
                    'and that scipy / the amg_core filter kernel compute what the models of them compute',
                    'exceptions: a constructor that raises on an option set / format the generator regards as supported, or does not '
                    'return within 30 s, is reported (returns no levels)'],
    'partial': [],
    'trusted_extra': ['harness/py2lean.py (Python-AST -> Lean translator for the documented subset, incl. the slicing rule) and lean/PyamgV/Model/ExtPyRt.lean (run-time library: CPython semantics of the subset on the PyVal universe): exercised on every run by the exact comparison of the generated definitions with the real functions (ext_py_call), and by harness/py2lean_selftest'],
    'assumptions': ['"unknowns" compared with max_coarse are rows for ruge_stuben_solver / air_solver and rows / blocksize for the '
                    'aggregation-type constructors (as the anchored loops do); "predefined" strength / aggregation lists replace '
                    '(max_levels, max_coarse) by (len + 1, 0) as documented, and the limits clause is judged against those',
                    'Galerkin tolerance: |A_c - R A P| <= max(1e-10, 2000 eps(dtype)) * (|R||A||P|) entrywise (relative to the entries: a '
                    'matrix scaled by 2^-70 is judged as strictly as an O(1) one) + 1e-300 absolute (partial products that underflow); '
                    'hierarchies with non-finite values are skipped (counted); when the smallest stored moduli of R, A, P multiply to less '
                    'than 1e-280 the exact-arithmetic checkers (Lean) are not run on that hierarchy (feature lean-skipped:products-may-underflow)',
                    'a level without unknowns (0 x 0) counts as a violation (the step went on where the constructors\' own guards stop)',
                    'measure of the strict decrease: rows (A.shape[0]) -- proved for every proceeding step of the five modelled guards '
                    '(step_rows_decrease, sizes_decrease_unconditional); the node count rows / blocksize, which the aggregation-type loops '
                    'compare with max_coarse, also decreases strictly except in a smoothed_aggregation step with fewer candidates than the '
                    'block size of the level (sa_nodes_need_not_decrease; seen on the real code: 2 x 2 blocks, one candidate, naive '
                    'aggregation of uncoupled nodes: rows 4 -> 2, nodes 2 -> 2); such steps are counted (feature sa-nodes-not-decreasing)',
                    'not "accepted by the constructors" (TypeError / ValueError / IndexError on the pinned tree), hence not generated: complex '
                    'input to ruge_stuben / air / pairwise solvers, float32 with rootnode / evolution / energy / relaxed candidates, BSR with '
                    'strength None / algebraic_distance / affinity / energy_based or diagonal_dominance or aggregate="pairwise", AIR + BSR '
                    'with classical / direct interpolation, aggregate="pairwise" beyond two levels, root-node + Lloyd aggregation, '
                    'predefined lists that do not fit each other'],
}

CT = {'rs': ('pyamg.classical.classical', 'ruge_stuben_solver', '_extend_hierarchy'),
      'air': ('pyamg.classical.air', 'air_solver', 'extend_hierarchy'),
      'sa': ('pyamg.aggregation.aggregation', 'smoothed_aggregation_solver', '_extend_hierarchy'),
      'rn': ('pyamg.aggregation.rootnode', 'rootnode_solver', '_extend_hierarchy'),
      'pw': ('pyamg.aggregation.pairwise', 'pairwise_solver', '_extend_hierarchy')}
BLOCKWISE = {'rs': False, 'air': False, 'sa': True, 'rn': True, 'pw': True}
LEAN_NMAX = 24


def _key(*a):
    return hashlib.sha1(repr(a).encode()).hexdigest()


# ------------------------------------------------------------------------------------------------
# JSON-able packing of cases (tuples, arrays, sparse matrices inside option dictionaries)
# ------------------------------------------------------------------------------------------------

def pack(o):
    if isinstance(o, tuple):
        return {'__tuple__': [pack(v) for v in o]}
    if isinstance(o, list):
        return [pack(v) for v in o]
    if isinstance(o, dict):
        return {str(k): pack(v) for k, v in o.items()}
    if sp.issparse(o):
        return {'__sparse__': pack(o.toarray())}
    if isinstance(o, np.ndarray):
        if np.iscomplexobj(o):
            return {'__ndc__': [np.real(o).tolist(), np.imag(o).tolist()]}
        return {'__nd__': o.tolist(), 'dtype': str(o.dtype)}
    if isinstance(o, (np.integer,)):
        return int(o)
    if isinstance(o, (np.floating,)):
        return float(o)
    if isinstance(o, (np.bool_,)):
        return bool(o)
    return o


def unpack(o):
    if isinstance(o, list):
        return [unpack(v) for v in o]
    if isinstance(o, dict):
        if '__tuple__' in o:
            return tuple(unpack(v) for v in o['__tuple__'])
        if '__sparse__' in o:
            return gen.int32csr(sp.csr_array(unpack(o['__sparse__'])))
        if '__ndc__' in o:
            return np.array(o['__ndc__'][0], dtype=float) + 1j * np.array(o['__ndc__'][1], dtype=float)
        if '__nd__' in o:
            return np.array(o['__nd__'], dtype=o.get('dtype', 'float64'))
        return {k: unpack(v) for k, v in o.items()}
    return o


# ------------------------------------------------------------------------------------------------
# matrices
# ------------------------------------------------------------------------------------------------

def stencil2d(nx, ny, eps=1.0, conv=0.0):
    """5-point anisotropic diffusion (eps in y) + first-order upwind convection in x"""
    n = nx * ny
    M = np.zeros((n, n))
    for j in range(ny):
        for i in range(nx):
            k = j * nx + i
            M[k, k] = 2 + 2 * eps + conv
            if i > 0:
                M[k, k - 1] = -1 - conv
            if i < nx - 1:
                M[k, k + 1] = -1
            if j > 0:
                M[k, k - nx] = -eps
            if j < ny - 1:
                M[k, k + nx] = -eps
    return M


TINY_P = 0.14
# global scalings (powers of two: every float operation of a scale-invariant routine scales exactly; 1e-18: it does not)
TINY_SCALES = [2.0 ** -60, 2.0 ** -62, 2.0 ** -64, 2.0 ** -66, 2.0 ** -68, 2.0 ** -70, 1e-18, 1e-18, 2.0 ** -30, 2.0 ** -45, 2.0 ** -100]
# magnitudes of weak couplings next to O(1) entries: around and far below the usual absolute clean-up thresholds, subnormals
WEAK_MAGS = [1e-9, 1e-12, 1e-14, 3e-16, 1e-16, 9e-17, 1e-17, 1e-17, 2.0 ** -60, 1e-18, 1e-20, 1e-30, 1e-100, 1e-200, 1e-300,
             1e-310, 5e-324]


def tinyfy(rng, M, tags):
    """legitimately badly scaled variants of a generated matrix (the quantifier is over ALL matrices the constructors accept):
    'scale'  the whole matrix times 2^-60 .. 2^-70, 1e-18 (a problem posed in other units): every stored entry is below 1e-16;
    'weak'   a few very weak couplings (1e-9 .. 1e-300, subnormals) next to the O(1) entries, at new positions or in place of
             existing off-diagonal couplings, symmetric / Hermitian / one-sided as the family is;
    'dscale' D M D with d_i = 2^-27 .. 2^-35 on a few unknowns (some unknowns in other units): tiny diagonal entries with
             consistently small rows and columns.
    The symmetry class of the family (symmetric, Hermitian, complex symmetric, nonsymmetric) is kept."""
    n = M.shape[0]
    kind = str(pick(rng, ['scale', 'scale', 'weak', 'weak', 'weak', 'dscale']))
    if n < 2 and kind == 'weak':
        kind = 'scale'
    M = np.array(M, dtype=complex if np.iscomplexobj(M) else float)
    fam = tags['fam']
    if kind == 'scale':
        s = float(pick(rng, TINY_SCALES))
        M = M * s
        tags['tiny'] = f'scale:{s:.3g}'
    elif kind == 'dscale':
        d = np.ones(n)
        idx = rng.choice(n, size=int(rng.integers(1, max(2, n // 3 + 1))), replace=False)
        d[idx] = 2.0 ** -rng.integers(27, 36, size=len(idx)).astype(float)
        M = (d[:, None] * M) * d[None, :]
        tags['tiny'] = 'dscale'
    else:
        herm = fam in ('cherm', 'gauge')
        onesided = fam in ('upwind', 'cnonsym') and rng.random() < 0.5
        mags = []
        for _ in range(int(rng.integers(1, max(2, min(n // 3, 8)) + 1))):
            i, j = (int(x) for x in rng.choice(n, size=2, replace=False))
            if rng.random() < 0.35 and np.any(M[i] != 0):
                cand = [int(c) for c in np.nonzero(M[i])[0] if c != i]
                if cand:
                    j = int(pick(rng, cand))                 # an existing coupling becomes a very weak one
            mag = float(pick(rng, WEAK_MAGS))
            v = mag * float(pick(rng, [-1.0, -1.0, 1.0, -3.0, 7.5]))
            if np.iscomplexobj(M) and rng.random() < 0.7:
                v = v * complex(pick(rng, [1j, -1j, 0.6 + 0.8j, 0.6 - 0.8j]))
            M[i, j] = v
            if not onesided:
                M[j, i] = np.conj(v) if herm else v
            mags.append(mag)
        tags['tiny'] = 'weak:%.0e' % min(mags)
    return M, kind


def gen_matrix(rng, ctor, quick, fam=None, tiny=None):
    """dense ndarray + tags; sizes skewed to small, a tail of larger ones so that 4-6 levels occur; TINY_P of the matrices
    are turned into badly scaled ones (`tinyfy`)"""
    cplx_ok = ctor in ('sa', 'rn')
    fams = ['p1', 'p1', 'p2', 'p2', 'aniso', 'upwind', 'lap', 'spd', 'diag', 'blocks', 'tiny', 'elas']
    if cplx_ok:
        fams += ['cherm', 'cherm', 'csym', 'csym', 'cnonsym']
    fam = fam or str(rng.choice(fams))
    big = rng.random() < (0.25 if quick else 0.4)
    nmax = 150 if big else 40
    tags = {'fam': fam}
    if fam == 'p1':
        n = int(rng.integers(2, nmax + 1))
        M = 2 * np.eye(n) - np.eye(n, k=1) - np.eye(n, k=-1)
    elif fam == 'p2':
        nx = int(rng.integers(2, 13 if big else 7))
        ny = int(rng.integers(2, 13 if big else 7))
        M = stencil2d(nx, ny)
    elif fam == 'aniso':
        nx = int(rng.integers(2, 11 if big else 7))
        ny = int(rng.integers(2, 11 if big else 7))
        M = stencil2d(nx, ny, eps=float(rng.choice([0.001, 0.1, 10.0])))
    elif fam == 'upwind':
        nx = int(rng.integers(2, 11 if big else 7))
        ny = int(rng.integers(1, 11 if big else 7))
        M = stencil2d(nx, ny, eps=float(rng.choice([1.0, 0.5])), conv=float(rng.choice([0.5, 2.0, 10.0])))
    elif fam == 'lap':
        n = int(rng.integers(2, min(nmax, 60) + 1))
        M = gen.spd_matrix(rng, n, 'laplacian').toarray()
    elif fam == 'spd':
        n = int(rng.integers(2, 25))
        M = gen.spd_matrix(rng, n, 'random').toarray()
    elif fam == 'diag':
        n = int(rng.integers(1, 30))
        M = np.diag(rng.choice([1.0, 2.0, 3.0, -1.0, 0.5], size=n))
    elif fam == 'blocks':
        # disconnected pieces: a Poisson block, isolated nodes, a second block
        a = int(rng.integers(2, 20))
        b = int(rng.integers(0, 5))
        c = int(rng.integers(0, 12))
        n = a + b + c
        M = np.zeros((n, n))
        M[:a, :a] = 2 * np.eye(a) - np.eye(a, k=1) - np.eye(a, k=-1)
        M[a:a + b, a:a + b] = np.diag(rng.choice([1.0, 4.0], size=b)) if b else 0
        if c:
            M[a + b:, a + b:] = 4 * np.eye(c) - np.eye(c, k=1) - np.eye(c, k=-1) - (np.eye(c, k=2) + np.eye(c, k=-2)) * 0.5
        if rng.random() < 0.5:
            p = rng.permutation(n)
            M = M[np.ix_(p, p)]
    elif fam == 'tiny':
        n = int(rng.integers(1, 4))
        M = (2 * np.eye(n) - np.eye(n, k=1) - np.eye(n, k=-1)) * float(rng.choice([1.0, 3.0]))
    elif fam == 'elas':
        import pyamg
        k = int(rng.integers(2, 7 if big else 4))
        E, _ = pyamg.gallery.linear_elasticity((k, int(rng.integers(2, 6 if big else 4))))
        M = E.toarray()
        tags['elas'] = True
    elif fam == 'gauge':
        # complex Hermitian gauge Laplacian on a k x k periodic grid (call histories); the gallery routine draws from np.random
        import pyamg
        np.random.seed(int(rng.integers(2 ** 31)))
        k = int(rng.integers(3, 10 if big else 7))
        M = pyamg.gallery.gauge_laplacian(k, beta=float(rng.choice([0.1, 0.3, 1.0]))).toarray()
    elif fam in ('cherm', 'csym', 'cnonsym'):
        n = int(rng.integers(2, min(nmax, 60) + 1))
        kind = str(rng.choice(['poisson1d', 'poisson2d', 'laplacian']))
        if fam == 'cherm':
            M = gen.spd_matrix(rng, n, kind, complex_=True).toarray()
        else:
            R = gen.spd_matrix(rng, n, kind).toarray()
            n = R.shape[0]
            form = int(rng.integers(3))                       # three complex symmetric, non-Hermitian forms
            if form == 0:
                ph = np.exp(1j * rng.random(n) * 2 * np.pi)
                M = (ph[:, None] * R) * ph[None, :] + 0.25j * np.eye(n)        # D R D + i s I
            elif form == 1:
                M = R + 1j * float(rng.choice([0.25, 0.5, 2.0])) * np.eye(n)   # complex-shifted Laplacian A + i s I
            else:
                Bs = np.triu((rng.random((n, n)) < 0.2) * rng.integers(-1, 2, size=(n, n)), 1).astype(float)
                M = R + 1j * (0.3 * (Bs + Bs.T) + 0.1 * np.eye(n))             # A + i B, B real symmetric
            if fam == 'cnonsym':
                M = M + np.triu(R, 1) * (0.3 + 0.2j)
    if tiny is None:
        tiny = rng.random() < TINY_P
    if tiny:
        M, _ = tinyfy(rng, M, tags)
    tags['complex'] = bool(np.iscomplexobj(M))
    return np.array(M), tags


def make_input(D, fmt, bs, dtype=None):
    D = np.array(D)
    if dtype is not None:
        D = D.astype(dtype)
    if fmt == 'dense':
        return D
    if fmt == 'csr':
        return gen.int32csr(sp.csr_array(D))
    if fmt == 'csr_matrix':
        A = sp.csr_matrix(D)
        A.indptr = A.indptr.astype(np.int32)
        A.indices = A.indices.astype(np.int32)
        return A
    if fmt == 'bsr':
        A = sp.bsr_array(sp.csr_array(D), blocksize=(bs, bs))
        A.indptr = A.indptr.astype(np.int32)
        A.indices = A.indices.astype(np.int32)
        return A
    return getattr(sp, fmt + '_array')(sp.csr_array(D))


def dense(M):
    return M.toarray() if sp.issparse(M) else np.asarray(M)


def blocksize_of(M):
    return int(M.blocksize[0]) if sp.issparse(M) and M.format == 'bsr' else 1


# ------------------------------------------------------------------------------------------------
# option grids
# ------------------------------------------------------------------------------------------------

def pick(rng, xs):
    return xs[int(rng.integers(len(xs)))]


STRENGTHS = ['symmetric', ('symmetric', {'theta': 0.0}), ('symmetric', {'theta': 0.25}), 'classical',
             ('classical', {'theta': 0.25, 'norm': 'abs'}), ('classical', {'theta': 0.5, 'norm': 'min'}),
             ('classical', {'theta': 0.0}), 'evolution', ('evolution', {'k': 2, 'epsilon': 4.0}), None,
             'energy_based', 'algebraic_distance', 'affinity']
RANDOM_STRENGTH = ('algebraic_distance', 'affinity')


def name_of(opt):
    return opt[0] if isinstance(opt, tuple) else opt


def gen_limits(rng):
    ML = int(pick(rng, [1, 2, 3, 10, 2, 3, 10, 2, 3, 10, 4, 6, 20]))
    MC = int(pick(rng, [0, 1, 5, 20, 0, 1, 5, 20, 0, 1, 5, 2, 3, 10, 50]))
    return ML, MC


def opts_rs(rng, tags):
    st = pick(rng, [('classical', {'theta': 0.25}), ('classical', {'theta': 0.5, 'norm': 'min'}), ('classical', {'theta': 0.0}),
                    'symmetric', ('symmetric', {'theta': 0.1}), None, 'evolution', 'energy_based', 'algebraic_distance', 'affinity'])
    cf = pick(rng, [('RS', {'second_pass': False}), ('RS', {'second_pass': True}), 'RS', 'PMIS', 'PMISc', 'CLJP', 'CLJPc',
                    ('PMISc', {'method': 'MIS'}), ('CLJP', {'color': True})])
    ip = pick(rng, ['classical', 'direct', ('classical', {'modified': False}), ('classical', {'modified': True})])
    return {'strength': st, 'CF': cf, 'interpolation': ip, 'keep': bool(rng.random() < 0.5)}


def opts_air(rng, tags):
    st = pick(rng, [('classical', {'theta': 0.3, 'norm': 'min'}), ('classical', {'theta': 0.25}), ('classical', {'theta': 0.0}),
                    'symmetric', None, 'evolution'])
    cf = pick(rng, [('RS', {'second_pass': True}), ('RS', {'second_pass': False}), 'PMIS', 'PMISc', 'CLJP', 'CLJPc'])
    ip = pick(rng, ['one_point', 'one_point', 'inject', 'classical', 'direct', ('one_point', {'by_val': True})])
    rs = pick(rng, [('air', {'theta': 0.05, 'degree': 2}), ('air', {'theta': 0.1, 'degree': 1}), 'air',
                    ('air', {'theta': 0.2, 'degree': 1, 'use_gmres': True, 'maxiter': 3})])
    fo = pick(rng, [None, None, (True, 0.1), (False, 0.1), (True, 0.4), (False, 0.4), (True, 0.0), (False, 0.7)])
    return {'strength': st, 'CF': cf, 'interpolation': ip, 'restrict': rs, 'filter_operator': fo,
            'keep': bool(rng.random() < 0.5)}


def gen_B(rng, n, k, cplx):
    B = np.ones((n, k))
    if k >= 2:
        B[:, 1] = np.arange(n) / max(1, n - 1)
    if k >= 3:
        B[:, 2:] = rng.integers(-3, 4, size=(n, k - 2)) + 0.5
    if cplx:
        B = B.astype(complex)
        if k >= 2:
            B[:, 1] = B[:, 1] * (1 + 0.5j)
    if k == 1 and rng.random() < 0.3:
        return B[:, 0]          # 1-D candidate vector is accepted too
    return B


def opts_sa(rng, tags, root=False, force_sym=None):
    cplx = tags['complex']
    fam = tags['fam']
    sym = {'cherm': 'hermitian', 'gauge': 'hermitian', 'csym': 'symmetric', 'cnonsym': 'nonsymmetric', 'upwind': 'nonsymmetric'}.get(fam)
    if sym is None or rng.random() < 0.25:
        sym = pick(rng, ['hermitian', 'symmetric', 'nonsymmetric']) if sym is None else sym
        if fam in ('cherm', 'csym', 'cnonsym', 'gauge') and rng.random() < 0.5:
            sym = pick(rng, ['hermitian', 'symmetric', 'nonsymmetric'])   # the flag is the user's claim, not checked
    if force_sym is not None:
        sym = force_sym                                                   # call histories: the flag changes from call to call
    st = pick(rng, STRENGTHS)
    ag = pick(rng, ['standard', 'standard', 'naive', 'lloyd', ('lloyd', {'ratio': 0.3, 'maxiter': 3}), 'pairwise',
                    ('pairwise', {'theta': 0.25, 'norm': 'min', 'matchings': 1}), ('pairwise', {'matchings': 2, 'theta': 0.0, 'norm': 'abs'})])
    if (cplx or root) and name_of(ag) in ('pairwise', 'lloyd') and (cplx or name_of(ag) == 'lloyd'):
        ag = 'standard'      # root-node + Lloyd: get_Cpt_params fails when a centre owns no node (ValueError)
    if cplx and name_of(st) in ('affinity', 'algebraic_distance', 'energy_based'):
        st = 'symmetric'
    if root:
        sm = pick(rng, ['energy', ('energy', {'maxiter': 2, 'degree': 1}), None, ('energy', {'krylov': 'cgnr', 'maxiter': 2}),
                        ('energy', {'krylov': 'gmres', 'maxiter': 3, 'degree': 2})])
    else:
        sm = pick(rng, [('jacobi', {'omega': 4.0 / 3.0}), 'jacobi', ('jacobi', {'omega': 1.0, 'degree': 2}),
                        ('jacobi', {'filter_entries': True}), ('jacobi', {'weighting': 'local'}),
                        'richardson', ('richardson', {'omega': 1.0, 'degree': 2}), None, None,
                        ('energy', {'maxiter': 2}), ('energy', {'krylov': 'cgnr', 'maxiter': 2}), ('energy', {'krylov': 'gmres', 'maxiter': 2})])
    if name_of(sm) == 'energy':
        kry = sm[1].get('krylov') if isinstance(sm, tuple) else None
        if sym == 'nonsymmetric' and kry in (None, 'cg'):
            sm = ('energy', {'krylov': 'gmres', 'maxiter': 2})
        if sym != 'nonsymmetric' and kry is None and fam in ('upwind', 'cnonsym', 'csym'):
            sm = ('energy', {'krylov': 'cgnr', 'maxiter': 2})
    ic = pick(rng, [None, None, ('gauss_seidel', {'sweep': 'symmetric', 'iterations': 2}),
                    [('block_gauss_seidel', {'sweep': 'symmetric', 'iterations': 4}), None], ('jacobi', {'iterations': 2}),
                    ('richardson', {'iterations': 1})])
    if cplx and ic is not None:
        ic = pick(rng, [None, ('gauss_seidel', {'sweep': 'symmetric', 'iterations': 2})])
    dd = pick(rng, [False, False, False, True, (True, {'theta': 1.1})])
    kw = {'symmetry': sym, 'strength': st, 'aggregate': ag, 'smooth': sm, 'improve_candidates': ic,
          'diagonal_dominance': dd, 'keep': bool(rng.random() < 0.5)}
    # per-level lists
    r = rng.random()
    if r < 0.12:
        kw['strength'] = [pick(rng, ['symmetric', 'classical', None, ('symmetric', {'theta': 0.1})]) for _ in range(int(rng.integers(1, 4)))]
    elif r < 0.24:
        kw['aggregate'] = [pick(rng, ['standard', 'naive']) for _ in range(int(rng.integers(1, 4)))]
    elif r < 0.32 and not root:
        kw['smooth'] = [pick(rng, ['jacobi', None, 'richardson']) for _ in range(int(rng.integers(1, 4)))]
    return kw


def opts_pw(rng, tags):
    ag = pick(rng, [('pairwise', {'theta': 0.25, 'norm': 'min', 'matchings': 2}), ('pairwise', {'theta': 0.0, 'norm': 'abs', 'matchings': 1}),
                    ('pairwise', {'theta': 0.5, 'norm': 'min', 'matchings': 3}), ('pairwise', {'theta': 0.25, 'norm': 'abs', 'matchings': 2}),
                    [('pairwise', {'theta': 0.25, 'norm': 'min', 'matchings': 1}), ('pairwise', {'theta': 0.1, 'norm': 'min', 'matchings': 2})]])
    return {'aggregate': ag}


def restrict_unsupported(ctor, kw, fmt, bs, dtype, k, tags):
    """option combinations the unchanged constructors reject with an exception (not "accepted" input) are mapped to
    the nearest supported one; every rule here was observed as a TypeError / ValueError / IndexError of the pinned tree"""
    cplx = tags['complex']
    blocky = (fmt == 'bsr' and bs > 1) or k > 1          # some level is BSR with blocks larger than 1 x 1
    if ctor == 'air' and fmt == 'bsr':
        if kw['strength'] is None:
            kw['strength'] = ('classical', {'theta': 0.25})
        if name_of(kw['interpolation']) not in ('one_point', 'inject'):
            kw['interpolation'] = 'one_point'
    if ctor in ('sa', 'rn'):
        if name_of(kw['aggregate']) == 'pairwise' or (isinstance(kw['aggregate'], list) and
                                                      any(name_of(a) == 'pairwise' for a in kw['aggregate'])):
            kw['max_levels'] = min(kw['max_levels'], 2)     # level 2 is BSR: pairwise_aggregation returns BSR -> TypeError
        if blocky:
            kw['diagonal_dominance'] = False               # eliminate_diag_dom_nodes indexes nodes with a row mask
            # strength=None / algebraic_distance / affinity / energy_based return a rows x rows (not nodes x nodes) graph
            ok = ('symmetric', 'classical', 'evolution')
            if isinstance(kw['strength'], list):
                kw['strength'] = [x if name_of(x) in ok else 'symmetric' for x in kw['strength']]
            elif name_of(kw['strength']) not in ok:
                kw['strength'] = 'symmetric'
        if fmt == 'bsr':
            # pairwise_aggregation returns a BSR pattern for BSR input, fit_candidates wants CSR
            if isinstance(kw['aggregate'], list):
                kw['aggregate'] = [a if name_of(a) != 'pairwise' else 'standard' for a in kw['aggregate']]
            elif name_of(kw['aggregate']) == 'pairwise':
                kw['aggregate'] = 'standard'
        if cplx:
            for key in ('strength',):
                v = kw[key]
                vs = v if isinstance(v, list) else [v]
                if any(isinstance(x, tuple) and x[1].get('norm') == 'min' for x in vs):
                    kw[key] = 'symmetric'
    if dtype == 'float32':
        if ctor == 'rs' and name_of(kw['strength']) not in ('classical', 'symmetric', None):
            kw['strength'] = ('classical', {'theta': 0.25})
        if ctor == 'air':
            kw['strength'] = ('classical', {'theta': 0.25})
        if ctor == 'sa':
            if isinstance(kw['strength'], list) or name_of(kw['strength']) not in ('classical', 'symmetric', None):
                kw['strength'] = 'symmetric'
            if isinstance(kw['aggregate'], list) or name_of(kw['aggregate']) not in ('standard', 'naive'):
                kw['aggregate'] = 'standard'
            kw['improve_candidates'] = None
            if isinstance(kw['smooth'], list) or name_of(kw['smooth']) == 'energy':
                kw['smooth'] = 'jacobi'
            elif isinstance(kw['smooth'], tuple) and 'filter_entries' in kw['smooth'][1]:
                kw['smooth'] = 'jacobi'
            kw.pop('B', None)
            kw.pop('BH', None)


def add_predefined(rng, ctor, D, kw):
    """replace aggregate (and sometimes strength) by ('predefined', ...) operators taken from a hierarchy built with the
    default options; the documented effect on the limits is max_levels = len + 1, max_coarse = 0"""
    import pyamg
    A = gen.int32csr(sp.csr_array(D))
    try:
        ref = pyamg.smoothed_aggregation_solver(A, max_coarse=int(pick(rng, [1, 3])), keep=True, symmetry=kw['symmetry'],
                                                B=kw.get('B'), improve_candidates=None)
    except Exception:  # noqa: BLE001
        return
    lv = ref.levels[:-1]
    if not lv:
        return
    nuse = int(rng.integers(1, len(lv) + 1))
    aggs = [('predefined', dict({'AggOp': gen.int32csr(sp.csr_array(L.AggOp))},
                                **({'Cnodes': np.asarray(L.Cnodes)} if ctor == 'rn' else {}))) for L in lv[:nuse]]
    Cs = [('predefined', {'C': gen.int32csr(sp.csr_array(L.C))}) for L in lv[:nuse]]
    r = rng.random()
    if r < 0.25 and nuse == 1:
        kw['aggregate'] = aggs[0]                        # a bare tuple: max_levels = 2
    else:
        kw['aggregate'] = aggs
    r = rng.random()
    if r < 0.35:
        kw['strength'] = Cs
    elif r < 0.6:
        kw['strength'] = 'symmetric'                     # raised IndexError when len(aggs) + 1 > max_levels (fixed: 346a828)
    elif r < 0.8:
        kw['strength'] = ['symmetric'] * int(rng.integers(1, 4))
    else:
        # predefined strength, plain aggregation; deeper predefined C's only fit when the aggregates are those of the
        # reference hierarchy (standard aggregation of the same C), otherwise only level 0 is predefined
        if ctor == 'sa':
            kw['aggregate'] = pick(rng, ['standard', ['standard']])
        else:
            kw['strength'] = Cs[:1]
            kw['aggregate'] = pick(rng, ['standard', 'naive'])
    kw['diagonal_dominance'] = False
    kw['improve_candidates'] = None


def gen_case(rng, quick, ctor=None, given=None):
    """given = {'A', 'tags', 'fmt', 'bs', 'sym'}: the matrix, its storage and the symmetry flag are fixed by the caller
    (call histories on one matrix object); the options, limits and candidates are drawn as usual"""
    ctor = ctor or str(pick(rng, ['rs', 'air', 'sa', 'sa', 'rn', 'pw']))
    D, tags = gen_matrix(rng, ctor, quick) if given is None else (given['A'], given['tags'])
    n = D.shape[0]
    kw = {'rs': opts_rs, 'air': opts_air, 'sa': opts_sa, 'pw': opts_pw}.get(ctor, None)
    if ctor in ('sa', 'rn'):
        kw = opts_sa(rng, tags, root=(ctor == 'rn'), force_sym=None if given is None else given.get('sym'))
    else:
        kw = kw(rng, tags)
    ML, MC = gen_limits(rng)
    kw['max_levels'], kw['max_coarse'] = ML, MC
    # storage format
    fmt = str(pick(rng, ['csr', 'csr', 'csr', 'bsr', 'bsr', 'dense', 'csc', 'coo', 'lil', 'dia', 'csr_matrix']))
    bs = 1
    if tags.get('elas') and rng.random() < 0.7:
        fmt, bs = 'bsr', 2
    elif fmt == 'bsr':
        cand = [b for b in (1, 2, 3) if n % b == 0]
        bs = int(pick(rng, cand))
    dtype = None
    if not tags['complex'] and ctor != 'rn' and rng.random() < 0.06:
        dtype = 'float32'
    elif not tags['complex'] and rng.random() < 0.05 and np.all(D == np.round(D)):
        dtype = 'int64'
    if given is not None:
        fmt, bs, dtype = given['fmt'], given['bs'], None
    # candidates
    k = 1
    if ctor in ('sa', 'rn'):
        r = rng.random()
        k = 1 if r < 0.5 else (2 if r < 0.8 else 3)
        if tags.get('elas') and rng.random() < 0.6:
            k = 3
        if ctor == 'rn':
            k = max(k, bs)                          # rootnode_solver demands B.shape[1] >= blocksize
        if r < 0.25 and not tags.get('elas'):
            k = bs if (ctor == 'rn' or fmt == 'bsr') else 1      # B = None: the constructor's default candidates
        else:
            kw['B'] = gen_B(rng, n, k, tags['complex'])
            if kw['symmetry'] == 'nonsymmetric' and rng.random() < 0.5:
                kw['BH'] = gen_B(rng, n, k, tags['complex'])
                if kw['BH'].ndim != kw['B'].ndim:
                    kw['BH'] = kw['BH'].reshape(n, -1)
    restrict_unsupported(ctor, kw, fmt, bs, dtype, k, tags)
    if ctor in ('sa', 'rn') and fmt != 'bsr' and k == 1 and dtype is None and rng.random() < 0.10:
        add_predefined(rng, ctor, D, kw)
    return {'ctor': ctor, 'A': D, 'fmt': fmt, 'bs': bs, 'dtype': dtype, 'kw': kw, 'seed': int(rng.integers(2 ** 31)),
            'tags': tags}


# ------------------------------------------------------------------------------------------------
# running a constructor with the step calls recorded
# ------------------------------------------------------------------------------------------------

SPLITTERS = ('RS', 'PMIS', 'PMISc', 'CLJP', 'CLJPc', 'CR')


def inner_targets(ctor, mod):
    """(object, attribute, kind): the functions called inside the step whose results its guard reads (extension E13):
    the C/F splitting, the row filter of AIR (nnz of the filtered matrix), fit_candidates (number of aggregates and of
    candidates = columns of P), pairwise_aggregation (shape of P)"""
    out = []
    if ctor == 'rs':
        out += [(mod.split, f, 'split') for f in SPLITTERS if hasattr(mod.split, f)]
        out += [(mod, 'CR', 'split')] if hasattr(mod, 'CR') else []
    elif ctor == 'air':
        out += [(mod, f, 'split') for f in SPLITTERS if hasattr(mod, f)]
        out += [(mod, 'filter_matrix_rows', 'filter')]
    elif ctor in ('sa', 'rn'):
        out += [(mod, 'fit_candidates', 'fit')]
    else:
        out += [(mod, 'pairwise_aggregation', 'pw')]
    return out


@contextlib.contextmanager
def traced(ctor):
    modname, _, stepname = CT[ctor]
    mod = importlib.import_module(modname)
    orig = getattr(mod, stepname, None)
    calls = []
    if orig is None:
        yield None
        return
    cur = [None]

    def wrapper(levels, *a, **k):
        rec = {'state': np.random.get_state(), 'nlev': len(levels), 'A': levels[-1].A.copy(),
               'B': getattr(levels[-1], 'B', None), 'args': a, 'inner': {}}
        calls.append(rec)
        cur[0] = rec
        try:
            ret = orig(levels, *a, **k)
        finally:
            cur[0] = None
        rec['ret'] = bool(ret)
        rec['nlev_after'] = len(levels)
        return ret

    def spy(f, kind):
        def inner(*a, **k):
            out = f(*a, **k)
            rec = cur[0]
            if rec is not None:
                try:
                    if kind == 'split':
                        rec['inner']['split'] = np.array(out).copy()        # nested calls: the outermost returns last
                    elif kind == 'filter':
                        rec['inner']['nnz'] = int(a[0].nnz)                 # filtered in place
                        if rec['nlev'] == 1:
                            rec['inner']['Af'] = a[0].copy()                # level 0: the filtered deep copy the step works with
                    elif kind == 'fit':
                        rec['inner'].setdefault('fit', (int(a[0].shape[1]), int(np.asarray(a[1]).shape[1])))
                    elif kind == 'pw':
                        rec['inner']['P'] = (int(out[0].shape[0]), int(out[0].shape[1]))
                except Exception:  # noqa: BLE001
                    rec['inner']['spy-failed'] = kind
            return out
        return inner

    saved = []
    for obj, attr, kind in inner_targets(ctor, mod):
        f = getattr(obj, attr)
        saved.append((obj, attr, f))
        setattr(obj, attr, spy(f, kind))
    setattr(mod, stepname, wrapper)
    try:
        yield calls
    finally:
        setattr(mod, stepname, orig)
        for obj, attr, f in saved:
            setattr(obj, attr, f)


SCALAR_OPTS = ('max_levels', 'max_coarse', 'keep', 'symmetry')


class BuildTimeout(Exception):
    pass


@contextlib.contextmanager
def time_limit(seconds):
    """a loop that never leaves (e.g. a stalled step that is not honoured) must not hang the check"""
    import signal

    def handler(signum, frame):
        raise BuildTimeout(f'the constructor did not return within {seconds} s')

    old = signal.signal(signal.SIGALRM, handler)
    signal.alarm(seconds)
    try:
        yield
    finally:
        signal.alarm(0)
        signal.signal(signal.SIGALRM, old)


def build(case, shared=None):
    """returns (ml, calls, Ain, D0) or raises; shared = {'Ain', 'D0', 'live_kw'} (call histories): the matrix OBJECT an
    earlier constructor call already received (D0 = its values before the first call) and, for a repeated call, the very
    option objects that call was given"""
    import pyamg  # noqa: F401
    ctor = case['ctor']
    modname, fname, _ = CT[ctor]
    fn = getattr(importlib.import_module(modname), fname)
    if shared is None:
        Ain = make_input(case['A'], case['fmt'], case['bs'], case.get('dtype'))
        D0 = dense(Ain).copy()
    else:
        Ain, D0 = shared['Ain'], shared['D0']
    kw = copy.deepcopy(case['kw'])
    if shared is not None and shared.get('live_kw') is not None:
        # the option objects of the earlier call (lists / tuples / dictionaries / B as that call left them), new scalars
        live = dict(shared['live_kw'])
        for key in SCALAR_OPTS:
            live.pop(key, None)
            if key in kw:
                live[key] = kw[key]
        kw = live
    case['_live_kw'] = kw
    np.random.seed(case['seed'])
    with traced(ctor) as calls, time_limit(30):
        ml = fn(Ain, **kw)
    return ml, calls, Ain, D0


# ------------------------------------------------------------------------------------------------
# independent oracles
# ------------------------------------------------------------------------------------------------

def kind_of(opt):
    """shape of a strength / aggregate argument for `levelize` (Lean: OptKind)"""
    if isinstance(opt, tuple):
        return 'ptuple' if opt[0] == 'predefined' else 'plain'
    if isinstance(opt, list):
        last = opt[-1]
        if isinstance(last, tuple) and last[0] == 'predefined':
            return f'plist:{len(opt)}'
        return f'list:{len(opt)}'
    return 'plain'


def py_levelize(kind, ML, MC):
    if kind == 'ptuple':
        return 2, 0, 1
    if kind.startswith('plist:'):
        k = int(kind[6:])
        return k + 1, 0, k
    if kind.startswith('list:'):
        k = int(kind[5:])
        return ML, MC, max(k, ML - 1)
    return ML, MC, max(ML - 1, 0)


def kinds_of(case):
    """shapes of the levelized options in the order the constructor levelizes them (sa / rootnode: aggregate, strength,
    then aggregate once more with the final limits)"""
    kw = case['kw']
    if case['ctor'] in ('sa', 'rn'):
        a, s = kind_of(kw.get('aggregate', 'standard')), kind_of(kw.get('strength', 'symmetric'))
        return [a, s, a]
    if case['ctor'] == 'pw':
        return [kind_of(kw.get('aggregate', ('pairwise', {})))]
    return []


def py_limits(case):
    """effective (max_levels, max_coarse) and, when a levelized option list ends up shorter than the final
    max_levels - 1 (another predefined list raised max_levels afterwards), the name of that option"""
    ML, MC = case['kw']['max_levels'], case['kw']['max_coarse']
    lens = []
    for k in kinds_of(case):
        ML, MC, ln = py_levelize(k, ML, MC)
        lens.append(ln)
    short = None
    if len(lens) == 3 and (lens[1] < ML - 1 or lens[2] < ML - 1):
        short = 'strength' if lens[1] < ML - 1 else 'aggregate'
    return ML, MC, short


def level_opt(opt, k):
    if isinstance(opt, list):
        return opt[min(k, len(opt) - 1)]
    return opt


def unpack_arg(v):
    if isinstance(v, tuple):
        return v[0], dict(v[1])
    return v, {}


def filter_dense(A, theta, lump):
    """filter_matrix_rows(A, theta, diagonal=True, lump): drop a_ij (j != i) with |a_ij| < theta |a_ii|"""
    A = np.array(A)
    n = A.shape[0]
    for i in range(n):
        thr = theta * abs(A[i, i])
        row = A[i].copy()
        drop = (np.abs(row) < thr) & (row != 0)
        drop[i] = False
        if drop.any():
            if lump:
                s = A[i, i]
                for j in np.nonzero(drop)[0]:       # same order as the kernel: left to right
                    s = s + A[i, j]
                A[i, i] = s
            A[i, drop] = 0
    return A


def strength_of(A, spec, B=None):
    from pyamg import strength as S
    fn, kw = unpack_arg(spec)
    if fn == 'symmetric':
        return S.symmetric_strength_of_connection(A, **kw)
    if fn == 'classical':
        return S.classical_strength_of_connection(A, **kw)
    if fn in ('ode', 'evolution'):
        if B is not None and 'B' not in kw:
            return S.evolution_strength_of_connection(A, B, **kw)
        return S.evolution_strength_of_connection(A, **kw)
    if fn == 'energy_based':
        return S.energy_based_strength_of_connection(A, **kw)
    if fn == 'algebraic_distance':
        return S.algebraic_distance(A, **kw)
    if fn == 'affinity':
        return S.affinity_distance(A, **kw)
    if fn == 'predefined':
        return kw['C'].tocsr()
    if fn is None:
        return A.tocsr() if sp.issparse(A) else A
    raise KeyError(fn)


def split_of(C, spec):
    from pyamg.classical import split
    fn, kw = unpack_arg(spec)
    return getattr(split, fn)(C, **kw)


def aggregate_of(C, A, spec):
    from pyamg.aggregation import aggregate as AG
    fn, kw = unpack_arg(spec)
    if fn == 'standard':
        return AG.standard_aggregation(C, **kw)[0]
    if fn == 'naive':
        return AG.naive_aggregation(C, **kw)[0]
    if fn == 'lloyd':
        return AG.lloyd_aggregation(C, **kw)[0]
    if fn == 'pairwise':
        return AG.pairwise_aggregation(A, **kw)[0]
    if fn == 'predefined':
        return kw['AggOp'].tocsr()
    raise KeyError(fn)


def next_rows_oracle(case, rec):
    """rows of the level the step should produce from the recorded last level, recomputed from the public
    building blocks (None = the step legitimately bails out); raises when it cannot judge"""
    ctor, kw = case['ctor'], case['kw']
    A = rec['A']
    n = A.shape[0]
    k = rec['nlev'] - 1
    np.random.set_state(rec['state'])
    if ctor in ('rs', 'air'):
        if ctor == 'air':
            fo = kw.get('filter_operator')
            if fo is not None and fo[1] != 0:
                F = sp.csr_array(filter_dense(A.toarray(), fo[1], fo[0]))
                A = gen.int32csr(F) if A.format == 'csr' else make_input(F.toarray(), 'bsr', blocksize_of(A))
            if A.nnz == n:
                return None
        C = strength_of(A, kw.get('strength'))
        spl = np.asarray(split_of(C, kw.get('CF', 'RS')))
        nc, ns = int(spl.sum()), len(spl)                 # BSR input: the splitting is over block rows
        return None if nc in (0, ns) else nc * (n // ns)
    if ctor == 'pw':
        from pyamg.aggregation.aggregate import pairwise_aggregation
        _, akw = unpack_arg(level_opt(kw['aggregate'], k))
        P = pairwise_aggregation(A, **akw, compute_P=True)[0]
        return None if P.shape[1] >= P.shape[0] else int(P.shape[1])
    # sa / rn
    from pyamg.util.utils import eliminate_diag_dom_nodes
    B = rec['B']
    C = strength_of(A, level_opt(kw.get('strength', 'symmetric'), k), B)
    flag, dkw = unpack_arg(kw.get('diagonal_dominance', False))
    if flag:
        C = eliminate_diag_dom_nodes(A, C, **dkw)
    Agg = aggregate_of(C, A, level_opt(kw.get('aggregate', 'standard'), k))
    ncand = B.shape[1] if ctor == 'sa' else blocksize_of(A)
    nc = int(Agg.shape[1]) * int(ncand)
    return None if nc >= n else nc


def galerkin_excess(Ac, R, A, P):
    """max over entries of |Ac - RAP| / (|R||A||P|) (0/0 = 0)"""
    G = R @ (A @ P)
    Bd = np.abs(R) @ (np.abs(A) @ np.abs(P))
    # the bound is RELATIVE to the entries (a globally tiny matrix is judged as strictly as an O(1) one); UNDERFLOW_ABS absorbs
    # the absolute error of partial products that underflow (weak couplings of 1e-200 and below, subnormals)
    floor = max(UNDERFLOW_ABS, float(np.finfo(Ac.dtype).tiny) * 1e8) if Ac.dtype.kind in 'fc' else UNDERFLOW_ABS   # float32: 1e-30
    E = np.maximum(np.abs(Ac - G) - floor, 0.0)
    with np.errstate(divide='ignore', invalid='ignore', over='ignore'):
        q = np.where(E == 0, 0.0, E / Bd)
    return float(np.max(q)) if q.size else 0.0, G


UNDERFLOW_ABS = 1e-300


def lg_min(M):
    """log10 of the smallest non-zero modulus (0 for an O(1) or empty matrix)"""
    a = np.abs(M[M != 0])
    return min(0.0, float(np.log10(a.min()))) if a.size else 0.0


def judge(case, ml, calls, Ain, D0):
    """independent NumPy oracle of every clause; returns (violations [(clause, text, fkey)], info)"""
    ctor, kw = case['ctor'], case['kw']
    out = []
    lv = ml.levels
    m = len(lv)
    info = {'m': m}
    if m < 1:
        return [('levels', 'the constructor returned no level', None)], info
    for L in lv:
        if not hasattr(L, 'A') or L.A is None:
            return [('levels', 'a level has no matrix A', None)], info
    rows = [int(L.A.shape[0]) for L in lv]
    bss = [blocksize_of(L.A) for L in lv]
    info['rows'], info['bs'] = rows, bss
    Ds = [dense(L.A) for L in lv]
    if not all(np.isfinite(d).all() for d in Ds):
        info['nonfinite'] = True
        return out, info
    eps = float(np.finfo(Ds[0].dtype).eps) if Ds[0].dtype.kind in 'fc' else 2.2e-16
    tol = max(1e-10, 2000 * eps)
    info['tol'] = tol
    # ---- finest level: the user's values, and the user's object untouched
    want = D0.astype(Ds[0].dtype) if D0.dtype.kind in 'iub' else D0
    if Ds[0].shape != want.shape or not np.array_equal(Ds[0], want):
        out.append(('finest', f'levels[0].A differs from the user\'s matrix (max |diff| = '
                    f'{float(np.abs(Ds[0] - want).max()) if Ds[0].shape == want.shape else "shape"})', None))
    if not np.array_equal(dense(Ain), D0):
        out.append(('finest', 'the constructor modified the user\'s matrix in place', None))
    # ---- per level
    symrel = {'rs': 'symm', 'pw': 'herm', 'air': 'none'}.get(ctor) or \
        {'hermitian': 'herm', 'symmetric': 'symm', 'nonsymmetric': 'none'}[kw.get('symmetry', 'hermitian')]
    info['sym'] = symrel
    fo = kw.get('filter_operator') if ctor == 'air' else None
    filtering = fo is not None and fo[1] != 0
    attempted = set(c['nlev'] - 1 for c in calls) if calls is not None else None
    Ps, Rs = [], []
    for l in range(m - 1):
        L = lv[l]
        if not hasattr(L, 'P') or not hasattr(L, 'R') or L.P is None or L.R is None:
            out.append(('dims', f'level {l} has no P or no R', None))
            return out, info
        P, R = dense(L.P), dense(L.R)
        Ps.append(P)
        Rs.append(R)
        nf, nc = rows[l], rows[l + 1]
        if Ds[l].shape != (nf, nf):
            out.append(('dims', f'level {l}: A is {Ds[l].shape}, not square', None))
        if P.shape != (nf, nc) or R.shape != (nc, nf) or Ds[l + 1].shape != (nc, nc):
            out.append(('dims', f'level {l}: A {Ds[l].shape}, P {P.shape}, R {R.shape}, next A {Ds[l + 1].shape}', None))
            return out, info
        if not (np.isfinite(P).all() and np.isfinite(R).all()):
            info['nonfinite'] = True
            return out, info
        if lg_min(R) + lg_min(Ds[l]) + lg_min(P) < -280:
            info['underflow'] = True      # a product of stored entries may underflow: exact arithmetic (Lean) is no reference
        # R versus P
        if symrel == 'symm' and not np.array_equal(R, P.T):
            out.append(('transpose', f'level {l}: R != P^T (max |R - P^T| = {float(np.abs(R - P.T).max()):.3g})', None))
        if symrel == 'herm' and not np.array_equal(R, P.conj().T):
            out.append(('transpose', f'level {l}: R != P^H (max |R - P^H| = {float(np.abs(R - P.conj().T).max()):.3g})', None))
        # Galerkin
        refilt = filtering and (l + 1 < m - 1 or (attempted is not None and (l + 1) in attempted))

        def galerkin_bad(Af, refilt=refilt):
            q, G = galerkin_excess(Ds[l + 1], R, Af, P)
            if refilt:
                # the coarse matrix was filtered in place afterwards: compare with the definition of the filter
                return q, filtered_mismatch(Ds[l + 1], G, fo[1], fo[0], tol, np.abs(R) @ (np.abs(Af) @ np.abs(P)))
            return q, (None if q <= tol else f'|A_c - R A P| / (|R||A||P|) = {q:.3g} > {tol:.1g}')

        Af = filter_dense(D0.astype(Ds[0].dtype), fo[1], fo[0]) if (filtering and l == 0) else Ds[l]
        q, bad = galerkin_bad(Af)
        if bad is None and not refilt:
            info['galerkin_q'] = max(info.get('galerkin_q', 0.0), q)
        if bad is not None:
            fkey = None
            if filtering and lv[0].A.format == 'bsr' and (galerkin_bad(Ds[l])[1] is None or galerkin_bad(Ds[l], False)[1] is None):
                fkey = 'air-bsr-filter-noop'      # BSR input: filter_matrix_rows works on a CSR copy, nothing is filtered
            what = 'the FILTERED matrix ' if filtering else ''
            out.append(('galerkin', f'level {l + 1}: A is not R * {what}A * P of level {l}: {bad}', fkey))
    # ---- no empty level (a 0 x 0 "level": the step went on where it had nothing left to coarsen)
    if min(rows) == 0:
        out.append(('empty-level', f'a level has no unknowns: sizes {rows}', None))
    # ---- sizes strictly decrease
    for l in range(m - 1):
        if not rows[l + 1] < rows[l]:
            out.append(('decrease', f'level sizes do not strictly decrease: {rows}', None))
            break
    # ---- limits
    ML, MC, short = py_limits(case)
    info['ML'], info['MC'] = ML, MC
    node = [r // b if BLOCKWISE[ctor] else r for r, b in zip(rows, bss)]
    info['node'] = node
    if m > ML:
        out.append(('max_levels', f'{m} levels for max_levels = {ML} (sizes {rows})', None))
    for l in range(m - 1):
        if node[l] <= MC:
            out.append(('max_coarse', f'level {l} with {node[l]} <= max_coarse = {MC} unknowns was coarsened (sizes {node})', None))
            break
    return out, info


def filtered_mismatch(S, G, theta, lump, tol, Bd):
    """S should be filter(G) (filter_matrix_rows, diagonal=True) up to rounding; decisions within 1e-8 of the
    threshold may go either way"""
    n = G.shape[0]
    slack = 1e-8
    for i in range(n):
        thr = theta * abs(G[i, i])
        acc = G[i, i]
        for j in range(n):
            if j == i:
                continue
            g, s = G[i, j], S[i, j]
            tolij = tol * Bd[i, j] + 1e-300
            if s == 0 and abs(g) <= tolij:
                continue
            if s == 0:
                if not abs(g) < thr * (1 + slack) + tolij:
                    return f'entry ({i},{j}) = {g:.6g} was dropped although it is not below theta |a_ii| = {thr:.6g}'
                acc = acc + g if lump else acc
            else:
                if abs(s - g) > tolij:
                    return f'entry ({i},{j}) is {s:.6g}, R A P gives {g:.6g}'
                if abs(g) < thr * (1 - slack) - tolij:
                    return f'entry ({i},{j}) = {g:.6g} was kept although it is below theta |a_ii| = {thr:.6g}'
        if abs(S[i, i] - acc) > tol * (Bd[i].sum()) + 1e-300:
            return f'diagonal entry {i} is {S[i, i]:.6g}, expected {acc:.6g}'
    return None


# ------------------------------------------------------------------------------------------------
# extension E27: the sparse-algebra model (ext_spmm / ext_convert) against scipy.sparse on real level operators
# ------------------------------------------------------------------------------------------------

def _fr(x):
    a, b = x.as_integer_ratio()          # lowest terms, b > 0: the canonical form of common.enc_rat, without Fraction objects
    return str(a) if b == 1 else f'{a}/{b}'


def sp_vals(v, cplx=None):
    """comma list of exact values of a float / complex array (`re|im` when complex)"""
    v = np.asarray(v).reshape(-1)
    if v.size == 0:
        return '-'
    if np.iscomplexobj(v) if cplx is None else cplx:
        v = v.astype(complex)
        return ','.join(_fr(a) + '|' + _fr(b) for a, b in zip(v.real.tolist(), v.imag.tolist()))
    return ','.join(_fr(a) for a in v.astype(float).tolist())


def sp_ints(v):
    v = np.asarray(v).reshape(-1)
    return ','.join(map(str, v.tolist())) if v.size else '-'


def sp_token(M):
    """raw arrays of a scipy.sparse object (or an ndarray) as a matrix token of the ext_spmm / ext_convert ops"""
    if isinstance(M, np.ndarray):
        return f'dense:{M.shape[0]}:{M.shape[1]}:' + sp_vals(M)
    if M.format not in ('csr', 'csc', 'coo', 'bsr'):
        M = M.tocsr()
    r, c = M.shape
    if M.format == 'coo':
        return f'coo:{r}:{c}:{sp_ints(M.row)}:{sp_ints(M.col)}:{sp_vals(M.data)}'
    nnz = int(M.indptr[-1])
    if M.format == 'bsr':
        br, bc = M.blocksize
        return f'bsr:{r}:{c}:{br}:{bc}:{sp_ints(M.indptr)}:{sp_ints(M.indices[:nnz])}:{sp_vals(M.data[:nnz])}'
    return f'{M.format}:{r}:{c}:{sp_ints(M.indptr)}:{sp_ints(M.indices[:nnz])}:{sp_vals(M.data[:nnz])}'


def sp_dense_str(D):
    """the reply format of the dense meaning: row-major `re|im`"""
    return sp_vals(D, cplx=True)


def sp_raw_str(C):
    """raw CSR arrays of a scipy CSR result in the reply format"""
    nnz = int(C.indptr[-1])
    return f'{C.shape[0]}:{C.shape[1]}:{sp_ints(C.indptr)}:{sp_ints(C.indices[:nnz])}:{sp_vals(C.data[:nnz], cplx=True)}'


def sp_snap(M):
    """the same stored pattern with the values snapped to the dyadic grid 2^-6 Z, clipped to [-16, 16]: sums of
    <= 24 * 24 triple products are then exact in float64, so scipy returns the exact product whatever its order"""
    def q(x):
        x = np.asarray(x)
        if np.iscomplexobj(x):
            return q(x.real) + 1j * q(x.imag)
        return np.clip(np.round(x.astype(float) * 64.0) / 64.0, -16.0, 16.0)
    if isinstance(M, np.ndarray):
        return q(M)
    if M.format not in ('csr', 'csc', 'coo', 'bsr'):
        M = M.tocsr()
    if M.format == 'coo':
        return sp.coo_array((q(M.data), (M.row.copy(), M.col.copy())), shape=M.shape)
    return type(M)((q(M.data), M.indices.copy(), M.indptr.copy()), shape=M.shape)


def sp_variants(Aq, rng):
    """the snapped finest matrix stored in the other input formats (same dense meaning)"""
    out = {'csc': Aq.tocsc(), 'dense': Aq.toarray()}
    C = Aq.tocoo()
    row, col, dat = C.row.copy(), C.col.copy(), C.data.copy()
    if len(dat):
        dup = rng.random(len(dat)) < 0.5            # split half of the entries in two (exact: the grid is dyadic)
        row = np.concatenate([row, row[dup], row[:1]])
        col = np.concatenate([col, col[dup], col[:1]])
        dat = np.concatenate([np.where(dup, dat / 2, dat), dat[dup] / 2, dat[:1] * 0])   # and one explicit zero
        perm = rng.permutation(len(dat))
        row, col, dat = row[perm], col[perm], dat[perm]
    out['coo'] = sp.coo_array((dat, (row, col)), shape=Aq.shape)
    for b in (3, 2, 1):
        if Aq.shape[0] % b == 0 and Aq.shape[1] % b == 0:
            out['bsr'] = sp.bsr_array(Aq.tocsr(), blocksize=(b, b))
            break
    return out


def queue_spmm(ctx, case, ml, info, bad, pending, viol):
    """extension E27 (see the module docstring): (a) real A_c vs exact model product, (b) scipy vs model on the dyadic
    grid, (c) conversions and the Galerkin product through the other input formats"""
    lv = ml.levels
    m = len(lv)
    tol = info['tol']
    rng = np.random.default_rng(int(case.get('seed', 0)) % (2 ** 32))
    for l in range(m - 1):
        L = lv[l]
        R, A, P, Ac = L.R, L.A, L.P, dense(lv[l + 1].A)
        if not all(sp.issparse(X) for X in (R, A, P)):
            ctx.feat('spmm:operand-not-sparse')
            continue
        ctx.feat(f'spmm:formats:{R.format}/{A.format}/{P.format}')
        numpy_ok = not any(b[0] == 'galerkin' and b[1].startswith(f'level {l + 1}:') for b in bad)
        Bd = np.abs(dense(R)) @ (np.abs(dense(A)) @ np.abs(dense(P)))
        # (a) the real level operators, exact rational values of the stored floats
        pending.append(('xgal', f'ext_spmm galerkin {sp_token(R)} {sp_token(A)} {sp_token(P)}',
                        {'Ac': Ac, 'Bd': Bd, 'tol': tol, 'numpy_ok': numpy_ok, 'level': l}, case, viol))
        # (b) the same stored patterns on the dyadic grid: scipy is exact there
        Rq, Aq, Pq = sp_snap(R), sp_snap(A), sp_snap(P)
        S = Rq @ Aq @ Pq
        want = sp_dense_str(S.toarray())
        raw = sp_raw_str(S) if all(X.format == 'csr' for X in (Rq, Aq, Pq)) and S.format == 'csr' else None
        pending.append(('xdy', f'ext_spmm galerkin {sp_token(Rq)} {sp_token(Aq)} {sp_token(Pq)}',
                        {'dense': want, 'raw': raw, 'what': 'galerkin'}, case, viol))
        if l == 0:
            # (c) the finest matrix through the other input formats
            for fmt, X in sp_variants(Aq.tocsr(), rng).items():
                C = sp.csr_array(X) if isinstance(X, np.ndarray) else X.tocsr()
                pending.append(('xdy', f'ext_convert {sp_token(X)}',
                                {'dense': sp_dense_str(C.toarray()), 'raw': sp_raw_str(C), 'what': 'convert:' + fmt}, case, viol))
                pending.append(('xdy', f'ext_spmm galerkin {sp_token(Rq)} {sp_token(X)} {sp_token(Pq)}',
                                {'dense': want, 'raw': None, 'what': 'galerkin-via:' + fmt}, case, viol))
            # P.T.tocsr() / P.T.conjugate() as the constructors compute R
            Pc = Pq.tocsr()
            T = Pc.T.tocsr()
            pending.append(('xtr', f'ext_spmm transpose {sp_token(Pc)}',
                            {'dense': sp_dense_str(T.toarray()), 'raw': sp_raw_str(T)}, case, viol))
            H = Pc.T.conjugate().tocsr()
            pending.append(('xdy', f'ext_spmm conjT {sp_token(Pc)}',
                            {'dense': sp_dense_str(H.toarray()), 'raw': sp_raw_str(H), 'what': 'conjT'}, case, viol))


def flush_spmm(ctx, what, line, impl, case, o):
    """compare one ext_spmm / ext_convert reply"""
    parts = o.split(';')
    if o.startswith('error') or len(parts) < 2:
        ctx.corr('ext_spmm', {'line': line[:600], 'ctor': case['ctor']}, o, 'a product / conversion')
        return
    if what == 'xgal':
        Ac, Bd, tol = impl['Ac'], impl['Bd'], impl['tol']
        vals = dec_list(parts[-1], dec_crat)
        G = np.array([complex(float(a), float(b)) for a, b in vals]).reshape(Ac.shape)
        E = np.abs(Ac - G)
        with np.errstate(divide='ignore', invalid='ignore'):
            q = np.where(E == 0, 0.0, E / Bd)
        qm = float(np.max(q)) if q.size else 0.0
        ctx.feat('spmm:galerkin-real' + (':exact' if qm == 0.0 else ''))
        if qm > 0:
            ctx.rel_err(qm)
            if qm > 1e-13:
                ctx.feat('spmm:galerkin-real:rounding>1e-13')
        if impl['numpy_ok'] and not qm <= 10 * tol:
            ctx.corr('ext_spmm', {'line': line[:600], 'ctor': case['ctor'], 'level': impl['level']},
                     f'|A_c - model(R @ A @ P)| / (|R||A||P|) = {qm:.3g}', f'NumPy oracle: within {tol:.1g}')
        elif not impl['numpy_ok'] and qm < tol / 10:
            ctx.corr('ext_spmm', {'line': line[:600], 'ctor': case['ctor'], 'level': impl['level']},
                     f'model product agrees with A_c ({qm:.3g})', 'NumPy oracle: Galerkin clause violated')
        return
    if parts[-1] != impl['dense']:
        ctx.corr('ext_convert' if line.startswith('ext_convert') else 'ext_spmm',
                 {'line': line[:600], 'ctor': case['ctor'], 'what': impl.get('what', 'transpose')}, parts[-1][:400], impl['dense'][:400])
        return
    if what == 'xtr':
        ctx.feat('spmm:transpose')
        # both transposes of the model (function and csr_tocsc arrays) against scipy's arrays
        ctx.feat('spmm:layout-same' if parts[0] == impl['raw'] and parts[1] == impl['raw'] else 'spmm:layout-differs:transpose')
        if parts[0] != parts[1]:
            ctx.corr('ext_spmm', {'line': line[:600], 'what': 'transpose vs transposeArr'}, parts[0][:300], parts[1][:300])
        return
    ctx.feat('spmm:' + impl['what'])
    if impl['raw'] is not None:
        ctx.feat('spmm:layout-same' if parts[0] == impl['raw'] else 'spmm:layout-differs:' + impl['what'].split(':')[0])


# ------------------------------------------------------------------------------------------------
# one case end to end
# ------------------------------------------------------------------------------------------------

EXPECTED_REJECTIONS = ('not verified for complex', 'must not contain infs or NaNs')


def enc_mat(M):
    M = np.asarray(M)
    r, c = M.shape
    f = enc_crat if np.iscomplexobj(M) else enc_rat
    return f'{r}:{c}:' + enc_list(M.reshape(-1), f)


def enc_mat_fast(M):
    """`enc_mat` without Fraction objects (same text): hierarchies beyond 24 unknowns have 10^4 entries"""
    M = np.asarray(M)
    r, c = M.shape
    return f'{r}:{c}:' + sp_vals(M)


def hier_tokens(levels):
    """`A0 P0 R0 A1 ... Ak` as the checker ops read them"""
    toks = []
    m = len(levels)
    for l, L in enumerate(levels):
        toks.append(enc_mat_fast(dense(L.A)))
        if l < m - 1:
            toks.append(enc_mat_fast(dense(L.P)))
            toks.append(enc_mat_fast(dense(L.R)))
    return toks


LEAN_TOL = '1/10000000000'
LEAN_SLACK = '1/100000000'


def lean_big_ok(ctx, rows):
    """extension E50: hierarchies with more than LEAN_NMAX unknowns go through the proved checker as far as a budget of
    estimated Lean + encoding time allows (4e-5 s per entry of the level matrices, measured), spread evenly over the run;
    deterministic (no clock).  Replays and deep searches check everything."""
    if rows[0] > ctx.scale(96, 150):
        return False
    if ctx.deep or ctx.replay_case is not None:
        return True
    st = ctx.__dict__.setdefault('_c04x', {'spent': 0.0, 'frac': 1.0})
    cost = 4e-5 * sum(r * r for r in rows) + 0.002
    if st['spent'] + cost > ctx.scale(12.0, 400.0) * st['frac']:
        ctx.feat('lean-big-skipped-budget')
        return False
    st['spent'] += cost
    return True


def step_token(ctor, rec):
    """the numbers the guard of the real step read (traced inside the step), encoded for `ext_c04_step`; None = the step
    did not get as far as computing them"""
    A = rec['A']
    bs = blocksize_of(A)
    inn = rec.get('inner', {})

    def bits(v):
        return ''.join(str(int(x)) for x in np.asarray(v).reshape(-1)) or '-'

    if ctor == 'rs':
        return bits(inn['split']) if 'split' in inn else None
    if ctor == 'air':
        nnz = inn.get('nnz', int(A.nnz))       # no filtering: the guard reads levels[-1].A itself
        return f'{nnz}:' + (bits(inn['split']) if 'split' in inn else '-')
    if ctor == 'sa':
        return f'{inn["fit"][0]}:{inn["fit"][1]}' if 'fit' in inn else None
    if ctor == 'rn':
        if 'fit' not in inn:
            return None
        # rootnode fits B[:, 0:blocksize]: the model derives the columns of P from the block size
        return f'{inn["fit"][0]}' if inn['fit'][1] == bs else f'{inn["fit"][0]}:{inn["fit"][1]}'
    return f'{inn["P"][0]}:{inn["P"][1]}' if 'P' in inn else None


def queue_steps(ctx, case, ml, calls, info, ML, MC, reason, real_calls, pending, viol):
    """extension E13: every call of the real step against the model of its guard, and the whole loop built from them"""
    ctor = case['ctor']
    rows, bss = info['rows'], info['bs']
    toks = []
    for rec in calls:
        k = rec['nlev'] - 1
        if 'ret' not in rec or k >= len(rows):
            return
        tok = step_token(ctor, rec)
        if tok is None:
            ctx.feat('step-untraced:' + ctor)
            return
        toks.append(tok)
        frows, fbs = int(rec['A'].shape[0]), blocksize_of(rec['A'])
        if rec['ret']:
            impl = 'stall'
        elif k + 1 < len(rows):
            impl = f'proceed {rows[k + 1]} {bss[k + 1]}'
            if BLOCKWISE[ctor] and not rows[k + 1] // bss[k + 1] < frows // fbs:
                ctx.feat('sa-nodes-not-decreasing' if ctor == 'sa' and rec['inner'].get('fit', (0, fbs))[1] < fbs
                         else 'nodes-not-decreasing:' + ctor)
        else:
            impl = 'proceed without a new level'
        ctx.feat(f'step:{ctor}:' + ('stall' if rec['ret'] else 'proceed') + (':bsr' if fbs > 1 else ''))
        if ctor == 'air' and rec['ret'] and tok.endswith(':-'):
            ctx.feat('step:air:stall-diagonal')
        pending.append(('xstep', f'ext_c04_step {ctor} {k} {frows} {fbs} {tok}', impl, case, viol))
    line = f'ext_c04_build {ctor} {ML} {MC} {rows[0]} {bss[0]}' + ''.join(' ' + t for t in toks)
    pending.append(('xbuild', line, f'{enc_ints(rows)};{enc_ints(bss)};{reason};{real_calls}', case, viol))


def queue_loop(ctx, case, ml, calls, info, ML, MC, reason, real_calls, want, pending, viol, fo=None, Af0=None):
    """extension E54: the COMPOSED loop model (`c04y_build`: guards of E13 + sparse Galerkin product of E27 + for AIR the
    stored-row filter) fed with the guard numbers, P and R observed on the real run; it must stop where the real loop stopped,
    the proved checker must accept the MODEL's hierarchy (that is the composition theorem), and the model's level matrices must
    be the real ones up to the accumulated rounding bound"""
    ctor = case['ctor']
    lv = ml.levels
    m = len(lv)
    rows, bss = info['rows'], info['bs']
    if calls is None or len(calls) != real_calls or any(rec['nlev'] != k + 1 or 'ret' not in rec for k, rec in enumerate(calls)):
        ctx.feat('yloop:calls-not-one-per-level')
        return
    if not sp.issparse(lv[0].A) or lv[0].A.format not in ('csr', 'bsr'):
        ctx.feat('yloop:level0-not-csr-bsr')
        return
    toks = []
    for k, rec in enumerate(calls):
        g = step_token(ctor, rec)
        if g is None:
            ctx.feat('yloop:step-untraced')
            return
        if k < m - 1:
            P, R = lv[k].P, lv[k].R
            if not (sp.issparse(P) and sp.issparse(R)) or P.format not in ('csr', 'bsr', 'csc', 'coo') or \
                    R.format not in ('csr', 'bsr', 'csc', 'coo'):
                ctx.feat('yloop:operand-not-sparse')
                return
            toks += [g, sp_token(P), sp_token(R)]
        else:
            toks += [g, '-', '-']
    filt = fo is not None and fo[1] != 0
    th, lump = (enc_rat(float(fo[1])), int(bool(fo[0]))) if filt else ('-', 0)
    line = (f'c04y_build {ctor} {info["sym"]} {ML} {MC} {bss[0]} {th} {lump} {LEAN_TOL} {LEAN_SLACK} {sp_token(lv[0].A)} '
            + ' '.join(toks)).rstrip()
    stored = [dense(Af0 if (filt and l == 0) else L.A) for l, L in enumerate(lv)]
    attempted = set(c['nlev'] - 1 for c in calls)
    flags = [int(filt and l >= 1 and (l < m - 1 or l in attempted)) for l in range(m)]
    # accumulated entrywise bound |R_{l-1}| ... |R_0| |A_0| |P_0| ... |P_{l-1}| (lumping moves row sums onto the diagonal)
    bounds = []
    Bd = np.abs(dense(lv[0].A)).astype(float)
    for l in range(m):
        if filt and lump:
            Bd = Bd + np.diag(Bd.sum(axis=1))
        bounds.append(Bd)
        if l < m - 1:
            Bd = np.abs(dense(lv[l].R)) @ (Bd @ np.abs(dense(lv[l].P)))
    impl = {'head': f'{enc_ints(rows)};{enc_ints(bss)};{reason};{real_calls}', 'want': want, 'stored': stored, 'flags': flags,
            'bounds': bounds, 'tol': info['tol'], 'filt': filt}
    pending.append(('yloop', line, impl, case, viol))
    ctx.feat('yloop:' + ctor + (':filtered' if filt else ''))


def flush_loop(ctx, line, impl, case, o):
    parts = o.split(';')
    if o.startswith('error') or len(parts) != 8:
        ctx.corr('c04y_build', {'line': line[:600], 'ctor': case['ctor']}, o[:300], 'a hierarchy')
        return
    head = ';'.join(parts[:4])
    if head != impl['head']:
        ctx.corr('c04y_build', {'line': line[:600], 'ctor': case['ctor'], 'what': 'rows;blocksizes;reason;calls'}, head, impl['head'])
        return
    if (parts[4] == 'ok') != (impl['want'] == 'ok'):
        # the composition theorem says `ok` whenever the observed P, R are well formed: the NumPy oracle found a structural defect
        # (or the model did) that the other side does not see
        ctx.corr('c04y_build', {'line': line[:600], 'ctor': case['ctor'], 'what': 'checker on the model hierarchy'}, parts[4], impl['want'])
        return
    if impl['want'] != 'ok':
        ctx.feat('yloop:structural-defect-agreed')
        return
    near = int(parts[5])
    if near:
        ctx.near_skipped += near
        ctx.feat('yloop:near-threshold-skipped', near)
        return
    if impl['filt'] and parts[6] != enc_ints(impl['flags']):
        ctx.corr('c04y_build', {'line': line[:600], 'ctor': case['ctor'], 'what': 'levels filtered in place'}, parts[6], enc_ints(impl['flags']))
        return
    mats = parts[7].split('&')
    worst = 0.0
    for l, (txt, S, Bd) in enumerate(zip(mats, impl['stored'], impl['bounds'])):
        vals = dec_list(txt, dec_crat)
        G = np.array([complex(float(a), float(b)) for a, b in vals]).reshape(S.shape)
        E = np.abs(S - G)
        with np.errstate(divide='ignore', invalid='ignore'):
            qv = np.where(E == 0, 0.0, E / Bd)
        qm = float(np.max(qv)) if qv.size else 0.0
        worst = max(worst, qm / max(l, 1))
        if (l == 0 and not impl['filt'] and qm != 0.0) or not qm <= 10 * max(l, 1) * impl['tol']:
            ctx.corr('c04y_build', {'line': line[:600], 'ctor': case['ctor'], 'level': l},
                     f'|A_l - model A_l| / bound = {qm:.3g}', f'within {10 * max(l, 1) * impl["tol"]:.1g}')
            return
    if worst > 0:
        ctx.rel_err(worst)
    ctx.feat('yloop:levels-agree' + (':filtered' if impl['filt'] else '') + (':exact' if worst == 0.0 else ''))


def eval_case(ctx, case, pending, shared=None):
    """build, judge with NumPy, queue the Lean requests; returns (ml, calls, violations found by the oracle) or None"""
    ctor, kw = case['ctor'], case['kw']
    ckey = _key(ctor, case['A'].tobytes(), case['fmt'], case['bs'], case.get('dtype'), repr(pack(kw)), case.get('hkey'))
    pcase = None
    hist = case.get('calls_so_far')           # call history on one matrix object: this call is the last of the list
    where = '' if hist is None else \
        f' [call {len(hist)} on the same matrix object, after {", ".join(CT[h["ctor"]][1] for h in hist[:-1]) or "nothing"}]'

    def viol(what, fkey=None):
        nonlocal pcase
        if pcase is None:
            pcase = {'ctor': ctor, 'A': pack(case['A']), 'fmt': case['fmt'], 'bs': case['bs'], 'dtype': case.get('dtype'),
                     'kw': pack(kw), 'seed': case['seed']}
            if hist is not None:
                pcase = history_pcase(case, hist)
        ctx.violation(f'{CT[ctor][1]}: {what}{where}', pcase, fkey=fkey)

    ctx.feat('ctor:' + ctor)
    ctx.feat('fmt:' + case['fmt'] + (str(case['bs']) if case['fmt'] == 'bsr' else ''))
    ctx.feat('fam:' + case['tags'].get('fam', '?'))
    if case['tags'].get('tiny'):
        ctx.feat('tiny:' + case['tags']['tiny'].split(':')[0] + ':' + ctor)
    ML0, MC0 = kw['max_levels'], kw['max_coarse']
    ML, MC, short = py_limits(case)
    try:
        ml, calls, Ain, D0 = build(case, shared)
    except Exception as ex:  # noqa: BLE001
        msg = f'{type(ex).__name__}: {ex}'
        ctx.case(key=ckey, nontrivial=False)
        if any(s in msg for s in EXPECTED_REJECTIONS):
            ctx.feat('rejected-input')
            return
        fkey = None
        if isinstance(ex, IndexError) and short is not None and ctor in ('sa', 'rn'):
            fkey = 'predefined-list-longer-than-other-option-list'
        viol(f'raised {msg[:300]} instead of returning a hierarchy (max_levels={ML0}, max_coarse={MC0})', fkey)
        return
    bad, info = judge(case, ml, calls, Ain, D0)
    result = (ml, calls, bad)
    if info.get('nonfinite'):
        ctx.feat('nonfinite-values-skipped')
        ctx.case(key=ckey, nontrivial=False)
        return result
    m = info['m']
    for clause, text, fkey in bad:
        viol(f'{text} [clause {clause}; max_levels={ML0}, max_coarse={MC0}]', fkey)
    if 'node' not in info:
        ctx.case(key=ckey, nontrivial=False)
        return result
    rows, bss, node = info['rows'], info['bs'], info['node']
    if 'galerkin_q' in info:
        ctx.rel_err(info['galerkin_q'])
    # ---- why did the real loop stop?
    ncalls = len(calls) if calls is not None else None
    if m >= ML:
        reason = 'max_levels'
    elif node[-1] <= MC:
        reason = 'max_coarse'
    else:
        reason = 'stalled'
    probe = None
    if reason == 'stalled':
        rec = calls[-1] if calls and calls[-1]['nlev'] == m else None
        if rec is None:
            # the loop left without calling the step on the last level: recompute on the stored matrix
            rec = {'state': np.random.get_state(), 'nlev': m, 'A': ml.levels[-1].A, 'B': getattr(ml.levels[-1], 'B', None)}
        try:
            probe = next_rows_oracle(case, rec)
            ctx.feat('stall-judged')
        except Exception as ex:  # noqa: BLE001
            probe = None
            ctx.feat('stall-unjudged:' + type(ex).__name__)
        if probe is not None and probe < rows[-1]:
            viol(f'coarsening stopped at {m} levels (sizes {rows}) although the last level has {node[-1]} > max_coarse = {MC} '
                 f'unknowns, max_levels = {ML} is not reached and the step yields a smaller level ({probe} rows)')
        else:
            probe = None
    ctx.feat('exit:' + reason)
    ctx.feat(f'levels:{min(m, 6)}')
    nontrivial = m >= 2 or reason != 'max_levels' or ML0 > 1
    ctx.case(key=ckey, nontrivial=nontrivial,
             sample={'ctor': ctor, 'rows': rows, 'max_levels': ML0, 'max_coarse': MC0, 'exit': reason,
                     'fmt': case['fmt'], 'opts': repr({k: v for k, v in kw.items() if k not in ('B', 'BH')})[:300]}
             if ctx.evaluations % 97 == 0 else None)
    # ---- Lean: the constructor's loop on the observed outcomes
    prow = rows + ([probe] if probe is not None else [])
    pbs = bss + ([bss[-1]] if probe is not None else [])
    line = f'c04_ctor {ctor} {enc_list(kinds_of(case))} {ML0} {MC0} {enc_ints(prow)} {enc_ints(pbs)}'
    real_calls = ncalls if ncalls is not None else (m - 1 + (1 if reason == 'stalled' else 0))
    impl = f'{ML} {MC} {enc_ints(node)};{reason};{real_calls}'
    pending.append(('ctor', line, impl, case, viol))
    if ctx.evaluations % 4 == 0:
        # the bare loop on the sizes the constructor's loop looks at, with the effective limits
        pnode = node + ([probe // pbs[-1] if BLOCKWISE[ctor] else probe] if probe is not None else [])
        pending.append(('coarsen', f'c04_coarsen {ML} {MC} {enc_ints(pnode)}', f'{enc_ints(node)};{reason};{real_calls}', case, viol))
    # ---- Lean: the guards of the steps on the numbers traced inside the real steps
    if calls is not None:
        queue_steps(ctx, case, ml, calls, info, ML, MC, reason, real_calls, pending, viol)
    # ---- Lean: the proved checker (extension E50: any size within the budget, AIR with filtering)
    small = rows[0] <= LEAN_NMAX
    if info.get('underflow'):
        ctx.feat('lean-skipped:products-may-underflow')       # judged by the NumPy oracle (absolute floor UNDERFLOW_ABS) only
    if info.get('tol', 1) <= 1e-10 and all(hasattr(L, 'P') and hasattr(L, 'R') for L in ml.levels[:-1]) and \
            not info.get('underflow') and (small or lean_big_ok(ctx, rows)):
        fo = kw.get('filter_operator') if ctor == 'air' else None
        structural = [b for b in bad if b[0] in ('dims', 'transpose', 'galerkin', 'decrease', 'empty-level')]
        want = 'ok' if not structural else 'fail'
        if not (fo is not None and fo[1] != 0):
            toks = ' '.join(hier_tokens(ml.levels))
            if small:
                pending.append(('check', f'c04_check {info["sym"]} {LEAN_TOL} ' + toks, want, case, viol))
            # the same checker with the product over the non-zeros (check_hier_fast_same)
            pending.append(('check', f'c04x_check {info["sym"]} {LEAN_TOL} ' + toks, want, case, viol))
            ctx.feat('lean-checked-hierarchy' + ('' if small else ':big'))
            # extension E27 on every third (thorough: fourth) of them, on all of them in a replay / deep search
            if small and not any(b[0] in ('dims', 'empty-level') for b in bad) and \
                    (ctx.deep or ctx.replay_case is not None or ctx.evaluations % ctx.scale(3, 4) == 0):
                queue_spmm(ctx, case, ml, info, bad, pending, viol)
            # extension E54: the composed loop model on every third (fourth) small hierarchy
            if small and not any(b[0] in ('dims', 'empty-level') for b in bad) and \
                    (ctx.deep or ctx.replay_case is not None or ctx.evaluations % ctx.scale(3, 4) == 1):
                queue_loop(ctx, case, ml, calls, info, ML, MC, reason, real_calls, want, pending, viol)
        else:
            # AIR with filtering: the filtered copy of level 0 observed inside the real step, in-place filtered coarse levels
            Af0 = next((c['inner'].get('Af') for c in (calls or []) if c['nlev'] == 1 and 'Af' in c.get('inner', {})), None)
            if m == 1:
                # nothing of the returned hierarchy depends on the filter: the plain checker on the single level
                pending.append(('check', f'c04x_check {info["sym"]} {LEAN_TOL} ' + ' '.join(hier_tokens(ml.levels)), want, case, viol))
                ctx.feat('lean-checked-hierarchy' + ('' if small else ':big'))
            elif Af0 is None:
                ctx.feat('lean-filtered:level0-copy-unobserved')
            else:
                attempted = set(c['nlev'] - 1 for c in calls)
                flags = [int(l >= 1 and (l < m - 1 or l in attempted)) for l in range(m)]
                toks = hier_tokens(ml.levels)
                line = (f'c04x_checkf {info["sym"]} {LEAN_TOL} {enc_rat(float(fo[1]))} {int(bool(fo[0]))} {LEAN_SLACK} '
                        f'{enc_ints(flags)} {toks[0]} {enc_mat_fast(dense(Af0))} ' + ' '.join(toks[1:])).rstrip()
                pending.append(('checkf', line, want, case, viol))
                ctx.feat('lean-checked-hierarchy:filtered' + ('' if small else ':big'))
                ctx.feat(f'lean-filtered:inplace-levels:{min(sum(flags), 3)}')
                if small and not any(b[0] in ('dims', 'empty-level') for b in bad):
                    queue_loop(ctx, case, ml, calls, info, ML, MC, reason, real_calls, want, pending, viol, fo=fo, Af0=Af0)
    return result


def lean_retry(ctx, lines):
    """`lake env lean --run Main.lean` fails (rc 1) while another check rebuilds the shared driver's .olean files:
    wait for the build lock, make sure the driver is built, and try again before giving up"""
    import fcntl
    import subprocess
    import time
    import common
    waits = [5, 10, 20, 30, 45]
    for attempt in range(len(waits) + 1):
        try:
            return ctx.lean(lines, chunks=2 if len(lines) > 1500 else 1)
        except common.InfraError:
            if attempt == len(waits):
                raise
            ctx.feat('lean-driver-retry')
            time.sleep(waits[attempt])
            try:
                with open(common.BUILD / '.lean.lock', 'w') as lock:
                    fcntl.flock(lock, fcntl.LOCK_EX)
                    subprocess.run(['lake', 'build', 'PyamgV.Driver.Main'], cwd=common.LEAN, capture_output=True, timeout=900)
            except Exception:  # noqa: BLE001
                pass


def flush(ctx, pending):
    if not pending:
        return
    outs = lean_retry(ctx, [p[1] for p in pending])
    for (what, line, impl, case, viol), o in zip(pending, outs):
        if what in ('xgal', 'xdy', 'xtr'):
            flush_spmm(ctx, what, line, impl, case, o)
            continue
        if what == 'yloop':
            flush_loop(ctx, line, impl, case, o)
            continue
        if what in ('check', 'checkf'):
            # the proved checker and the NumPy oracle judge the same levels: they must agree
            if what == 'checkf' and o.startswith('ok;'):
                k = int(o[3:])
                ctx.near_skipped += k
                if k:
                    ctx.feat('lean-filtered:near-threshold-skipped', k)
                o = 'ok'
            lean_ok, numpy_ok = (o == 'ok'), (impl == 'ok')
            if lean_ok != numpy_ok:
                ctx.corr(line.split(' ', 1)[0], {'line': line[:600], 'ctor': case['ctor']}, o, impl)
                # `level0-filter`: the filtered copy observed inside the step on level 0 is not the model's filter of A0; the
                # property speaks about the returned levels, which the oracle has just judged: correspondence only
                if numpy_ok and o != 'fail:0:level0-filter':
                    viol(f'the proved hierarchy checker rejects the returned levels: {o}')
            continue
        if o != impl:
            op = {'xstep': 'ext_c04_step', 'xbuild': 'ext_c04_build'}.get(what, 'c04_' + what)
            ctx.corr(op, {'line': line[:600], 'ctor': case['ctor']}, o, impl)
    pending.clear()


def levelize_correspondence(ctx):
    from pyamg.util.utils import levelize_strength_or_aggregation as lev
    pre = ('predefined', {'C': None})
    lines, impls = [], []
    for ML in (1, 2, 3, 4, 10):
        for MC in (0, 5):
            for opt in ('standard', ('standard', {}), None, pre, ['a'], ['a', 'b', 'c'], [pre], ['a', pre], [pre, pre, pre],
                        ['a', 'b', 'c', 'd', 'e'], [pre, 'a']):
                o = copy.deepcopy(opt)
                try:
                    ml2, mc2, lst = lev(o, ML, MC)
                    impl = f'{ml2} {mc2} {len(lst)}'
                except Exception as ex:  # noqa: BLE001
                    impl = 'raised ' + type(ex).__name__
                lines.append(f'c04_levelize {kind_of(opt)} {ML} {MC}')
                impls.append((impl, opt, ML, MC))
    outs = lean_retry(ctx, lines)
    for line, o, (impl, opt, ML, MC) in zip(lines, outs, impls):
        ctx.case(key=_key(line), nontrivial=True)
        ctx.feat('levelize')
        if o != impl:
            ctx.corr('c04_levelize', {'line': line}, o, impl)
            want = py_levelize(kind_of(opt), ML, MC)
            if impl != f'{want[0]} {want[1]} {want[2]}':
                ctx.violation(f'levelize_strength_or_aggregation({opt!r}, {ML}, {MC}) gives {impl}, documented behaviour is {want}',
                              {'levelize': repr(opt), 'ML': ML, 'MC': MC})


def filter_correspondence(ctx):
    """extension E50: `C04X.filterMat` (the C19 kernel model applied to every dense row; the function `checkHierF` uses) against
    the real `filter_matrix_rows(A, theta, diagonal=True, lump)` on CSR and BSR storage, exact: values in Z/8, theta dyadic,
    so every float operation of the kernel is exact and ties `|a_ij| = theta |a_ii|` (kept) are frequent; zero and missing
    diagonal entries included.  The reply also says whether `filterMat` equals the entrywise definition `filtDef`
    (proved: filter_dense_definition)."""
    from pyamg.util.utils import filter_matrix_rows
    rng = ctx.np_rng
    lines, impls = [], []
    for _ in range(ctx.scale(60, 400)):
        n = int(rng.integers(1, 10))
        D = rng.integers(-16, 17, size=(n, n)) / 8.0 * (rng.random((n, n)) < float(pick(rng, [0.3, 0.6, 1.0])))
        if rng.random() < 0.6:
            D[np.arange(n), np.arange(n)] = rng.integers(1, 5, size=n) * float(pick(rng, [0.5, 1.0, 2.0])) * rng.choice([-1.0, 1.0], size=n)
        if rng.random() < 0.3:
            D[int(rng.integers(n)), :][int(rng.integers(n))] = 0.0
            D[int(rng.integers(n)), int(rng.integers(n))] = 0.0
            i = int(rng.integers(n))
            D[i, i] = 0.0
        theta = float(pick(rng, [0.125, 0.25, 0.5, 0.75, 0.0]))
        lump = bool(rng.random() < 0.5)
        bs = int(pick(rng, [b for b in (1, 1, 2, 3) if n % b == 0]))
        A = make_input(D, 'bsr' if (bs > 1 or rng.random() < 0.2) else 'csr', bs)
        try:
            filter_matrix_rows(A, theta, diagonal=True, lump=lump)
            impl = sp_dense_str(dense(A))
        except Exception as ex:  # noqa: BLE001
            impl = 'raised ' + type(ex).__name__
        lines.append(f'c04x_filter {enc_rat(theta)} {int(lump)} {enc_mat_fast(D)}')
        impls.append((impl, D, theta, lump, A.format, bs))
    outs = lean_retry(ctx, lines)
    for line, o, (impl, D, theta, lump, fmt, bs) in zip(lines, outs, impls):
        ctx.case(key=_key(line), nontrivial=True)
        ctx.feat(f'filter-kernel:{fmt}{bs if fmt == "bsr" else ""}:' + ('lump' if lump else 'plain'))
        parts = o.split(';')
        if len(parts) != 2 or parts[1] != 'same' or parts[0] != impl:
            ctx.corr('c04x_filter', {'line': line[:600], 'format': fmt, 'bs': bs}, o[:400], impl[:400])
        elif impl != sp_dense_str(D):
            ctx.feat('filter-kernel:changed-something')


# ------------------------------------------------------------------------------------------------
# extension E31: the option handling translated from the source (harness/py2lean.py) vs the real functions
# ------------------------------------------------------------------------------------------------

def _nested_function(path, outer, name):
    import extpy
    return extpy.nested_function(path, outer, name)


PY_UNPACK = [('adaptive_unpack_arg', 'pyamg/aggregation/adaptive.py', None),
             ('sa_unpack_arg', 'pyamg/aggregation/aggregation.py', '_extend_hierarchy'),
             ('rootnode_unpack_arg', 'pyamg/aggregation/rootnode.py', '_extend_hierarchy'),
             ('pairwise_unpack_arg', 'pyamg/aggregation/pairwise.py', '_extend_hierarchy'),
             ('classical_unpack_arg', 'pyamg/classical/classical.py', '_extend_hierarchy'),
             ('air_unpack_arg', 'pyamg/classical/air.py', 'extend_hierarchy'),
             ('multilevel_unpack_arg', 'pyamg/multilevel.py', 'coarse_grid_solver')]


def _is_predef(x):
    return isinstance(x, tuple) and len(x) > 0 and x[0] == 'predefined'


def doc_levelize(opt, ML, MC):
    """documented result of levelize_strength_or_aggregation on a documented input (string, tuple, list, None; int limits),
    None when the input is outside the documentation"""
    if not (isinstance(ML, int) and not isinstance(ML, bool)):
        return None
    if opt is None:
        return ML, MC, [(None, {})] * max(ML - 1, 0)
    if isinstance(opt, str):
        return None if opt == 'predefined' else (ML, MC, [opt] * max(ML - 1, 0))
    if isinstance(opt, tuple):
        if len(opt) == 0:
            return None
        return (2, 0, [opt]) if _is_predef(opt) else (ML, MC, [opt] * max(ML - 1, 0))
    if isinstance(opt, list):
        if not opt or opt[-1] == ():
            return None
        if _is_predef(opt[-1]):
            return len(opt) + 1, 0, list(opt)
        return ML, MC, list(opt) + [opt[-1]] * max(ML - 1 - len(opt), 0)
    return None


def doc_levelize_smooth(opt, ML):
    if not (isinstance(ML, int) and not isinstance(ML, bool)):
        return None
    if opt is None:
        return [(None, {})] * max(ML, 0)
    if isinstance(opt, tuple) and len(opt) > 0 and isinstance(opt[0], tuple):
        opt = list(opt)
    if isinstance(opt, (str, tuple)):
        return None if opt == () else [opt] * max(ML, 0)
    if isinstance(opt, list):
        if not opt:
            return None
        return list(opt) + [opt[-1]] * max(ML - len(opt), 0)
    return None


def pylogic_functions():
    """lean name -> (real function, documented-result oracle)"""
    from pyamg.util.utils import levelize_strength_or_aggregation as lsa, levelize_smooth_or_improve_candidates as lsi
    fns = {'utils_levelize_strength_or_aggregation': (lsa, lambda a: doc_levelize(*a) if len(a) == 3 else None),
           'utils_levelize_smooth_or_improve_candidates': (lsi, lambda a: doc_levelize_smooth(*a) if len(a) == 2 else None)}
    for name, path, outer in PY_UNPACK:
        try:
            f = _nested_function(path, outer, 'unpack_arg')
        except Exception:  # noqa: BLE001
            f = None
        if f is not None:
            fns[name] = (f, lambda a: None)
    return fns


def pylogic_judge(ctx, cases, sample_rate=0.002, with_status=False):
    """cases: [(lean name, args)]; the generated definition vs the real function (exact, exception class included); on
    documented inputs a disagreement -- or a sentinel -- is judged against the documented result"""
    import extpy
    fns = pylogic_functions()
    cases = [c for c in cases if c[0] in fns]
    outs = lean_retry(ctx, (['ext_py_status'] if with_status else []) + [extpy.call_line(nm, args) for nm, args in cases])
    if with_status:
        for t in outs.pop(0).split(','):
            if t.endswith('=0'):
                ctx.feat('pylogic:untranslatable ' + t[:-2])
    for (nm, args), o in zip(cases, outs):
        f, oracle = fns[nm]
        real = extpy.real_outcome(f, args)
        ctx.case(key=_key('pylogic', nm, extpy.enc(args)), nontrivial=True,
                 sample={'fn': nm, 'args': repr(args)[:200], 'lean': o[:120], 'real': real[:120]}
                 if ctx.np_rng.random() < sample_rate else None)
        ctx.feat('pylogic:' + nm.split('_', 1)[1][:28] + (' raises' if real.startswith('E:') else ''))
        case = {'pylogic': nm, 'enc': [extpy.enc(a) for a in args], 'args': repr(args)[:300]}
        if o == 'E:Unsupported':          # emitted as a sentinel: the broken proof obligation reports it; judge the code only
            ctx.feat('pylogic:sentinel-skipped')
        elif o != real:
            ctx.corr('ext_py_call ' + nm, case, o, real)
        # the documented result, independently of the translation (an edit inside the subset changes both sides alike)
        doc = oracle(args)
        if doc is not None:
            ctx.feat('pylogic:documented input')
            want = 'R:' + extpy.enc(tuple(doc) if isinstance(doc, tuple) else doc)
            if real != want:
                ctx.violation(f'{nm.split("_", 1)[1]}{tuple(args)!r} gives {real[:200]!r}, documented behaviour is {doc!r}', case)


def pylogic_correspondence(ctx, n):
    """generated Lean definitions (py2lean) vs the real functions on generated option values"""
    import extpy
    rng = ctx.np_rng
    names = [nm for nm, _, _ in PY_UNPACK]
    cases = []
    for k in range(n):
        r = rng.random()
        if r < 0.45:
            opt = extpy.option_value(rng)
            ML, MC = extpy.level_count(rng), extpy.level_count(rng)
            if rng.random() < 0.6:
                ML = int(rng.integers(0, 8))
            cases.append(('utils_levelize_strength_or_aggregation', [opt, ML, MC]))
        elif r < 0.8:
            opt = extpy.option_value(rng)
            ML = extpy.level_count(rng) if rng.random() < 0.4 else int(rng.integers(0, 8))
            cases.append(('utils_levelize_smooth_or_improve_candidates', [opt, ML]))
        else:
            cases.append((names[int(rng.integers(len(names)))], [extpy.option_entry(rng)]))
    pylogic_judge(ctx, cases, with_status=True)


def adaptive_case(ctx, rng, pending=None):
    """adaptive_sa_solver (search only): structure of the hierarchy it returns, limits as given by the user"""
    from pyamg.aggregation import adaptive_sa_solver
    # the symmetry flag decides R = P^H / P^T: real matrices cannot tell them apart, so two thirds of the cases are
    # complex Hermitian with 'hermitian' resp. complex symmetric (non-Hermitian) with 'symmetric' (the flag is the
    # user's claim: sometimes the other one is passed; aSA implements no 'nonsymmetric')
    r = rng.random()
    if r < 0.34:
        D, tags = gen_matrix(rng, 'rs', True)
        sym = str(pick(rng, ['hermitian', 'symmetric']))
    elif r < 0.67:
        D, tags = gen_matrix(rng, 'sa', True, fam='cherm')
        sym = 'hermitian' if rng.random() < 0.8 else 'symmetric'
    else:
        D, tags = gen_matrix(rng, 'sa', True, fam='csym')
        sym = 'symmetric' if rng.random() < 0.8 else 'hermitian'
    if D.shape[0] > 80 or D.shape[0] < 3:
        return
    ctx.feat('adaptive:' + tags['fam'] + '/' + sym)
    ML, MC = int(pick(rng, [2, 3, 4, 10])), int(pick(rng, [1, 5, 20]))
    kw = {'num_candidates': int(pick(rng, [1, 2])), 'candidate_iters': 3, 'improvement_iters': int(pick(rng, [0, 1])),
          'max_levels': ML, 'max_coarse': MC, 'symmetry': sym,
          'smooth': pick(rng, [None, ('jacobi', {}), 'richardson']), 'keep': bool(rng.random() < 0.5)}
    adaptive_eval(ctx, D, kw, int(rng.integers(2 ** 31)), pending)


def adaptive_eval(ctx, D, kw, seed, pending=None):
    from pyamg.aggregation import adaptive_sa_solver
    ML, MC = kw['max_levels'], kw['max_coarse']
    A = gen.int32csr(sp.csr_array(D))
    D0 = D.copy()
    ctx.feat('ctor:adaptive')
    ckey = _key('adaptive', D.tobytes(), repr(kw))
    np.random.seed(seed)
    try:
        ml = adaptive_sa_solver(A, **copy.deepcopy(kw))[0]
    except Exception as ex:  # noqa: BLE001
        ctx.feat('adaptive-raised:' + type(ex).__name__)
        ctx.case(key=ckey, nontrivial=False)
        return
    case = {'ctor': 'sa', 'kw': {'symmetry': kw['symmetry'], 'max_levels': ML, 'max_coarse': MC}}
    bad, info = judge(case, ml, None, A, D0)
    ctx.case(key=ckey, nontrivial=info.get('m', 1) >= 2)
    if info.get('nonfinite'):
        return
    pcase = {'adaptive': True, 'A': pack(D), 'kw': pack(kw), 'seed': seed}
    for clause, text, _ in bad:
        fkey = 'adaptive-ignores-limits' if clause in ('max_levels', 'max_coarse') else None
        ctx.violation(f'adaptive_sa_solver: {text} [clause {clause}; max_levels={ML}, max_coarse={MC}]', pcase, fkey=fkey)
    # extension E50: the proved checker on what adaptive_sa_solver returned (shapes, strict decrease, Galerkin, R = P^H / P^T;
    # the limits stay with the oracle above: known finding adaptive-ignores-limits)
    if info.get('underflow'):
        ctx.feat('lean-skipped:products-may-underflow')
    if 'rows' in info and info.get('tol', 1) <= 1e-10 and all(hasattr(L, 'P') and hasattr(L, 'R') for L in ml.levels[:-1]) and \
            not info.get('underflow'):
        structural = [b for b in bad if b[0] in ('dims', 'transpose', 'galerkin', 'decrease', 'empty-level')]
        queue = pending if pending is not None else []
        queue.append(('check', f'c04x_check {info["sym"]} {LEAN_TOL} ' + ' '.join(hier_tokens(ml.levels)),
                      'ok' if not structural else 'fail', {'ctor': 'adaptive'},
                      lambda what, fkey=None: ctx.violation('adaptive_sa_solver: ' + what, pcase, fkey=fkey)))
        ctx.feat('lean-checked-hierarchy:adaptive')
        if pending is None:
            flush(ctx, queue)


def bare_solver_case(ctx, rng, pending=None):
    """MultilevelSolver(levels) on levels built by hand without R: the default is R = P^H (multilevel.py:180-182).
    The coarse matrices are formed here as P^H A P (complex data: P of a reference hierarchy times 1 + 0.5i, so that
    P^H differs from P^T), so the levels are a Galerkin hierarchy exactly when the solver fills in R = P^H: the
    proved checker (extension E50) judges shapes, strict decrease, A_c = R A P and R = P^H on the solver's levels."""
    import pyamg
    from pyamg.multilevel import MultilevelSolver
    D, tags = gen_matrix(rng, 'sa', True)
    if D.shape[0] > 60 or D.shape[0] < 4:
        return
    A = gen.int32csr(sp.csr_array(D))
    sym = 'hermitian'
    try:
        ref = pyamg.smoothed_aggregation_solver(A, symmetry=sym, max_coarse=2, improve_candidates=None)
    except Exception:  # noqa: BLE001
        return
    levels = []
    Acur = A
    for L in ref.levels:
        N = MultilevelSolver.Level()
        N.A = Acur
        if hasattr(L, 'P'):
            N.P = sp.csr_array(L.P) * ((1 + 0.5j) if tags['complex'] else 1.0)
            if N.P.shape[0] != Acur.shape[0] or not N.P.shape[1] < N.P.shape[0]:
                return
            Acur = sp.csr_array(N.P.conj().T @ Acur @ N.P)
        levels.append(N)
    ml = MultilevelSolver(levels)
    ctx.feat('ctor:bare')
    ctx.case(key=_key('bare', D.tobytes()), nontrivial=len(levels) >= 2)
    pcase = {'bare': True, 'A': pack(D)}
    ok = True
    for l, L in enumerate(ml.levels[:-1]):
        if not hasattr(L, 'R') or not np.array_equal(dense(L.R), dense(L.P).conj().T):
            ctx.violation(f'MultilevelSolver(levels): level {l} given without R does not get R = P^H', pcase)
            ok = False
            break
    if all(hasattr(L, 'R') for L in ml.levels[:-1]) and \
            any(lg_min(dense(L.R)) + lg_min(dense(L.A)) + lg_min(dense(L.P)) < -280 for L in ml.levels[:-1]):
        ctx.feat('lean-skipped:products-may-underflow')      # P^H A P formed above in floating point: exact arithmetic is no reference
    elif all(hasattr(L, 'R') for L in ml.levels[:-1]) and all(np.isfinite(dense(L.A)).all() for L in ml.levels):
        queue = pending if pending is not None else []
        queue.append(('check', f'c04x_check herm {LEAN_TOL} ' + ' '.join(hier_tokens(ml.levels)), 'ok' if ok else 'fail',
                      {'ctor': 'bare'}, lambda what, fkey=None: ctx.violation('MultilevelSolver(levels): ' + what, pcase, fkey=fkey)))
        ctx.feat('lean-checked-hierarchy:bare')
        if pending is None:
            flush(ctx, queue)


# ------------------------------------------------------------------------------------------------
# call histories: several constructor calls on the SAME matrix object
# ------------------------------------------------------------------------------------------------

HIST_FMTS = ['csr', 'csr', 'csr', 'bsr', 'bsr', 'csr_matrix', 'csc', 'dense']   # csr / bsr float input is not copied


def has_pairwise(kw):
    a = kw.get('aggregate')
    return any(name_of(x) == 'pairwise' for x in (a if isinstance(a, list) else [a]))


def gen_history(rng, quick):
    """2-3 constructor calls on one matrix object (real: all five constructors, complex: the two that accept complex
    input), every call with its own options / symmetry flag / limits / keep; a call may also repeat an earlier one with
    the very same option objects and other scalars.  The quantifier of the property is over inputs and configurations:
    what an earlier call left on the user's objects must not change what a later call returns."""
    cplx = rng.random() < 0.5
    if cplx:
        D, tags = gen_matrix(rng, 'sa', True, fam=str(pick(rng, ['gauge', 'gauge', 'cherm', 'cherm', 'csym', 'cnonsym'])))
    else:
        D, tags = gen_matrix(rng, 'rs', True)
    n = D.shape[0]
    fmt, bs = str(pick(rng, HIST_FMTS)), 1
    if tags.get('elas') and rng.random() < 0.7:
        fmt, bs = 'bsr', 2
    elif fmt == 'bsr':
        bs = int(pick(rng, [b for b in (1, 2, 3) if n % b == 0]))
    ctors = ['sa', 'rn', 'sa', 'rn'] + ([] if cplx else ['rs', 'air', 'pw'])
    calls = []
    for j in range(2 if rng.random() < 0.35 else 3):
        if j > 0 and rng.random() < 0.25:
            i = int(rng.integers(j))
            base = calls[i]
            c = dict(base)
            c['kw'] = kw = copy.deepcopy(base['kw'])
            c['reuse'] = base['reuse'] if base.get('reuse') is not None else i
            c['seed'] = int(rng.integers(2 ** 31))
            ML, MC = gen_limits(rng)
            kw['max_levels'] = min(ML, 2) if has_pairwise(kw) and c['ctor'] in ('sa', 'rn') else ML
            kw['max_coarse'] = MC
            if 'keep' in kw:
                kw['keep'] = not kw['keep']
            if c['ctor'] in ('sa', 'rn') and kw.get('symmetry', 'hermitian') != 'nonsymmetric':
                kw['symmetry'] = str(pick(rng, ['hermitian', 'symmetric']))     # BH / the Krylov method stay what they were
        else:
            ctor = str(pick(rng, ctors))
            sym = str(pick(rng, ['hermitian', 'hermitian', 'symmetric', 'nonsymmetric']))
            c = gen_case(rng, True, ctor, given={'A': D, 'tags': tags, 'fmt': fmt, 'bs': bs, 'sym': sym})
            kw = c['kw']
        if kw['max_levels'] == 1 and rng.random() < 0.8:
            kw['max_levels'] = 2                      # a hierarchy with one level has no R / P to judge
        if kw.get('symmetry') == 'hermitian' and rng.random() < 0.5:
            del kw['symmetry']                        # the documented default
        calls.append(c)
    return calls


def history_pcase(case, hist):
    return {'history': True, 'A': pack(case['A']), 'fmt': case['fmt'], 'bs': case['bs'],
            'calls': [{'ctor': h['ctor'], 'kw': pack(h['kw']), 'seed': h['seed'], 'reuse': h.get('reuse')} for h in hist]}


def history_case(ctx, pending, calls):
    """every hierarchy is judged against the options of the call that built it; the hierarchies returned earlier are
    judged again after every later call (their operators are still what the constructor returned)"""
    first = calls[0]
    Ain = make_input(first['A'], first['fmt'], first['bs'], None)
    D0 = dense(Ain).copy()
    ctx.feat(f'history:{len(calls)}-calls')
    ctx.feat('history:' + ('complex' if first['tags'].get('complex') else 'real') +
             (':same-object' if first['fmt'] in ('csr', 'bsr', 'csr_matrix') else ':converted-copy'))
    done = []
    hkey = ''
    for j, c in enumerate(calls):
        c['calls_so_far'] = calls[:j + 1]
        c['hkey'] = hkey
        live = calls[c['reuse']].get('_live_kw') if c.get('reuse') is not None else None
        if c.get('reuse') is not None:
            ctx.feat('history:same-option-objects' if live is not None else 'history:repeat-of-failed-call')
        prev = [h for h in calls[:j] if h['ctor'] in ('sa', 'rn')]
        if prev and c['ctor'] in ('sa', 'rn'):
            a, b = prev[-1]['kw'].get('symmetry', 'default'), c['kw'].get('symmetry', 'default')
            ctx.feat(f'history:flag:{a}->{b}')
        res = eval_case(ctx, c, pending, shared={'Ain': Ain, 'D0': D0, 'live_kw': live})
        hkey = _key(hkey, c['ctor'], repr(pack(c['kw'])))
        # the hierarchies of the earlier calls, once more
        for (pc, pml, pcalls, pbad) in done:
            bad2, info2 = judge(pc, pml, pcalls, Ain, D0)
            if info2.get('nonfinite'):
                continue
            seen = set((b[0], b[1]) for b in pbad)
            for clause, text, fkey in bad2:
                if (clause, text) not in seen:
                    pbad.append((clause, text, fkey))
                    ctx.violation(f'{CT[pc["ctor"]][1]}: {text} [clause {clause}] -- the hierarchy held this clause when it was '
                                  f'returned; it broke when {CT[c["ctor"]][1]} was called on the same matrix object (call {j + 1})',
                                  history_pcase(c, calls[:j + 1]), fkey=fkey)
        if res is not None:
            done.append((c, res[0], res[1], list(res[2])))
    for c in calls:
        c.pop('calls_so_far', None)
        c.pop('_live_kw', None)


def run_cases(ctx, n, ctor=None):
    rng = ctx.np_rng
    pending = []
    ctx.__dict__['_c04x'] = {'spent': 0.0, 'frac': 0.0}
    for t in range(n):
        if ctx.time_left() < 15:
            ctx.feat('budget-cut')
            break
        ctx.__dict__.setdefault('_c04x', {'spent': 0.0, 'frac': 1.0})['frac'] = (t + 1) / n
        r = rng.random()
        if ctor is None and r < 0.04:
            adaptive_case(ctx, rng, pending)
        elif ctor is None and r < 0.06:
            bare_solver_case(ctx, rng, pending)
        elif ctor is None and r < 0.18:
            history_case(ctx, pending, gen_history(rng, ctx.quick))
        else:
            eval_case(ctx, gen_case(rng, ctx.quick, ctor), pending)
        if len(pending) >= ctx.scale(1200, 3000):
            flush(ctx, pending)
    flush(ctx, pending)


def run(ctx):
    levelize_correspondence(ctx)
    pylogic_correspondence(ctx, ctx.scale(1500, 40000))
    filter_correspondence(ctx)
    run_cases(ctx, ctx.scale(1000, 36000))


def search(ctx):
    pylogic_correspondence(ctx, 20000)
    run_cases(ctx, 1500)


def replay(ctx, data):
    c = data['case']
    if c.get('adaptive'):
        kw = unpack(c['kw'])
        print('replaying adaptive_sa_solver on a', np.shape(unpack(c['A'])), 'matrix with', kw)
        adaptive_eval(ctx, unpack(c['A']), kw, c['seed'])
    elif c.get('bare'):
        print('replay: adaptive_sa_solver / bare MultilevelSolver cases are re-searched with the recorded seed of the run')
        ctx.np_rng = np.random.default_rng((data.get('seed', 0) * 7919 + 4) % (2 ** 32))
        run_cases(ctx, 600)
    elif 'pylogic' in c:
        import extpy
        print('replay: generated definition vs real function', c['pylogic'], c.get('args'))
        pylogic_judge(ctx, [(c['pylogic'], [extpy.dec(w) for w in c['enc']])], sample_rate=1.0)
    elif 'levelize' in c:
        print('replay: levelize case', c)
        levelize_correspondence(ctx)
    elif c.get('history'):
        A = unpack(c['A'])
        calls = [{'ctor': h['ctor'], 'A': A, 'fmt': c['fmt'], 'bs': c['bs'], 'dtype': None, 'kw': unpack(h['kw']),
                  'seed': h['seed'], 'reuse': h.get('reuse'), 'tags': {'fam': 'replay', 'complex': bool(np.iscomplexobj(A))}}
                 for h in c['calls']]
        print('replaying', len(calls), 'constructor calls on ONE', A.shape, c['fmt'], 'matrix object:')
        for h in calls:
            print('   ', CT[h['ctor']][1], {k: v for k, v in h['kw'].items() if k not in ('B', 'BH')},
                  '(the option objects of call %d again)' % (h['reuse'] + 1) if h['reuse'] is not None else '')
        pending = []
        history_case(ctx, pending, calls)
        flush(ctx, pending)
    else:
        case = {'ctor': c['ctor'], 'A': unpack(c['A']), 'fmt': c['fmt'], 'bs': c['bs'], 'dtype': c.get('dtype'),
                'kw': unpack(c['kw']), 'seed': c['seed'], 'tags': {'fam': 'replay'}}
        print('replaying', CT[case['ctor']][1], 'on a', case['A'].shape, case['fmt'], 'matrix with',
              {k: v for k, v in case['kw'].items() if k not in ('B', 'BH')})
        pending = []
        eval_case(ctx, case, pending)
        flush(ctx, pending)
    for v in ctx.violations[:5]:
        print('  ', v['what'])
