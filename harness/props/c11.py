"""C11 -- classical interpolation and ideal restriction satisfy their defining equations.

correspondence : (a) raw kernels rs_direct_interpolation_pass1/2, rs_classical_interpolation_pass1/2 (modified
                 off/on), remove_strong_FF_connections, one_point_interpolation, approx_ideal_restriction_pass1/2
                 (rebuilt from the working tree) vs the array models Model/KNum.lean (`direct`) and Model/C11.lean
                 (`c11_*`) AND vs the proof-side whole-operator definitions of Proofs/C11Kernel.lean (`c11_p_*`, the
                 ones the theorems are about); (b) the public functions of pyamg/classical/interpolate.py vs the
                 same models composed as the wrappers compose them (`c11_api_*`, and `ext_c11_api_*`: the composed
                 models Glue.apiClassical / Glue.apiDirect of Model/ExtGlue.lean the end-to-end theorems are about);
                 (c) the SciPy glue models (`ext_glue_*`: eliminate_zeros, sort_indices, sum_duplicates, multiply in
                 both SciPy branches, the abs/scale/eliminate_zeros tail of classical_strength_of_connection) vs SciPy
                 itself, array for array, on raw CSR input (unsorted, duplicates, stored zeros) and on the API path.
                 Index arrays exact; values
                 against exact rationals within 1e-9 relative (the inputs are small integers / dyadic rationals,
                 the kernels divide); a division by zero of the model must be inf/nan in the code.
storage order  : the cases with a dense A are also run on non-canonical CSR / BSR storage of A and, separately, of the
                 strength matrices (rows permuted, diagonal first, descending; has_sorted_indices False or unset):
                 same models on the arrays as stored, same dense oracles.
                 (d) extension E49 (`ext_c11x_*`): block_approx_ideal_restriction_pass2 (QR and GMRES local solves, raw kernel
                 on padded arrays) vs the block row model C11XB.bairPass2 (index arrays exact, values 1e-9) and its assembled
                 local systems vs D[N, N]; approx_ideal_restriction_pass2 with use_gmres vs the exact model rows; the local
                 solves of both kernels vs the binary64 run of the dense_GMRES model (full length and truncated);
                 injection_interpolation / one_point_interpolation on BSR, CSC and CSR input vs the composed wrapper models
                 C11XA.apiInjection / apiOnePoint, array for array.
search         : every P / R returned by the real code is judged by an independent dense NumPy/Fraction oracle
                 of the property itself (identity rows, support, row sums, published formulas (direct, eq. (8),
                 eq. (9)), one-point / injection structure, identity block and (R A)[i, j] = 0 for AIR incl. BSR
                 and GMRES local solves).
"""
import contextlib
import hashlib
from fractions import Fraction as Fr

import numpy as np
import scipy.sparse as sp

import gen
from common import enc_ints, enc_rats, enc_rat

META = {
    'rule': 'matrices: weighted graph Laplacians (symmetric and nonsymmetric weights, zero row sums), upwind '
            'advection-diffusion on grids, the same with non-negative diagonal shifts (weakly / strictly diagonally '
            'dominant M-matrices), diagonally dominant matrices with positive off-diagonals, and (raw kernels only) random '
            'dyadic CSR with missing/zero diagonals, unsorted and duplicate entries; n = 1..12 (quick) / 1..30 (thorough), AIR '
            '1..10 / 1..20; small-integer weights so that thresholds tie. strength: dense classical rule (theta in '
            '{0,.25,.5,.75,1}, norm min/abs), random nonsymmetric sub-patterns with or without the diagonal, full pattern, '
            'pattern inside the pattern of A, stored zeros only as non-connections. splittings: random 0/1 with density '
            '.2/.5/.8, all-C, all-F, repaired to the common-C condition, library RS/PMIS/CLJP, and every 0/1 vector for n <= 4. '
            'non-trivial = the splitting has a C- and an F-point and the F-rows have strong connections; distinct = distinct '
            '(routine, options, A, S, splitting). glue cases (SciPy glue models vs SciPy): random dyadic CSR pairs with unsorted '
            'rows, duplicate columns and stored zeros, n = 1..12 / 1..30; non-trivial = the matrix has a stored zero, a duplicate '
            'or an unsorted row. storage order: every case with a dense A (interpolation kernels and public functions, theta path, '
            'BSR one-point / injection, AIR kernels, local_air CSR and BSR, QR and GMRES local solves) is run with probability 0.6 on '
            'a non-canonical storage of the same matrices: rows of A and, independently, of the strength matrices (S for the kernels, '
            'the C handed to the public functions, the pattern handed to the AIR kernels) stored sorted / randomly permuted / '
            'diagonal first / descending, has_sorted_indices truthfully False or left for SciPy to determine, a fresh object per '
            'public call; the exhaustive small splittings run in both a canonical and a non-canonical storage. The dense oracles '
            'judge these cases exactly as the canonical ones',
    'search_only': ['the public function local_air on BSR / CSC input (strength recomputation + kernels + eliminate_zeros as one '
                    'call) is judged by the dense oracle (identity block, (R A) = 0 on the neighbourhood within 1e-8) only; its '
                    'kernels block_approx_ideal_restriction_pass2 / approx_ideal_restriction_pass2 with QR and GMRES local solves '
                    'have Lean models and theorems (extension E49, below)',
                    'dense_GMRES with maxiter < local size (truncated; the result is not the exact local solve and the property '
                    'does not speak about it): compared with the binary64 run of the model (correspondence) only',
                    'tie-break of one-point interpolation (first strongest C-neighbour) and the storage order inside rows: '
                    'compared with the models (correspondence) but not part of the property oracle',
                    'direct interpolation on rows with positive off-diagonals (positive/negative splitting of the formula): '
                    'structure by theorem, values by correspondence only (the property states formulas for M-matrices)'],
    'partial': ["generated_*_partial (extension E58): theorems about the Lean definitions GENERATED from the Python wrappers of pyamg/classical/interpolate.py (direct / classical / injection / one-point: call order copy -> eliminate_zeros -> remove_strong_FF (modified only) -> eliminate_zeros -> multiply -> pass 1 -> pass 2, which object's arrays each kernel receives, no in-place operation on A / C / splitting, invalid input raises TypeError) are evaluated on FINITE grids of scenarios (A / C sparse or not, csr/csc/bsr, theta None/0.25, norm, modified, by_val, block size 1/2, failing conversion) with the sparse operations opaque; that the kernels only READ the arrays of A is not part of these theorems (const-ness of the kernel signatures is pinned by Generated/Facts.lean)",
                'air_row_spec / block_air_row_spec are about the model row with exact, verified local solves; '
                'air_row_of_exact_solve / block_air_row_of_exact_solves: the verification can only fail when a local system has no '
                'exact solution (or, blocks, the 1e-15 drop test drops a non-zero). That the QR / least-squares solve of the code is '
                'exact is a hypothesis checked per instance (|R - R_exact| <= 1e-9 relative on strictly diagonally dominant local '
                'blocks). For the GMRES solve it is a theorem in exact arithmetic (extension E49): dense_gmres_exact -- the '
                'executable model of dense_GMRES (krylov.h; Arnoldi/MGS loop, Givens sweep after the loop, upper_tri_solve, '
                'diagonal scaling, n = 1 shortcut), over an ordered field with an exact square root, run with maxiter = 0 or >= n '
                'returns x with A x = b provided NoBreakdown (right-hand side not small, no break before the last Arnoldi pass, '
                'no small pivot; all stated on the model states; satisfiable: rot_no_breakdown over the reals); air_row_of_gmres '
                'composes it with the scalar AIR row. Real arithmetic only; the composition with the BLOCK row is in two steps '
                '(dense_gmres_exact gives exact solves over K, block_air_exact_solve_annihilates is stated over Rat); binary64 '
                'rounding is covered by the correspondence run (model on binary64 vs the kernels), not by theorems',
                'one_point_interpolation / injection_interpolation on BSR, CSC and CSR input are composed wrapper models '
                '(C11XA.apiOnePoint / apiInjection: format dispatch, csc_tocsr model at entry, kernel model, identity blocks, SciPy '
                'prune) compared array for array on every run; theorems: api_injection_any_format (dense meaning for every format), '
                'api_one_point_kronecker + api_one_point_bsr_index_arrays (P = P_scalar (x) I on the index arrays '
                'one_point_array_refines is about), csc_entry_same_matrix. local_air itself is not composed',
                'the array models of the kernels are proved to refine the proof-side operators (extension E6) and the public '
                'functions direct_interpolation / classical_interpolation (theta None or given) are one composed model each, '
                'SciPy glue included, proved against directP / classicalP / classicalModP (extension E30, api_*_end_to_end) '
                'for canonical A and C, columns below n and a strength matrix inside the non-zero pattern of A; weights are '
                'related wherever the kernel does not divide by zero (the *_guard_defined theorems say when that is); '
                'non-canonical input of the public functions (SciPy general multiply branch) has dense-meaning theorems only '
                '(glue_multiply_dense); the local_air wrapper is not composed'],
    'assumptions': ['exact-field model: values compared within 1e-9 relative on well-scaled small-integer inputs',
                    'the 1e-15 relative drop test of rs_classical_interpolation_pass2 never drops a non-zero coupling '
                    '(hypothesis hkeep of the row-sum theorems; true for the generated inputs, whose non-zero couplings '
                    'are >= 2^-10 relative)',
                    'row sum one for modified=False is demanded only on rows whose strongly connected F-neighbours all have '
                    'a non-zero coupling to a strong C-point of the row (hypothesis hinner = the classical common-C '
                    'condition, finding #20); row sums of all routines only on rows with at least one strongly connected C-point',
                    'strength matrices inside the pattern of A',
                    'block AIR model: the 1e-15 drop test of block_approx_ideal_restriction_pass2 is part of the model (eps '
                    'passed exactly); the generated blocks have integer entries, no exact solution entry lies in (0, 1e-15]',
                    'dense_GMRES correspondence: the binary64 run of the model performs the operations of the C++ one for one '
                    '(observed difference 0); accepted within 1e-9 relative; a run in which a stored subdiagonal entry H[j+1,j] is '
                    'below 1e-5 of the largest one (Krylov space exhausted up to rounding, not detected by the absolute 1e-12 '
                    'test of the code) amplifies last-bit differences without bound and is counted as a skipped near-threshold '
                    'decision if it disagrees',
                    'rows computed with GMRES local solves are compared with the exact model rows within 1e-6 relative (QR: 1e-9): '
                    'after an undetected exhaustion of the Krylov space dense_GMRES is accurate to about 1e-8 only; the dense '
                    'oracle judges (R A) = 0 on GMRES rows within 1e-6 (QR rows: 1e-8) for the same reason (a first version demanded '
                    '1e-8 there and raised a false alarm on a 12-unknown local system whose Krylov space is exhausted at step 9)',
                    'AIR: (R A)[i, j] = 0 is checked on the documented neighbourhood of row i (strongly connected F-points '
                    'within `degree`), which contains the pattern of the returned row (local_air eliminates zeros)'],
    'trusted_extra': ['harness/py2lean3_classical.py on top of harness/py2lean2.py (Python-AST -> Lean translator, second mode, driver `classical`: `e.a[k] = v`, `del`, `except C as e: raise D from e`, `n * [e]`), lean/PyamgV/Model/ExtPy3ClassicalRt.lean + ExtPy2Rt.lean + ExtPyRt.lean (CPython semantics on the PyVal universe, event semantics of opaque objects) and the mock objects of harness/extpy2.py: exercised on every run by the exact comparison (result, exception class, whole trace) of the generated wrappers with the REAL functions executed against the mocks, on the theorem grids (op ext_py3_classical_grid: the very runs the theorems are about) and on seeded random worlds (op ext_py3_classical_call)',
                      'Driver/C11.lean strengthWithA / dropZeros (ops c11_api_*): driver-local second opinion only, written for canonical '
                      'input: on a non-canonical storage it is fed the sorted copies and compared with the code row by row as dense '
                      'meanings, as are the proof-side operators c11_p_* on the public-function path (every other model, the composed '
                      'glue ext_c11_api_* and the AIR models included, gets the arrays exactly as stored); the glue the '
                      'theorems are about is Model/ExtGlue.lean (ops ext_glue_*, ext_c11_api_*; theorems glue_* and '
                      'api_*_end_to_end of Props/C11.lean), compared with SciPy and with the public functions on every run',
                      'sort_indices is modelled as a stable insertion sort: SciPy runs std::sort, which is stable only on rows '
                      'of at most 16 entries; rows with duplicate columns and more than 16 entries are compared after '
                      'sum_duplicates only',
                      'guard zones: the value-pass kernels run on padded copies of their output arrays (harness only)'],
}

EPS = Fr(1e-15)          # exact value of the literal 1e-15
TINY64 = enc_rat(Fr(float(np.finfo(np.float64).tiny)))     # numeric_limits<double>::min()
TOL = 1e-9
AIR_TOL = 1e-8
# GMRES local solves (use_gmres=True): dense_GMRES tests breakdown with an absolute 1e-12; after an undetected exhaustion of the
# Krylov space it iterates on rounding noise and is accurate to about 1e-8 only (observed 1.8e-8 on a 12-unknown local system), so
# the dense oracle judges (R A) = 0 on those rows at 1e-6 (a defect of the local solve shows as O(1e-2) and larger)
AIR_TOL_GMRES = 1e-6
THETAS = (0.0, 0.25, 0.5, 0.75, 1.0)

# design_probes/scripts/c11_case_A.txt (finding #20): theta = 0.5, norm = 'min', RS with second pass
CASE_A = [[12, -4, 0, 0, -3, 0, 0, 0, 0, -5, 0], [-4, 23, 0, 0, 0, -4, -4, -2, 0, -4, -5], [0, 0, 12, 0, -2, -3, -4, 0, 0, -1, -2],
          [0, 0, 0, 7, -2, 0, 0, 0, 0, -5, 0], [-3, 0, -2, -2, 11, 0, -4, 0, 0, 0, 0], [0, -4, -3, 0, 0, 15, -2, 0, -1, 0, -5],
          [0, -4, -4, 0, -4, -2, 14, 0, 0, 0, 0], [0, -2, 0, 0, 0, 0, 0, 7, -1, -4, 0], [0, 0, 0, 0, 0, -1, 0, -1, 4, -2, 0],
          [-5, -4, -1, -5, 0, 0, 0, -4, -2, 21, 0], [0, -5, -2, 0, 0, -5, 0, 0, 0, 0, 12]]
FKEY_20 = 'unmodified-after-rs-second-pass'


def _key(*a):
    return hashlib.sha1(repr(a).encode()).hexdigest()


def _csr(D):
    return gen.int32csr(sp.csr_array(np.array(D, dtype=float)))


def _hdr(A):
    return f'{A.shape[0]} {enc_ints(A.indptr)} {enc_ints(A.indices)} {enc_rats(A.data)}'


def _pat(A):
    return f'{A.shape[0]} {enc_ints(A.indptr)} {enc_ints(A.indices)}'


def _hdr0(A):
    """second matrix of a request: without the dimension"""
    return f'{enc_ints(A.indptr)} {enc_ints(A.indices)} {enc_rats(A.data)}'


def _pat0(A):
    return f'{enc_ints(A.indptr)} {enc_ints(A.indices)}'


def _i32(x):
    return np.ascontiguousarray(np.asarray(x, dtype=np.int32))


# ------------------------------------------------------------------------------------------------
# generators
# ------------------------------------------------------------------------------------------------

def gen_graph_weights(rng, n, sym):
    M, kind = gen.rand_graph(rng, n)
    W = np.array(M, dtype=float) * rng.integers(1, 6, size=(n, n))
    if sym:
        W = np.triu(W, 1)
        W = W + W.T
    elif rng.random() < 0.5:          # drop some directions: nonsymmetric pattern
        W = W * (rng.random((n, n)) < 0.75)
    return W, kind


def gen_upwind(rng):
    nx, ny = int(rng.integers(1, 5)), int(rng.integers(1, 5))
    n = nx * ny
    bx, by, eps = int(rng.integers(0, 4)), int(rng.integers(0, 4)), int(rng.integers(0, 3))
    W = np.zeros((n, n))
    for y in range(ny):
        for x in range(nx):
            i = y * nx + x
            for dx, dy, w in ((-1, 0, bx + eps), (1, 0, eps), (0, -1, by + eps), (0, 1, eps)):
                xx, yy = x + dx, y + dy
                if 0 <= xx < nx and 0 <= yy < ny and w:
                    W[i, yy * nx + xx] = w
    return W


def gen_matrix(rng, nmax, kind=None):
    """dense float matrix with small-integer entries + its class"""
    kind = kind or str(rng.choice(['lap', 'lap', 'lap_ns', 'lap_ns', 'upwind', 'wdd', 'wdd', 'sdd', 'mixed', 'mixed', 'mixed']))
    n = int(rng.integers(1, nmax + 1))
    if kind == 'upwind':
        W = gen_upwind(rng)
        n = W.shape[0]
        while n > nmax:
            W = gen_upwind(rng)
            n = W.shape[0]
    else:
        W, _ = gen_graph_weights(rng, n, sym=(kind in ('lap',) or (kind in ('wdd', 'sdd', 'mixed') and rng.random() < 0.5)))
    A = np.diag(W.sum(1)) - W
    if kind == 'wdd':
        A = A + np.diag(rng.integers(0, 3, size=n) * (rng.random(n) < 0.5))
    elif kind == 'sdd':
        A = A + np.diag(rng.integers(1, 4, size=n))
    elif kind == 'mixed':
        flip = (rng.random((n, n)) < 0.3) & (W != 0)
        A = A + 2 * W * flip                      # some positive off-diagonals, still weakly dominant
        A = A + np.diag(rng.integers(0, 3, size=n))
    return A.astype(float), kind


def strength_mask(A, theta, norm):
    """dense re-statement of classical strength (kernel rule + eliminate_zeros), diagonal kept when stored"""
    n = A.shape[0]
    M = np.zeros((n, n), dtype=bool)
    for i in range(n):
        off = [j for j in range(n) if j != i and A[i, j] != 0]
        if norm == 'abs':
            mx = max([abs(A[i, j]) for j in off], default=0.0)
            for j in off:
                M[i, j] = abs(A[i, j]) >= theta * mx
        else:
            mx = max([-A[i, j] for j in off] + [0.0])
            for j in off:
                M[i, j] = -A[i, j] >= theta * mx
        M[i, i] = A[i, i] != 0
    return M


def gen_strength(rng, A):
    """boolean mask inside the non-zero pattern of A, + tag"""
    n = A.shape[0]
    nz = A != 0
    r = rng.random()
    if r < 0.5:
        theta = float(rng.choice(THETAS))
        norm = str(rng.choice(['min', 'abs']))
        M = strength_mask(A, theta, norm)
        tag = f'classical:{norm}'
        if rng.random() < 0.4:
            M = M & ~np.eye(n, dtype=bool)
    elif r < 0.8:
        M = nz & (rng.random((n, n)) < float(rng.choice([0.3, 0.6, 0.9])))
        tag = 'random'
        if rng.random() < 0.5:
            M = M & ~np.eye(n, dtype=bool)
    elif r < 0.9:
        M = nz & (rng.random((n, n)) < 0.6)
        M = M & M.T
        tag = 'random-sym'
    else:
        M = nz & ~np.eye(n, dtype=bool)
        tag = 'full'
    return M, tag


def repair_common_c(A, M, split):
    """promote F-points to C until every strong F-F pair of an F-row shares (matrix sense) a strong C-point"""
    n = A.shape[0]
    split = split.copy()
    changed = True
    while changed:
        changed = False
        for i in range(n):
            if split[i] == 1:
                continue
            Cs = [j for j in range(n) if M[i, j] and split[j] == 1]
            for k in range(n):
                if M[i, k] and split[k] == 0 and k != i and not any(A[k, m] != 0 for m in Cs):
                    split[k] = 1
                    changed = True
                    break
    return split


def gen_split(rng, A, M):
    n = A.shape[0]
    r = rng.random()
    if r < 0.45:
        s = (rng.random(n) < float(rng.choice([0.2, 0.5, 0.8]))).astype(np.int32)
        tag = 'random'
    elif r < 0.5:
        s = np.ones(n, dtype=np.int32)
        tag = 'allC'
    elif r < 0.55:
        s = np.zeros(n, dtype=np.int32)
        tag = 'allF'
    elif r < 0.8:
        s = repair_common_c(A, M, (rng.random(n) < float(rng.choice([0.3, 0.5]))).astype(np.int32))
        tag = 'commonC'
    else:
        from pyamg.classical import split as SP
        C = _csr(M.astype(float))
        which = str(rng.choice(['RS', 'RS2', 'PMIS', 'CLJP']))
        np.random.seed(int(rng.integers(2**31)))
        try:
            if which == 'RS':
                s = SP.RS(C, second_pass=False)
            elif which == 'RS2':
                s = SP.RS(C, second_pass=True)
            elif which == 'PMIS':
                s = SP.PMIS(C)
            else:
                s = SP.CLJP(C)
        except Exception:
            s = (rng.random(n) < 0.5)
        tag = 'lib:' + which
    return _i32(s), tag


def s_with_values(A, M, rng=None, shuffle=False):
    """CSR (int32) with A's values on the mask; optionally shuffled inside the rows"""
    S = _csr(np.where(M, A, 0.0))
    if shuffle and rng is not None:
        for i in range(S.shape[0]):
            a, b = S.indptr[i], S.indptr[i + 1]
            p = rng.permutation(b - a)
            S.indices[a:b] = S.indices[a:b][p]
            S.data[a:b] = S.data[a:b][p]
    return S


# storage order inside the rows (the property is about the matrices, not about how CSR / BSR happens to store them):
# 'perm' random permutation of every row, 'diagfirst' diagonal entry first (rows without a stored diagonal: last entry
# first), 'reversed' descending columns. flag 'false' = has_sorted_indices set to False where that is the truth,
# 'unset' = the attribute is left for SciPy to determine.
LAYOUTS = ('sorted', 'perm', 'diagfirst', 'reversed')


def gen_layout(rng, p_sorted=0.4):
    """storage layout of the operator ('A') and, separately, of the strength matrices ('S') of one case; None = canonical"""
    if rng.random() < p_sorted:
        return None
    return {'A': str(rng.choice(LAYOUTS)), 'Af': str(rng.choice(['unset', 'false'])), 'S': str(rng.choice(LAYOUTS)),
            'Sf': str(rng.choice(['unset', 'false'])), 'seed': int(rng.integers(2**31))}


def relayout(X, layout, which, salt=0):
    """the same CSR / BSR matrix (int32 indices) stored in the row order layout[which]; deterministic in layout['seed']"""
    mode = 'sorted' if layout is None else layout[which]
    if mode == 'sorted':
        return X
    prng = np.random.default_rng([int(layout['seed']), salt])
    ip, ix, dx = _i32(X.indptr), _i32(X.indices).copy(), X.data.copy()
    for i in range(len(ip) - 1):
        a, b = int(ip[i]), int(ip[i + 1])
        if b - a < 2:
            continue
        cols = ix[a:b]
        if mode == 'perm':
            p = prng.permutation(b - a)
        elif mode == 'reversed':
            p = np.argsort(cols, kind='stable')[::-1]
        else:
            o = np.argsort(cols, kind='stable')
            first = [t for t in o if cols[t] == i] or [o[-1]]
            p = np.array(first + [t for t in o if t not in first])
        ix[a:b] = cols[p]
        dx[a:b] = dx[a:b][p]
    return _rebuild(X, ip.copy(), ix, dx, layout[which + 'f'])


def _rebuild(X, ip, ix, dx, flag):
    if X.format == 'bsr':
        Y = sp.bsr_array((dx, ix, ip), shape=X.shape, blocksize=X.blocksize)
        Y.indptr, Y.indices = _i32(Y.indptr), _i32(Y.indices)
    else:
        Y = gen.csr_from_arrays(X.shape[0], ip, ix, dx, m=X.shape[1])
    if flag == 'false' and any(np.any(np.diff(ix[ip[i]:ip[i + 1]]) < 0) for i in range(len(ip) - 1)):
        Y.has_sorted_indices = False
    return Y


def fresh(X, layout, which):
    """a new object with copies of X's arrays and the same truthful flag: one per public call, so that a call which sorts or
    flags its argument in place cannot canonicalise the input of the next one"""
    if layout is None or layout[which] == 'sorted':
        return X
    return _rebuild(X, X.indptr.copy(), X.indices.copy(), X.data.copy(), layout[which + 'f'])


def sorted_copy(X):
    Y = gen.csr_from_arrays(X.shape[0], X.indptr.copy(), X.indices.copy(), X.data.copy(), m=X.shape[1])
    Y.has_sorted_indices = False
    Y.sort_indices()
    return Y


def no_dups(X):
    return all(len(set(X.indices[X.indptr[i]:X.indptr[i + 1]].tolist())) == X.indptr[i + 1] - X.indptr[i] for i in range(X.shape[0]))


def sort_rows(rows):
    return [sorted(r, key=lambda cw: cw[0]) for r in rows]


# ------------------------------------------------------------------------------------------------
# the property oracle (dense, exact rationals)
# ------------------------------------------------------------------------------------------------

def _fr(D):
    return [[Fr(float(v)) for v in row] for row in np.asarray(D)]


def is_m_matrix(A):
    """Z-matrix with positive diagonal; all-zero rows (isolated points of a graph Laplacian) are tolerated"""
    n = A.shape[0]
    off = A - np.diag(np.diag(A))
    d = np.diag(A)
    return bool((off <= 0).all() and all(d[i] > 0 or not A[i].any() for i in range(n)))


def csr_rows(n, pp, pj, px):
    return [[(int(pj[t]), float(px[t])) for t in range(int(pp[i]), int(pp[i + 1]))] for i in range(n)]


def expected_row(routine, A, M, split, i):
    """published weights {fine column j: w_ij} of F-row i on an M-matrix, or None when the formula's own
    precondition fails on this row (no strong C-point / an F-neighbour without common C for eq. (8))"""
    n = len(A)
    Cs = [j for j in range(n) if M[i][j] and split[j] == 1 and j != i]
    Fs = [k for k in range(n) if M[i][k] and split[k] == 0 and k != i]
    if not Cs or A[i][i] == 0:
        return None
    if routine == 'direct':
        tot = sum(A[i][k] for k in range(n) if k != i)
        sc = sum(A[i][j] for j in Cs)
        if sc == 0:
            return None
        return {j: -A[i][j] * tot / (A[i][i] * sc) for j in Cs}
    if routine == 'classical':                       # De Sterck, Falgout, Nolting, Yang (2008), eq. (8)
        Fgood, Fstar = Fs, []
    else:                                            # eq. (9)
        Fgood = [k for k in Fs if any(M[k][m] for m in Cs)]
        Fstar = [k for k in Fs if k not in Fgood]
    inner = {k: sum(A[k][m] for m in Cs) for k in Fgood}
    if any(v == 0 for v in inner.values()):
        return None
    den = A[i][i] + sum(A[i][k] for k in range(n) if k != i and (not M[i][k] or k in Fstar))
    if den == 0:
        return None
    return {j: -(A[i][j] + sum(A[i][k] * A[k][j] / inner[k] for k in Fgood)) / den for j in Cs}


def judge_interp(routine, A, M, split, rows, shape=None):
    """the property on the returned P (rows = [(coarse col, weight)] per fine row). A, M dense. -> error or None"""
    n = A.shape[0]
    cmap = np.concatenate([[0], np.cumsum(split)])[:n]
    nc = int(np.sum(split))
    if shape is not None and tuple(shape) != (n, nc):
        return f'P has shape {tuple(shape)}, expected {(n, nc)}'
    if len(rows) != n:
        return f'P has {len(rows)} rows for {n} points'
    mm = is_m_matrix(A)
    Af = _fr(A) if mm else None
    for i in range(n):
        r = rows[i]
        if split[i] == 1:
            if len(r) != 1 or r[0][0] != cmap[i] or r[0][1] != 1.0:
                return f'C-point {i}: row {r} is not the identity row on coarse index {int(cmap[i])}'
            continue
        Cs = [j for j in range(n) if M[i, j] and split[j] == 1 and j != i]
        allowed = {int(cmap[j]) for j in Cs}
        cols = [c for c, _ in r]
        if len(set(cols)) != len(cols):
            return f'F-point {i}: repeated column in row {r}'
        for c, _ in r:
            if c not in allowed:
                return f'F-point {i}: weight on coarse column {c}, which is not a strongly connected C-point (allowed {sorted(allowed)})'
        if not mm:
            continue
        exp = expected_row(routine, Af, M, split, i)
        if exp is None:
            continue
        got = dict(r)
        for j, w in exp.items():
            g = got.get(int(cmap[j]), 0.0)
            if not np.isfinite(g) or abs(Fr(g) - w) > Fr(TOL) * (1 + abs(w)):
                return (f'F-point {i}: weight on C-point {j} is {g!r}, the published {routine} formula gives {float(w)!r}')
        if sum(Af[i]) == 0:
            s = sum(Fr(w) for _, w in r)
            if abs(s - 1) > Fr(TOL):
                return f'F-point {i} (zero row sum M-matrix row): weights sum to {float(s)!r}, not 1'
    return None


def judge_constants(A, M, split, P):
    """constants are interpolated exactly on zero-row-sum M-matrix rows with a strong C-point (through P itself)"""
    n = A.shape[0]
    if not is_m_matrix(A) or P.shape[1] == 0:
        return None
    try:
        y = dense(P) @ np.ones(P.shape[1])
    except StructError:
        return None                     # reported by judge_interp (column outside the strongly connected C-points)
    for i in range(n):
        if split[i] == 1 or A[i].sum() != 0:
            continue
        if any(M[i, j] and split[j] == 1 and j != i for j in range(n)):
            if not abs(y[i] - 1.0) <= 1e-9:
                return i, float(y[i])
    return None


def rows_lack_common_c(A, M, split, i):
    n = A.shape[0]
    Cs = [j for j in range(n) if M[i, j] and split[j] == 1 and j != i]
    return any(M[i, k] and split[k] == 0 and k != i and not any(A[k, m] != 0 for m in Cs) for k in range(n))


def judge_onepoint(Cd, Cmask, split, rows, by_val):
    """Cd dense values of the strength matrix handed to the kernel, Cmask its stored pattern"""
    n = Cd.shape[0]
    cmap = np.concatenate([[0], np.cumsum(split)])[:n]
    if len(rows) != n:
        return f'{len(rows)} rows for {n} points'
    for i in range(n):
        r = rows[i]
        if split[i] == 1:
            if len(r) != 1 or r[0][0] != cmap[i] or r[0][1] != 1.0:
                return f'C-point {i}: row {r} is not the identity row on coarse index {int(cmap[i])}'
            continue
        Cs = [j for j in range(n) if Cmask[i, j] and split[j] == 1]
        if not Cs:
            if r:
                return f'F-point {i} has no strongly connected C-point but gets {r}'
            continue
        if len(r) != 1:
            return f'F-point {i} with strongly connected C-points {Cs} gets {len(r)} entries: {r}'
        c, w = r[0]
        cand = [j for j in Cs if cmap[j] == c]
        if not cand:
            return f'F-point {i}: selected coarse column {c} is not a strongly connected C-point (C-neighbours {Cs})'
        j = cand[0]
        if abs(Cd[i, j]) < max(abs(Cd[i, m]) for m in Cs):
            return f'F-point {i}: selected C-point {j} (|strength| {abs(Cd[i, j])}) is not a strongest one'
        want = -Cd[i, j] if by_val else 1.0
        if w != want:
            return f'F-point {i}: weight {w!r} on C-point {j}, expected {want!r}'
    return None


def air_neighbourhood(M, split, c, degree):
    n = M.shape[0]
    nf = {j for j in range(n) if M[c, j] and split[j] == 0}
    if degree == 2:
        nf |= {k for j in list(nf) for k in range(n) if M[j, k] and split[k] == 0}
    return sorted(nf)


def judge_air(A, M, split, R, degree, tol=AIR_TOL, bs=1):
    """A dense (n*bs), M block-level strength mask (n), R dense (nc*bs x n*bs)"""
    n = M.shape[0]
    cpts = [i for i in range(n) if split[i] == 1]
    if R.shape != (len(cpts) * bs, n * bs):
        return f'R has shape {R.shape}, expected {(len(cpts) * bs, n * bs)}'
    RA = R @ A
    scale = np.abs(R) @ np.abs(A)
    for r, c in enumerate(cpts):
        rr = slice(r * bs, (r + 1) * bs)
        for r2, c2 in enumerate(cpts):
            blk = R[rr, c2 * bs:(c2 + 1) * bs]
            want = np.eye(bs) if c2 == c else np.zeros((bs, bs))
            if not np.array_equal(blk, want):
                return f'row {r} (C-point {c}): block on C-point {c2} is {blk.tolist()}, not {"I" if c2 == c else "0"}'
        nf = air_neighbourhood(M, split, c, degree)
        for j in range(n):
            if split[j] == 0 and j not in nf and np.any(R[rr, j * bs:(j + 1) * bs] != 0):
                return f'row {r} (C-point {c}): entry on F-point {j} outside the degree-{degree} neighbourhood {nf}'
        for j in nf:
            e = np.abs(RA[rr, j * bs:(j + 1) * bs])
            s = scale[rr, j * bs:(j + 1) * bs]
            if not np.all(np.isfinite(e)) or np.any(e > tol * (1 + s)):
                return (f'row {r} (C-point {c}): (R A)[{r}, {j}] = {RA[rr, j * bs:(j + 1) * bs].tolist()} '
                        f'for the F-point {j} in the pattern (neighbourhood {nf})')
    return None


# ------------------------------------------------------------------------------------------------
# comparison with the Lean models
# ------------------------------------------------------------------------------------------------

_ERR = [0.0, 0]          # largest relative model/implementation difference seen, rows skipped as non-finite


def val_ok(tok, x, tol=None):
    if tok == 'inf':
        return not np.isfinite(x)
    if not np.isfinite(x):
        return False
    t = Fr(tok)
    d = abs(t - Fr(float(x)))
    if d and tol is None:
        _ERR[0] = max(_ERR[0], float(d / (1 + abs(t))))
    return d <= Fr(TOL if tol is None else tol) * (1 + abs(t))


def cmp_arrays(reply, pp, pj, px):
    """reply 'pp;pj;px' or 'pj;px' against the implementation's arrays"""
    parts = reply.split(';')
    want = [enc_ints(a) for a in ([pp, pj] if pp is not None else [pj])]
    if len(parts) != len(want) + 1 or parts[:-1] != want:
        return False
    toks = [] if parts[-1] == '-' else parts[-1].split(',')
    return len(toks) == len(px) and all(val_ok(t, x) for t, x in zip(toks, px))


def cmp_arrays_dense(reply, pp, pj, px):
    """reply 'pp;pj;px' of a model that was fed the canonical (sorted) copy of the input, against the arrays the code
    produced from another storage order: same row pointer, rows equal as dense meanings"""
    parts = reply.split(';')
    if len(parts) != 3 or parts[0] != enc_ints(pp):
        return False
    mj = [] if parts[1] == '-' else [int(t) for t in parts[1].split(',')]
    mx = [] if parts[2] == '-' else parts[2].split(',')
    if len(mj) != len(pj) or len(mx) != len(px):
        return False
    for i in range(len(pp) - 1):
        a, b = int(pp[i]), int(pp[i + 1])
        mr = sorted(zip(mj[a:b], mx[a:b]), key=lambda cw: cw[0])
        ir = sorted(zip([int(c) for c in pj[a:b]], px[a:b]), key=lambda cw: cw[0])
        if [c for c, _ in mr] != [c for c, _ in ir] or not all(val_ok(t, x) for (_, t), (_, x) in zip(mr, ir)):
            return False
    return True


def parse_rows(reply):
    if reply == 'none':
        return []
    out = []
    for r in reply.split(';'):
        out.append([] if r == '-' else [(int(t.split(':')[0]), t.split(':')[1]) for t in r.split(',')])
    return out


def cmp_rows(reply, rows, skip_nonfinite=True, unordered=False, tol=None):
    """proof-side rows (exact, x/0 = 0 convention) against implementation rows; rows where the code produced
    inf/nan are outside the proof-side model (the array model must say `inf` there) and skipped. unordered: the model
    was fed another storage order of the same matrices -- compare the rows as dense meanings (sorted by column)"""
    try:
        m = parse_rows(reply)
    except Exception:
        return False
    if unordered:
        m, rows = sort_rows(m), sort_rows(rows)
    if len(m) != len(rows):
        return False
    for mr, ir in zip(m, rows):
        if skip_nonfinite and any(not np.isfinite(w) for _, w in ir):
            _ERR[1] += 1
            continue
        if len(mr) != len(ir):
            return False
        for (c1, t), (c2, w) in zip(mr, ir):
            if c1 != c2 or not val_ok(t, w, tol):
                return False
    return True


def _show(A):
    return f'{enc_ints(A.indptr)};{enc_ints(A.indices)};{enc_rats(A.data)}'


def _cp(A):
    return sp.csr_array((A.data.copy(), A.indices.copy(), A.indptr.copy()), shape=A.shape)


def api_strength_scipy(Acsr, Cmat, split, modified):
    """the glue of classical_interpolation(theta=None) with SciPy and the rebuilt kernel, step by step"""
    from pyamg import amg_core
    C = _cp(Cmat)
    C.eliminate_zeros()
    if modified:
        amg_core.remove_strong_FF_connections(Acsr.shape[0], C.indptr, C.indices, C.data, split)
    C.eliminate_zeros()
    C.data[:] = 1.0
    return sp.csr_array(C.multiply(Acsr))


def cmp_csr(reply, A, exact=True):
    parts = reply.split(';')
    if len(parts) != 3 or parts[0] != enc_ints(A.indptr) or parts[1] != enc_ints(A.indices):
        return False
    if exact:
        return parts[2] == enc_rats(A.data)
    toks = [] if parts[2] == '-' else parts[2].split(',')
    return len(toks) == len(A.data) and all(val_ok(t, x) for t, x in zip(toks, A.data))


class Batch:
    """collects protocol lines with their comparison closures; one Lean run at the end"""

    def __init__(self, ctx):
        self.ctx = ctx
        self.items = []

    def add(self, op, line, ok, case, impl):
        self.items.append((op, line, ok, case, impl))

    def flush(self):
        if not self.items:
            return
        outs = self.ctx.lean([it[1] for it in self.items])
        for (op, line, ok, case, impl), o in zip(self.items, outs):
            good = False
            try:
                good = ok(o)
            except Exception:
                good = False
            if not good:
                self.ctx.corr(op, case, o, impl)
        self.items = []
        self.ctx.rel_err(min(_ERR[0], TOL))       # differences above TOL are correspondence failures, reported as such
        if _ERR[1]:
            self.ctx.feat('rows_with_division_by_zero_skipped_in_proof_side_comparison', _ERR[1])
            _ERR[1] = 0


# ------------------------------------------------------------------------------------------------
# part A: raw kernels + public interpolation functions on one case
# ------------------------------------------------------------------------------------------------

def nan_f(k):
    return np.full(k, np.nan)


class GuardError(Exception):
    pass


class StructError(Exception):
    pass


def dense(P):
    """toarray() after validating the index arrays (SciPy does not: an out-of-range column would corrupt the heap)"""
    if P.format == 'bsr':
        nr, nb = P.shape[0] // P.blocksize[0], P.shape[1] // P.blocksize[1]
    else:
        P = sp.csr_array(P)
        nr, nb = P.shape
    ip, ix = np.asarray(P.indptr), np.asarray(P.indices)
    if len(ip) != nr + 1 or ip[0] != 0 or np.any(np.diff(ip) < 0) or ip[-1] > len(ix):
        raise StructError(f'invalid row pointer {ip.tolist()[:20]}')
    if ip[-1] > 0 and (ix[:ip[-1]].min() < 0 or ix[:ip[-1]].max() >= nb):
        raise StructError(f'column index outside 0..{nb - 1}: {ix[:ip[-1]].tolist()[:30]}')
    return P.toarray()


GUARDED = {'rs_direct_interpolation_pass2': (9, 10), 'rs_classical_interpolation_pass2': (9, 10), 'one_point_interpolation': (1, 2),
           'approx_ideal_restriction_pass2': (1, 2), 'block_approx_ideal_restriction_pass2': (1, 2)}


@contextlib.contextmanager
def guarded_kernels():
    """While active, the value-pass kernels run on padded copies of their output arrays: a wrapper (or a pass 2) that
    disagrees with the sizes computed by pass 1 raises GuardError instead of corrupting the heap of the check."""
    from pyamg import amg_core
    saved = {}

    def wrap(name, outs):
        orig = getattr(amg_core, name)

        def f(*args):
            args = list(args)
            big = {}
            for k in outs:
                a = args[k]
                fill = np.nan if a.dtype.kind == 'f' else -1234567
                b = np.concatenate([a, np.full(8 * len(a) + 8192, fill, dtype=a.dtype)])
                big[k] = (a, b)
                args[k] = b
            r = orig(*args)
            bad = None
            for k, (a, b) in big.items():
                tail = b[len(a):]
                if not (np.all(np.isnan(tail)) if a.dtype.kind == 'f' else np.all(tail == -1234567)):
                    bad = k
                a[:] = b[:len(a)]
            if bad is not None:
                raise GuardError(f'{name} wrote behind the end of its output array (argument {bad})')
            return r
        saved[name] = orig
        setattr(amg_core, name, f)
    for name, outs in GUARDED.items():
        if hasattr(amg_core, name):
            wrap(name, outs)
    try:
        yield
    finally:
        for name, orig in saved.items():
            setattr(amg_core, name, orig)


def guard(pj, px, nnz, name, viol):
    """the kernel must not write behind the nnz entries its pass 1 / its caller sized the output for"""
    if np.any(pj[nnz:] != -1) or not np.all(np.isnan(px[nnz:])):
        viol(f'{name} writes behind the {nnz} entries of the output arrays (row pointer and value pass disagree)', routine=name)
        return True
    return False


def interp_case(ctx, B, A, M, split, tags, S=None, Acsr=None, api=True, onept_vals=None, layout=None):
    """A dense (canonical) or Acsr given (raw, possibly unsorted/duplicates: kernels only); M strength mask;
    layout: storage order of the rows of A / of the strength matrices (dense A only; the oracles do not see it)"""
    from pyamg import amg_core
    from pyamg.classical import interpolate as IP
    n = A.shape[0] if A is not None else Acsr.shape[0]
    canonical = Acsr is None
    if canonical:
        Acsr = relayout(_csr(A), layout, 'A')
        if S is None:
            S = s_with_values(A, M)
        S = relayout(S, layout, 'S', 1)
        if onept_vals is not None:
            onept_vals = relayout(onept_vals, layout, 'S', 2)
        if layout is not None:
            tags = tags + ['layout:A=' + layout['A'] + '/' + layout['Af'], 'layout:S=' + layout['S'] + '/' + layout['Sf']]
    else:
        layout = None
    split = _i32(split)
    nF = int(n - split.sum())
    strongF = canonical and any(M[i, j] for i in range(n) for j in range(n) if split[i] == 0 and j != i)
    nontriv = bool(0 < nF < n and (strongF or not canonical))
    case0 = {'kind': 'interp', 'n': n, 'Ap': Acsr.indptr.tolist(), 'Aj': Acsr.indices.tolist(), 'Ax': Acsr.data.tolist(),
             'Sp': S.indptr.tolist(), 'Sj': S.indices.tolist(), 'Sx': S.data.tolist(), 'split': split.tolist(),
             'canonical': canonical, 'tags': tags, 'layout': layout}
    keybase = (Acsr.indptr.tobytes(), Acsr.indices.tobytes(), Acsr.data.tobytes(), S.indptr.tobytes(), S.indices.tobytes(),
               split.tobytes())
    hA, hS, hs = _hdr(Acsr), _hdr0(S), enc_ints(split)
    for t in tags:
        ctx.feat(t)

    def reg(routine, **kw):
        ctx.case(key=_key(routine, sorted(kw.items()), keybase), nontrivial=nontriv,
                 sample=({'routine': routine, 'n': n, 'tags': tags, **kw} if ctx.evaluations % 997 == 0 else None))
        ctx.feat('routine:' + routine)

    def viol(what, fkey=None, **extra):
        ctx.violation(what, {**case0, **extra}, fkey=fkey)

    def judge(routine, rows, shape=None, **extra):
        if not canonical:
            return
        e = judge_interp(routine, A, M, split, rows, shape)
        if e:
            viol(f'{extra.get("call", routine)}: {e}', routine=routine, **extra)

    # ---- raw direct interpolation
    overflow = False
    reg('k_direct')
    pp = np.full(n + 1, -7, dtype=np.int32)
    amg_core.rs_direct_interpolation_pass1(n, S.indptr, S.indices, split, pp)
    nnz = max(int(pp[-1]), 0)
    slack = S.nnz + n + 1                   # guard zone: a pass 2 that disagrees with pass 1 must not corrupt the heap
    pj = np.full(nnz + slack, -1, dtype=np.int32)
    px = nan_f(nnz + slack)
    amg_core.rs_direct_interpolation_pass2(n, Acsr.indptr, Acsr.indices, Acsr.data, S.indptr, S.indices, S.data, split, pp, pj, px)
    overflow = overflow or guard(pj, px, nnz, 'rs_direct_interpolation_pass2', viol)
    pj, px = pj[:nnz].copy(), px[:nnz].copy()
    rows_d = csr_rows(n, pp, pj, px)
    impl = f'{enc_ints(pp)};{enc_ints(pj)};{px.tolist()}'
    B.add('direct', f'direct {hA} {hS} {hs}', lambda o, pp=pp, pj=pj, px=px: cmp_arrays(o, pp, pj, px), case0, impl)
    B.add('c11_p_direct', f'c11_p_direct {hA} {hS} {hs}', lambda o, r=rows_d: cmp_rows(o, r), case0, impl)
    judge('direct', rows_d, call='rs_direct_interpolation_pass1/2')

    # ---- raw classical interpolation, modified off / on
    pp1 = np.full(n + 1, -7, dtype=np.int32)
    amg_core.rs_classical_interpolation_pass1(n, S.indptr, S.indices, split, pp1)
    B.add('c11_cls1', f'c11_cls1 {_pat(S)} {hs}', lambda o, pp1=pp1: o == enc_ints(pp1), case0, enc_ints(pp1))
    sx2 = S.data.copy()
    amg_core.remove_strong_FF_connections(n, S.indptr, S.indices, sx2, split)
    B.add('c11_rmff', f'c11_rmff {_hdr(S)} {hs}', lambda o, sx2=sx2: o == enc_rats(sx2), case0, enc_rats(sx2))
    S2 = sp.csr_array((sx2.copy(), S.indices.copy(), S.indptr.copy()), shape=S.shape)
    S2.eliminate_zeros()
    S2 = gen.csr_from_arrays(n, S2.indptr, S2.indices, S2.data)
    for modified, Sm in ((False, S), (True, S2)):
        reg('k_classical', modified=modified)
        ppm = np.full(n + 1, -7, dtype=np.int32)
        amg_core.rs_classical_interpolation_pass1(n, Sm.indptr, Sm.indices, split, ppm)
        nnz = max(int(ppm[-1]), 0)
        pj = np.full(nnz + slack, -1, dtype=np.int32)
        px = nan_f(nnz + slack)
        amg_core.rs_classical_interpolation_pass2(n, Acsr.indptr, Acsr.indices, Acsr.data, Sm.indptr, Sm.indices, Sm.data,
                                                  split, ppm, pj, px, modified)
        overflow = overflow or guard(pj, px, nnz, f'rs_classical_interpolation_pass2(modified={modified})', viol)
        pj, px = pj[:nnz].copy(), px[:nnz].copy()
        rows_c = csr_rows(n, ppm, pj, px)
        impl = f'{enc_ints(ppm)};{enc_ints(pj)};{px.tolist()}'
        md = '1' if modified else '0'
        B.add('c11_cls2', f'c11_cls2 {enc_rat(EPS)} {md} {hA} {_hdr0(Sm)} {hs} {enc_ints(ppm)}',
              lambda o, pj=pj, px=px: cmp_arrays(o, None, pj, px), {**case0, 'modified': modified}, impl)
        # proof-side whole operator: for modified it removes the F-F connections itself (input = S)
        B.add('c11_p_classical', f'c11_p_classical {enc_rat(EPS)} {md} {hA} {hS} {hs}',
              lambda o, r=rows_c: cmp_rows(o, r), {**case0, 'modified': modified}, impl)
        judge('modified' if modified else 'classical', rows_c, call=f'rs_classical_interpolation_pass1/2(modified={modified})',
              modified=modified)

    # ---- raw one-point interpolation (strength values: A's values, or supplied ones with ties)
    reg('k_onepoint')
    Cv = S if onept_vals is None else onept_vals
    pp = np.full(n + 1, -7, dtype=np.int32)
    pj = np.full(2 * n + 1, -1, dtype=np.int32)
    px = nan_f(2 * n + 1)
    amg_core.one_point_interpolation(pp, pj, px, Cv.indptr, Cv.indices, Cv.data, split)
    overflow = overflow or guard(pj, px, n, 'one_point_interpolation', viol)
    pj, px = pj[:n].copy(), px[:n].copy()
    k = min(max(int(pp[-1]), 0), n)
    impl = f'{enc_ints(pp)};{enc_ints(pj[:k])};{px[:k].tolist()}'
    B.add('c11_onept', f'c11_onept {_hdr(Cv)} {hs}', lambda o, pp=pp, pj=pj[:k], px=px[:k]: cmp_arrays(o, pp, pj, px), case0, impl)
    rows_o = csr_rows(n, pp, pj, px)
    B.add('c11_p_onept', f'c11_p_onept {_hdr(Cv)} {hs}', lambda o, r=rows_o: cmp_rows(o, r, False), case0, impl)
    Cd = Cv.toarray()
    Cm = np.zeros((n, n), dtype=bool)
    for i in range(n):
        Cm[i, Cv.indices[Cv.indptr[i]:Cv.indptr[i + 1]]] = True
    if no_dups(Cv):
        e = judge_onepoint(Cd, Cm, split, rows_o, True)
        if e:
            viol(f'one_point_interpolation kernel: {e}', routine='k_onepoint')

    if not (api and canonical) or overflow:
        return
    # ---- public functions ------------------------------------------------------------------
    Cvals = M.astype(float) * (1 + (np.arange(n * n).reshape(n, n) % 3))            # strength values are irrelevant ...
    zeros = (A != 0) & ~M & (ctx.np_rng.random((n, n)) < 0.3) if ctx.evaluations % 3 == 0 else np.zeros((n, n), dtype=bool)
    Cmat = _csr(np.where(zeros, 7.0, Cvals))                                         # ... and stored zeros are no connections
    Cmat.data[Cmat.data == 7.0] = 0.0
    Cmat = relayout(Cmat, layout, 'S', 3)
    unord = layout is not None
    fA, fC = (lambda: fresh(Acsr, layout, 'A')), (lambda: fresh(Cmat, layout, 'S'))
    if zeros.any():
        ctx.feat('strength:stored-zeros')
    hC = _hdr0(Cmat)
    # the driver-local second opinion (c11_api_*) is written for canonical input: it gets the sorted copies and is compared with
    # what the code made of the stored order as dense meanings; the composed glue models (ext_c11_api_*) get the arrays as stored
    cmpa = cmp_arrays_dense if unord else cmp_arrays
    hA0, hC0 = (_hdr(sorted_copy(Acsr)), _hdr0(sorted_copy(Cmat))) if unord else (hA, hC)
    # direct / classical with theta=None
    calls = [('direct', None, lambda: IP.direct_interpolation(fA(), fC(), split)),
             ('classical', False, lambda: IP.classical_interpolation(fA(), fC(), split, modified=False)),
             ('modified', True, lambda: IP.classical_interpolation(fA(), fC(), split, modified=True)),
             ('modified', 'default', lambda: IP.classical_interpolation(fA(), fC(), split))]
    for routine, modified, f in calls:
        name = 'direct_interpolation' if routine == 'direct' else f'classical_interpolation(modified={modified})'
        reg('api_' + routine, modified=str(modified))
        try:
            P = f()
        except Exception as ex:
            viol(f'{name} raised {type(ex).__name__}: {ex}', routine=routine, api=True)
            continue
        P = sp.csr_array(P)
        rows = csr_rows(n, P.indptr, P.indices, P.data) if P.indptr.shape[0] == n + 1 else []
        impl = f'{enc_ints(P.indptr)};{enc_ints(P.indices)};{P.data.tolist()}'
        if routine == 'direct':
            B.add('c11_api_direct', f'c11_api_direct {hA0} {hC0} {hs}',
                  lambda o, P=P: cmpa(o, P.indptr, P.indices, P.data), {**case0, 'api': name}, impl)
            B.add('ext_c11_api_direct', f'ext_c11_api_direct {hA} {hC} {hs}',
                  lambda o, P=P: cmp_arrays(o, P.indptr, P.indices, P.data), {**case0, 'api': name}, impl)
            B.add('c11_p_direct(api)', f'c11_p_direct {hA} {hS} {hs}', lambda o, r=rows: cmp_rows(o, r, unordered=unord),
                  {**case0, 'api': name}, impl)
        else:
            md = '0' if modified is False else '1'
            B.add('c11_api_classical', f'c11_api_classical {enc_rat(EPS)} {md} {hA0} {hC0} {hs}',
                  lambda o, P=P: cmpa(o, P.indptr, P.indices, P.data), {**case0, 'api': name}, impl)
            B.add('ext_c11_api_classical', f'ext_c11_api_classical {enc_rat(EPS)} {md} {hA} {hC} {hs}',
                  lambda o, P=P: cmp_arrays(o, P.indptr, P.indices, P.data), {**case0, 'api': name}, impl)
            B.add('c11_p_classical(api)', f'c11_p_classical {enc_rat(EPS)} {md} {hA} {hS} {hs}',
                  lambda o, r=rows: cmp_rows(o, r, unordered=unord), {**case0, 'api': name}, impl)
        judge(routine, rows, shape=P.shape, call=name, api=True)
        if len(rows) == n and P.shape == (n, int(split.sum())):
            skip_rows = routine == 'classical'
            bad = judge_constants(A, M, split, P)
            if bad and not (skip_rows and rows_lack_common_c(A, M, split, bad[0])):
                viol(f'{name}: (P 1)[{bad[0]}] = {bad[1]!r} on a zero-row-sum M-matrix row with a strong C-point: constants '
                     f'are not interpolated exactly', routine=routine, api=True, call=name)
    # the strength matrix the wrapper hands to the kernels: SciPy glue step by step vs the composed glue model
    for modified in (False, True):
        Sg = api_strength_scipy(Acsr, Cmat, split, modified)
        B.add('ext_c11_api_strength', f'ext_c11_api_strength {"1" if modified else "0"} {hA} {hC} {hs}',
              lambda o, Sg=Sg: cmp_csr(o, Sg), {**case0, 'api': f'glue(modified={modified})'}, _show(Sg))
    # one-point through the public function (by value / by pattern)
    cmap0 = np.concatenate([[0], np.cumsum(split)])
    for by_val in (False, True):
        reg('api_onepoint', by_val=by_val)
        Cgiven = Cv if no_dups(Cv) else s_with_values(A, M)                 # strength handed to the function
        Cop = Acsr if by_val else Cgiven                                    # what the rule must be applied to
        try:
            P = sp.csr_array(IP.one_point_interpolation(fA(), fresh(Cgiven, layout, 'S'), split, by_val=by_val))
            rows = csr_rows(n, P.indptr, P.indices, P.data)
            Cd = Cop.toarray()
            Cm = (Cd != 0)
            e = judge_onepoint(Cd, Cm, split, rows, by_val)
            if not e and P.shape != (n, int(split.sum())):
                e = f'shape {P.shape}'
            if e:
                viol(f'one_point_interpolation(by_val={by_val}): {e}', routine='api_onepoint', by_val=by_val)
            mrows = rows if by_val else [[(c, -Cd[i, j]) for c, _ in r for j in [k for k in range(n) if split[k] == 1 and cmap0[k] == c][:1]]
                                         if split[i] == 0 else r for i, r in enumerate(rows)]
            B.add('c11_p_onept(api)', f'c11_p_onept {_hdr(Cop)} {hs}', lambda o, r=mrows: cmp_rows(o, r, False),
                  {**case0, 'api': f'one_point_interpolation(by_val={by_val})'}, str(rows))
        except Exception as ex:
            viol(f'one_point_interpolation(by_val={by_val}) raised {type(ex).__name__}: {ex}', routine='api_onepoint', by_val=by_val)
    # injection
    reg('api_injection')
    try:
        P = sp.csr_array(IP.injection_interpolation(fA(), split))
        rows = csr_rows(n, P.indptr, P.indices, P.data)
        cmap = np.concatenate([[0], np.cumsum(split)])
        e = None
        if P.shape != (n, int(split.sum())):
            e = f'shape {P.shape}'
        for i in range(n):
            want = [(int(cmap[i]), 1.0)] if split[i] == 1 else []
            if e is None and rows[i] != want:
                e = f'row {i} is {rows[i]}, expected {want}'
        if e:
            viol(f'injection_interpolation: {e}', routine='api_injection')
        B.add('c11_inj', f'c11_inj {n} {hs}', lambda o, P=P: o == f'{enc_ints(P.indptr)};{enc_ints(P.indices)}', case0,
              f'{enc_ints(P.indptr)};{enc_ints(P.indices)}')
        B.add('c11_p_inj', f'c11_p_inj {n} {hs}', lambda o, r=rows: cmp_rows(o, r, False), case0, str(rows))
    except Exception as ex:
        viol(f'injection_interpolation raised {type(ex).__name__}: {ex}', routine='api_injection')
    # other sparse formats are converted to CSR by injection / one-point: same operator expected
    if ctx.evaluations % 7 == 0 or 'replay' in tags:
        reg('api_formats')
        try:
            Acsc = sp.csc_array(Acsr)
            Acsc.indptr, Acsc.indices = _i32(Acsc.indptr), _i32(Acsc.indices)
            P1 = dense(IP.injection_interpolation(Acsc, split))
            P0 = dense(IP.injection_interpolation(Acsr, split))
            Q1 = dense(IP.one_point_interpolation(Acsc, Cv if Cv.has_canonical_format else S, split, by_val=False))
            Q0 = dense(IP.one_point_interpolation(Acsr, Cv if Cv.has_canonical_format else S, split, by_val=False))
            if P1.shape != P0.shape or not np.array_equal(P1, P0) or Q1.shape != Q0.shape or not np.array_equal(Q1, Q0):
                viol('injection / one_point_interpolation on CSC input differ from the CSR result', routine='api_formats')
            api_formats_models(ctx, B, Acsr, Cv if Cv.has_canonical_format else S, split, case0, layout, viol)
        except Exception as ex:
            viol(f'injection / one_point_interpolation on CSC input raised {type(ex).__name__}: {ex}', routine='api_formats')


def theta_case(ctx, B, A, split, theta, norm, tags, layout=None):
    """public functions with theta given: the strength matrix must be recomputed from (theta, norm), C ignored"""
    from pyamg.classical import interpolate as IP
    n = A.shape[0]
    Acsr = relayout(_csr(A), layout, 'A')
    M = strength_mask(A, theta, norm)
    S = s_with_values(A, M)
    decoy = _csr(((A != 0) & ~M & ~np.eye(n, dtype=bool)).astype(float) + np.eye(n))     # complement pattern as C
    decoy = relayout(decoy, layout, 'S', 1)
    unord = layout is not None
    if unord:
        ctx.feat('layout:A=' + layout['A'] + '/' + layout['Af'])
    hA, hS, hs = _hdr(Acsr), _hdr0(S), enc_ints(split)
    case0 = {'kind': 'theta', 'A': A.tolist(), 'split': split.tolist(), 'theta': theta, 'norm': norm, 'tags': tags, 'layout': layout}
    nontriv = bool(0 < split.sum() < n)
    try:
        from pyamg.strength import classical_strength_of_connection
        Spub = sp.csr_array(classical_strength_of_connection(fresh(Acsr, layout, 'A'), theta=theta, norm=norm))
        B.add('ext_c11_api_soc', f'ext_c11_api_soc {TINY64} {enc_rat(theta)} {norm} {hA}',
              lambda o, W=Spub: cmp_csr(o, W, False), {**case0, 'api': 'classical_strength_of_connection'}, _show(Spub))
    except Exception as ex:
        ctx.violation(f'classical_strength_of_connection(theta={theta}, norm={norm!r}) raised {type(ex).__name__}: {ex}', case0)
    for routine, modified in (('direct', None), ('classical', False), ('modified', True)):
        name = (f'direct_interpolation(theta={theta}, norm={norm!r})' if routine == 'direct' else
                f'classical_interpolation(theta={theta}, norm={norm!r}, modified={modified})')
        ctx.case(key=_key('theta', routine, theta, norm, A.tobytes(), split.tobytes()), nontrivial=nontriv)
        ctx.feat('routine:api_theta_' + routine)
        try:
            if routine == 'direct':
                P = IP.direct_interpolation(fresh(Acsr, layout, 'A'), fresh(decoy, layout, 'S'), split, theta=theta, norm=norm)
            else:
                P = IP.classical_interpolation(fresh(Acsr, layout, 'A'), fresh(decoy, layout, 'S'), split, theta=theta, norm=norm,
                                               modified=modified)
        except Exception as ex:
            ctx.violation(f'{name} raised {type(ex).__name__}: {ex}', {**case0, 'routine': routine})
            continue
        P = sp.csr_array(P)
        rows = csr_rows(n, P.indptr, P.indices, P.data)
        op = 'c11_p_direct' if routine == 'direct' else 'c11_p_classical'
        pre = '' if routine == 'direct' else f'{enc_rat(EPS)} {"1" if modified else "0"} '
        B.add(op + '(theta)', f'{op} {pre}{hA} {hS} {hs}', lambda o, r=rows: cmp_rows(o, r, unordered=unord), {**case0, 'api': name},
              str(rows)[:2000])
        # the whole theta path as one model: strength kernel, its SciPy tail, the glue, pass 1 / pass 2 (Model/ExtGlue.lean)
        xop = 'ext_c11_api_direct_theta' if routine == 'direct' else 'ext_c11_api_classical_theta'
        B.add(xop, f'{xop} {pre}{TINY64} {enc_rat(theta)} {norm} {hA} {hs}',
              lambda o, P=P: cmp_arrays(o, P.indptr, P.indices, P.data), {**case0, 'api': name},
              f'{enc_ints(P.indptr)};{enc_ints(P.indices)};{P.data.tolist()}')
        e = judge_interp(routine, A, M, split, rows, P.shape)
        if e:
            ctx.violation(f'{name}: {e}', {**case0, 'routine': routine})


# ------------------------------------------------------------------------------------------------
# part B: BSR one-point / injection
# ------------------------------------------------------------------------------------------------

def bsr_case(ctx, A, M, split, bs, layout=None, B=None):
    from pyamg.classical import interpolate as IP
    n = A.shape[0]
    rng = ctx.np_rng
    own = B is None
    if own:
        B = Batch(ctx)
    hs = enc_ints(split)
    Ab = sp.bsr_array(sp.kron(_csr(A), np.ones((bs, bs))).tobsr(blocksize=(bs, bs)))
    Ab.indptr, Ab.indices = _i32(Ab.indptr), _i32(Ab.indices)
    Ab = relayout(Ab, layout, 'A')
    if layout is not None:
        ctx.feat('layout:bsr:A=' + layout['A'] + ',S=' + layout['S'])
    case0 = {'kind': 'bsr', 'A': A.tolist(), 'M': M.astype(int).tolist(), 'split': split.tolist(), 'bs': bs, 'layout': layout}
    nontriv = bool(0 < split.sum() < n)
    cmap = np.concatenate([[0], np.cumsum(split)])
    nc = int(split.sum())
    ctx.case(key=_key('bsr_inj', A.tobytes(), split.tobytes(), bs), nontrivial=nontriv)
    ctx.feat('routine:api_injection_bsr')
    try:
        P = IP.injection_interpolation(fresh(Ab, layout, 'A'), split)
        B.add('ext_c11x_inj(bsr)', f'ext_c11x_inj {_ain(Ab)} {hs}', lambda o, P=P: cmp_bsr_out(o, P), {**case0, 'routine': 'injection'},
              _show_p(P))
        D = dense(P)
        want = np.zeros((n * bs, nc * bs))
        for i in range(n):
            if split[i] == 1:
                want[i * bs:(i + 1) * bs, cmap[i] * bs:(cmap[i] + 1) * bs] = np.eye(bs)
        if D.shape != want.shape or not np.array_equal(D, want):
            ctx.violation('injection_interpolation(BSR): P is not the block injection', {**case0, 'routine': 'injection'})
    except Exception as ex:
        ctx.violation(f'injection_interpolation(BSR) raised {type(ex).__name__}: {ex}', {**case0, 'routine': 'injection'})
    ctx.case(key=_key('bsr_one', A.tobytes(), M.tobytes(), split.tobytes(), bs), nontrivial=nontriv)
    ctx.feat('routine:api_onepoint_bsr')
    vals = rng.integers(1, 4, size=(n, n)).astype(float)
    Cb = relayout(_csr(np.where(M, vals, 0.0)), layout, 'S', 1)
    try:
        P = IP.one_point_interpolation(fresh(Ab, layout, 'A'), fresh(Cb, layout, 'S'), split)
        B.add('ext_c11x_onept(bsr)', f'ext_c11x_onept {_ain(Ab)} {_hdr(Cb)} {hs} 0', lambda o, P=P: cmp_bsr_out(o, P),
              {**case0, 'routine': 'onepoint', 'C': Cb.toarray().tolist()}, _show_p(P))
        Pv = IP.one_point_interpolation(fresh(Ab, layout, 'A'), fresh(Cb, layout, 'S'), split, by_val=True)   # ignored for blocks
        B.add('ext_c11x_onept(bsr,by_val)', f'ext_c11x_onept {_ain(Ab)} {_hdr(Cb)} {hs} 1', lambda o, P=Pv: cmp_bsr_out(o, P),
              {**case0, 'routine': 'onepoint', 'by_val': True, 'C': Cb.toarray().tolist()}, _show_p(Pv))
        if dense(Pv).shape != dense(P).shape or not np.array_equal(dense(Pv), dense(P)):
            ctx.violation('one_point_interpolation(BSR, by_val=True) differs from by_val=False (blocks are interpolated by identity)',
                          {**case0, 'routine': 'onepoint', 'by_val': True, 'C': Cb.toarray().tolist()})
        D = dense(P)
        Cd = Cb.toarray()
        e = None
        if D.shape != (n * bs, nc * bs):
            e = f'shape {D.shape}'
        else:
            rows = []
            for i in range(n):
                r = []
                for c in range(nc):
                    blk = D[i * bs:(i + 1) * bs, c * bs:(c + 1) * bs]
                    if np.array_equal(blk, np.eye(bs)):
                        r.append((c, 1.0))
                    elif blk.any():
                        e = f'block ({i},{c}) is neither 0 nor I'
                rows.append(r)
            e = e or judge_onepoint(Cd, Cd != 0, split, rows, False)
        if e:
            ctx.violation(f'one_point_interpolation(BSR): {e}', {**case0, 'routine': 'onepoint', 'C': Cd.tolist()})
    except Exception as ex:
        ctx.violation(f'one_point_interpolation(BSR) raised {type(ex).__name__}: {ex}', {**case0, 'routine': 'onepoint'})
    if own:
        B.flush()


# ------------------------------------------------------------------------------------------------
# part C: approximate ideal restriction
# ------------------------------------------------------------------------------------------------

def gen_air_matrix(rng, nmax):
    A, kind = gen_matrix(rng, nmax, kind=str(rng.choice(['lap', 'lap_ns', 'upwind', 'mixed'])))
    n = A.shape[0]
    off = np.abs(A - np.diag(np.diag(A))).sum(1)
    offc = np.abs(A - np.diag(np.diag(A))).sum(0)
    A = A - np.diag(np.diag(A)) + np.diag(np.maximum(off, offc) + rng.integers(1, 4, size=n))   # strictly row+column dominant
    return A.astype(float), kind


def air_case(ctx, B, A, split, theta, norm, degree, tags, raw_mask=None, layout=None):
    from pyamg import amg_core
    from pyamg.classical import interpolate as IP
    from pyamg.strength import classical_strength_of_connection
    n = A.shape[0]
    Acsr = relayout(_csr(A), layout, 'A')
    if layout is not None:
        tags = tags + ['layout:air:A=' + layout['A'] + '/' + layout['Af'], 'layout:air:S=' + layout['S'] + '/' + layout['Sf']]
    split = _i32(split)
    cpts = _i32(np.where(split == 1)[0])
    nc = len(cpts)
    M = strength_mask(A, theta, norm)
    case0 = {'kind': 'air', 'A': A.tolist(), 'split': split.tolist(), 'theta': theta, 'norm': norm, 'degree': degree, 'tags': tags,
             'layout': layout}
    nontriv = bool(0 < nc < n and any(air_neighbourhood(M, split, int(c), degree) for c in cpts))
    keyb = (A.tobytes(), split.tobytes(), theta, norm, degree)
    hs = enc_ints(split)
    for t in tags:
        ctx.feat(t)
    maxloc = max([len(air_neighbourhood(M, split, int(c), 2)) for c in cpts] + [0])

    def raw(C, Mm, label):
        """raw kernels on the strength pattern C vs the model; returns True when pass 2 wrote behind pass 1's sizes"""
        ctx.case(key=_key('air_k', keyb, C.indptr.tobytes(), C.indices.tobytes()), nontrivial=nontriv)
        ctx.feat('routine:k_air')
        rp = np.full(nc + 1, -7, dtype=np.int32)
        amg_core.approx_ideal_restriction_pass1(rp, C.indptr, C.indices, cpts, split, degree)
        B.add('c11_air1', f'c11_air1 {_pat(C)} {enc_ints(cpts)} {hs} {degree}', lambda o, rp=rp: o == enc_ints(rp), case0, enc_ints(rp))
        nnz = max(int(rp[-1]), 0)
        slack = nc * (n + 1) + 1
        rj = np.full(nnz + slack, -1, dtype=np.int32)
        rx = np.concatenate([np.zeros(nnz), nan_f(slack)])
        amg_core.approx_ideal_restriction_pass2(rp, rj, rx, Acsr.indptr, Acsr.indices, Acsr.data, C.indptr, C.indices, C.data,
                                                cpts, split, degree, 0, 10, 1)
        if np.any(rj[nnz:] != -1) or not np.all(np.isnan(rx[nnz:])):
            ctx.violation(f'approx_ideal_restriction_pass2 (degree={degree}, {label}) writes behind the {nnz} entries sized by '
                          f'approx_ideal_restriction_pass1', {**case0, 'raw_mask': None if Mm is M else Mm.astype(int).tolist()})
            return True
        rows = csr_rows(nc, rp, rj[:nnz], rx[:nnz])
        B.add('c11_air2', f'c11_air2 {_hdr(Acsr)} {_pat0(C)} {enc_ints(cpts)} {hs} {degree}',
              lambda o, r=rows: cmp_rows(o, r, False), case0, str(rows)[:3000])
        Rd = np.zeros((nc, n))
        for r, row in enumerate(rows):
            for c, v in row:
                if 0 <= c < n:
                    Rd[r, c] += v
        e = judge_air(A, Mm, split, Rd, degree)
        if e:
            ctx.violation(f'approx_ideal_restriction_pass1/2 (degree={degree}, {label}): {e}',
                          {**case0, 'raw_mask': None if Mm is M else Mm.astype(int).tolist()})
        return False

    # ---- raw kernels on the library's strength matrix (what local_air hands them), then on an arbitrary pattern
    C = classical_strength_of_connection(fresh(Acsr, layout, 'A'), theta=theta, block=False, norm=norm)
    C = gen.csr_from_arrays(n, C.indptr, C.indices, C.data)
    if layout is not None:           # the strength matrix handed to the raw kernels gets its own storage order, independent of A's
        C.sort_indices()
        C = relayout(C, layout, 'S', 1)
    Mlib = np.zeros((n, n), dtype=bool)
    for i in range(n):
        Mlib[i, C.indices[C.indptr[i]:C.indptr[i + 1]]] = True
    if not np.array_equal(Mlib, M):
        ctx.feat('strength_oracle_differs_from_library')     # C14's business; the AIR oracle then uses the library pattern
    overflow = raw(C, M if np.array_equal(Mlib, M) else Mlib, 'library strength')
    if raw_mask is not None:
        overflow = raw(relayout(_csr(raw_mask.astype(float)), layout, 'S', 2), raw_mask, 'arbitrary pattern') or overflow
    if overflow:
        return
    # ---- extension E49: the kernel with GMRES local solves vs the exact model row and the dense_GMRES model
    try:
        air_gmres_kernel(ctx, B, A, Acsr, C, M if np.array_equal(Mlib, M) else Mlib, split, cpts, degree, case0, nontriv)
    except GuardError as ex:
        ctx.violation(f'approx_ideal_restriction_pass2 (use_gmres): {ex}', {**case0, 'use_gmres': True})
    # ---- public function, CSR: direct and GMRES local solves
    for use_gmres, precond in ((False, True), (True, True), (True, False)):
        name = f'local_air(theta={theta}, norm={norm!r}, degree={degree}, use_gmres={use_gmres}, precondition={precond})'
        ctx.case(key=_key('air', use_gmres, precond, keyb), nontrivial=nontriv,
                 sample=({'routine': name, 'n': n, 'nc': nc} if ctx.evaluations % 499 == 0 else None))
        ctx.feat('routine:local_air' + ('_gmres' if use_gmres else ''))
        try:
            R = IP.local_air(fresh(Acsr, layout, 'A'), split, theta=theta, norm=norm, degree=degree, use_gmres=use_gmres,
                             maxiter=max(10, maxloc + 1), precondition=precond)
            e = judge_air(A, M, split, dense(R), degree, tol=AIR_TOL_GMRES if use_gmres else AIR_TOL)
            if e:
                ctx.violation(f'{name}: {e}', {**case0, 'use_gmres': use_gmres, 'precondition': precond})
        except Exception as ex:
            ctx.violation(f'{name} raised {type(ex).__name__}: {ex}', {**case0, 'use_gmres': use_gmres, 'precondition': precond})
    if ctx.evaluations % 5 == 0:
        ctx.feat('routine:local_air_csc')
        try:
            Acsc = sp.csc_array(Acsr)
            Acsc.indptr, Acsc.indices = _i32(Acsc.indptr), _i32(Acsc.indices)
            R = IP.local_air(Acsc, split, theta=theta, norm=norm, degree=degree)
            e = judge_air(A, M, split, dense(R), degree)
            if e:
                ctx.violation(f'local_air(CSC input, theta={theta}, norm={norm!r}, degree={degree}): {e}', {**case0, 'format': 'csc'})
        except Exception as ex:
            ctx.violation(f'local_air(CSC input) raised {type(ex).__name__}: {ex}', {**case0, 'format': 'csc'})


def air_bsr_case(ctx, A, split, theta, degree, bs, layout=None, B=None):
    """block matrix: scalar pattern of A, random strictly dominant blocks; norm='abs' (max |entry| of the block)"""
    from pyamg.classical import interpolate as IP
    rng = ctx.np_rng
    n = A.shape[0]
    D = np.zeros((n * bs, n * bs))
    Bn = np.zeros((n, n))
    for i in range(n):
        for j in range(n):
            if A[i, j] != 0 and i != j:
                blk = rng.integers(-3, 4, size=(bs, bs)).astype(float)
                if not blk.any():
                    blk[0, 0] = 1.0
                D[i * bs:(i + 1) * bs, j * bs:(j + 1) * bs] = blk
                Bn[i, j] = np.abs(blk).max()
    dom = np.maximum(np.abs(D).sum(1), np.abs(D).sum(0))
    for i in range(n):
        blk = rng.integers(-1, 2, size=(bs, bs)).astype(float)
        blk[np.arange(bs), np.arange(bs)] = 0
        D[i * bs:(i + 1) * bs, i * bs:(i + 1) * bs] = blk
    dom = np.maximum(np.abs(D).sum(1), np.abs(D).sum(0))
    D[np.arange(n * bs), np.arange(n * bs)] = dom + rng.integers(1, 3, size=n * bs)
    for i in range(n):
        Bn[i, i] = np.abs(D[i * bs:(i + 1) * bs, i * bs:(i + 1) * bs]).max()
    Ab = sp.bsr_array(sp.csr_array(D).tobsr(blocksize=(bs, bs)))
    Ab.indptr, Ab.indices = _i32(Ab.indptr), _i32(Ab.indices)
    Ab = relayout(Ab, layout, 'A')
    if layout is not None:
        ctx.feat('layout:air_bsr:A=' + layout['A'] + '/' + layout['Af'])
    M = strength_mask(Bn, theta, 'abs')
    split = _i32(split)
    case0 = {'kind': 'air_bsr', 'D': D.tolist(), 'split': split.tolist(), 'theta': theta, 'degree': degree, 'bs': bs, 'layout': layout}
    cpts = np.where(split == 1)[0]
    maxloc = max([len(air_neighbourhood(M, split, int(c), 2)) for c in cpts] + [0]) * bs
    own = B is None
    if own:
        B = Batch(ctx)
    try:
        air_bsr_kernels(ctx, B, Ab, D, M, split, degree, bs, case0)
    except GuardError as ex:
        ctx.violation(f'block AIR kernels: {ex}', {**case0, 'raw': True})
    if own:
        B.flush()
    for use_gmres, precond in ((False, True), (True, False), (True, True)):
        name = f'local_air(BSR {bs}x{bs}, theta={theta}, degree={degree}, use_gmres={use_gmres}, precondition={precond})'
        ctx.case(key=_key('air_bsr', D.tobytes(), split.tobytes(), theta, degree, use_gmres, precond), nontrivial=bool(0 < len(cpts) < n))
        ctx.feat('routine:local_air_bsr' + ('_gmres' if use_gmres else ''))
        try:
            R = IP.local_air(fresh(Ab, layout, 'A'), split, theta=theta, norm='abs', degree=degree, use_gmres=use_gmres,
                             maxiter=max(10, maxloc + 1), precondition=precond)
            e = judge_air(D, M, split, dense(R), degree, tol=AIR_TOL_GMRES if use_gmres else AIR_TOL, bs=bs)
            if e:
                ctx.violation(f'{name}: {e}', {**case0, 'use_gmres': use_gmres, 'precondition': precond})
        except Exception as ex:
            ctx.violation(f'{name} raised {type(ex).__name__}: {ex}', {**case0, 'use_gmres': use_gmres, 'precondition': precond})


# ------------------------------------------------------------------------------------------------
# extension E49: block AIR kernel, BSR / CSC wrappers, dense_GMRES -- Lean models (ops ext_c11x_*)
# ------------------------------------------------------------------------------------------------

GM_TOL = 1e-9            # dense_GMRES model (binary64, operation for operation) vs the code
GM_ROW_TOL = 1e-6        # rows computed with GMRES local solves vs the exact rows of the model: dense_GMRES tests breakdown with
#                          the absolute threshold 1e-12 and keeps iterating on rounding noise when the Krylov space is exhausted
#                          earlier; its result is then accurate to about 1e-8 only (the dense oracle judges (R A) = 0 at 1e-8)
GM_NEAR = 1e-5           # a stored subdiagonal entry below GM_NEAR * (largest one) = Krylov space exhausted up to rounding


def e49_rng(*parts):
    """own random stream of the E49 additions, derived from the case: the stream of the other parts of this check is
    exactly what it was before the extension"""
    h = hashlib.sha1()
    for q in parts:
        h.update(q if isinstance(q, bytes) else repr(q).encode())
    return np.random.default_rng(int.from_bytes(h.digest()[:8], 'little'))


def _bits(x):
    x = np.ascontiguousarray(np.asarray(x, dtype=np.float64))
    return ','.join(str(int(v)) for v in x.view(np.uint64)) if x.size else '-'


def _unbits(tok):
    if tok in ('-', ''):
        return np.zeros(0)
    return np.array([int(t) for t in tok.split(',')], dtype=np.uint64).view(np.float64)


def _ain(X):
    """the <A...> tokens of ext_c11x_inj / ext_c11x_onept: the arrays exactly as stored"""
    if X.format == 'bsr':
        return (f'bsr {X.shape[0]} {X.shape[1]} {X.blocksize[0]} {X.blocksize[1]} {enc_ints(X.indptr)} {enc_ints(X.indices)} '
                f'{enc_rats(np.asarray(X.data).ravel())}')
    return f'{X.format} {X.shape[0]} {X.shape[1]} {enc_ints(X.indptr)} {enc_ints(X.indices)} {enc_rats(X.data)}'


def cmp_bsr_out(reply, P):
    """reply 'rows,cols,bs;indptr;indices;data' of apiInjection / apiOnePoint vs the SciPy matrix the wrapper returned"""
    parts = reply.split(';')
    bs = int(P.blocksize[0]) if P.format == 'bsr' else 1
    nnz = int(P.indptr[-1])
    want = [f'{P.shape[0]},{P.shape[1]},{bs}', enc_ints(P.indptr), enc_ints(P.indices[:nnz])]
    if len(parts) != 4 or parts[:3] != want:
        return False
    toks = [] if parts[3] == '-' else parts[3].split(',')
    data = np.asarray(P.data).ravel()[:nnz * bs * bs]
    return len(toks) == len(data) and all(val_ok(t, x) for t, x in zip(toks, data))


def _show_p(P):
    nnz = int(P.indptr[-1])
    return f'{P.shape};{enc_ints(P.indptr)};{enc_ints(P.indices[:nnz])};{np.asarray(P.data).ravel().tolist()}'[:3000]


def cmp_brows(reply, rows, tol=None):
    """reply of ext_c11x_bair2 vs the block rows [(col, flat block)] of the kernel"""
    if reply == 'singular':
        return False
    m = [] if reply == 'none' else [[] if r == '-' else r.split(',') for r in reply.split(';')]
    if len(m) != len(rows):
        return False
    for mr, ir in zip(m, rows):
        if len(mr) != len(ir):
            return False
        for ent, (c, blk) in zip(mr, ir):
            col, vals = ent.split(':')
            toks = vals.split('|')
            if int(col) != c or len(toks) != len(blk) or not all(val_ok(t, x, tol) for t, x in zip(toks, blk)):
                return False
    return True


_GM = {'ctx': None, 'max': 0.0}


def cmp_gmres(reply, x):
    """reply 'x;trace' of ext_c11x_gmres vs the local solve of the kernel. When the run normalised a vector of rounding
    noise (a stored subdiagonal entry tiny against the others: Krylov space exhausted, not detected by the 1e-12 test)
    the iteration amplifies last-bit differences without bound: such runs are counted as skipped near-threshold decisions
    when they disagree"""
    if reply == 'bad-size' or ';' not in reply:
        return False
    xs, tr = reply.split(';')
    m = _unbits(xs)
    if len(m) != len(x) or not np.all(np.isfinite(x)):
        return False
    d = np.abs(m - x) / (1 + np.abs(x)) if np.all(np.isfinite(m)) else np.array([np.inf])
    if np.all(d <= GM_TOL):
        if len(d):
            _GM['max'] = max(_GM['max'], float(d.max()))
        return True
    h = np.abs(_unbits(tr))
    h = h[h > 0]
    if len(h) and h.min() < GM_NEAR * h.max():
        if _GM['ctx'] is not None:
            _GM['ctx'].near_skipped += 1
        return True
    return False


def gmres_line(Aloc, b, maxiter, pc):
    """Aloc[i, j] = the entry dense_GMRES reads as A[col_major(i, j, n)]"""
    return f'ext_c11x_gmres {";".join(_bits(r) for r in Aloc)} {_bits(b)} {int(maxiter)} {int(pc)}'


def air_gmres_kernel(ctx, B, A, Acsr, C, Mm, split, cpts, degree, case0, nontriv):
    """scalar kernel with use_gmres = 1: every row vs the exact model row (full length) and, for some C-points, the local
    solve vs the dense_GMRES model on the local system (also truncated, maxiter < local size)"""
    from pyamg import amg_core
    n = A.shape[0]
    nc = len(cpts)
    rng = e49_rng(b'air_gmres', A.tobytes(), split.tobytes(), degree)
    _GM['ctx'] = ctx
    rp = np.full(nc + 1, -7, dtype=np.int32)
    amg_core.approx_ideal_restriction_pass1(rp, C.indptr, C.indices, cpts, split, degree)
    nnz = max(int(rp[-1]), 0)
    sizes = [int(rp[r + 1] - rp[r] - 1) for r in range(nc)]
    full = max(sizes + [0]) + 1
    for pc in (1, 0):
        for maxiter in ((0, full, max(1, min(full - 2, int(rng.integers(1, 3))))) if pc else (full,)):
            exact = maxiter == 0 or maxiter >= full - 1
            ctx.case(key=_key('air_k_gmres', A.tobytes(), split.tobytes(), degree, C.indptr.tobytes(), C.indices.tobytes(), pc, maxiter),
                     nontrivial=nontriv)
            ctx.feat('routine:k_air_gmres' + ('' if exact else '_truncated'))
            slack = nc * (n + 1) + 1
            rj = np.full(nnz + slack, -1, dtype=np.int32)
            rx = np.concatenate([np.zeros(nnz), nan_f(slack)])
            amg_core.approx_ideal_restriction_pass2(rp, rj, rx, Acsr.indptr, Acsr.indices, Acsr.data, C.indptr, C.indices, C.data,
                                                    cpts, split, degree, 1, maxiter, pc)
            cs = {**case0, 'use_gmres': True, 'precondition': bool(pc), 'maxiter': int(maxiter)}
            if np.any(rj[nnz:] != -1) or not np.all(np.isnan(rx[nnz:])):
                ctx.violation('approx_ideal_restriction_pass2 (use_gmres) writes behind the entries sized by pass 1', cs)
                return
            rows = csr_rows(nc, rp, rj[:nnz], rx[:nnz])
            if exact:
                B.add('c11_air2(gmres)', f'c11_air2 {_hdr(Acsr)} {_pat0(C)} {enc_ints(cpts)} {enc_ints(split)} {degree}',
                      lambda o, r=rows: cmp_rows(o, r, False, tol=GM_ROW_TOL), cs, str(rows)[:3000])
                Rd = np.zeros((nc, n))
                for r, row in enumerate(rows):
                    for c, v in row:
                        if 0 <= c < n:
                            Rd[r, c] += v
                e = judge_air(A, Mm, split, Rd, degree, tol=AIR_TOL_GMRES)
                if e:
                    ctx.violation(f'approx_ideal_restriction_pass2 (use_gmres=1, precondition={pc}, maxiter={maxiter}): {e}', cs)
            # the local solve itself, on up to three rows
            cand = [r for r in range(nc) if sizes[r] > 0]
            for r in ([cand[i] for i in rng.permutation(len(cand))[:3]] if cand else []):
                nf = [c for c, _ in rows[r][:-1]]
                Aloc = A[np.ix_(nf, nf)].T
                b = -A[int(cpts[r]), nf]
                x = np.array([v for _, v in rows[r][:-1]])
                B.add('ext_c11x_gmres', gmres_line(Aloc, b, maxiter, pc), lambda o, x=x: cmp_gmres(o, x),
                      {**cs, 'row': int(r)}, x.tolist())


def air_bsr_kernels(ctx, B, Ab, D, M, split, degree, bs, case0):
    """block_approx_ideal_restriction_pass2 (QR and GMRES local solves) vs the model C11XB.bairPass2; the assembled local
    system of the model vs D[N, N]; the GMRES local solves vs the dense_GMRES model"""
    from pyamg import amg_core
    from pyamg.strength import classical_strength_of_connection
    rng = e49_rng(b'bair', D.tobytes(), split.tobytes(), degree, bs)
    _GM['ctx'] = ctx
    n = M.shape[0]
    cpts = _i32(np.where(split == 1)[0])
    nc = len(cpts)
    theta = case0['theta']
    C = classical_strength_of_connection(A=Ab.copy(), theta=theta, block=True, norm='abs')
    C = gen.csr_from_arrays(n, C.indptr, C.indices, C.data)
    Mlib = np.zeros((n, n), dtype=bool)
    for i in range(n):
        Mlib[i, C.indices[C.indptr[i]:C.indptr[i + 1]]] = True
    if not np.array_equal(Mlib, M):
        ctx.feat('strength_oracle_differs_from_library')
    nontriv = bool(0 < nc < n and any(air_neighbourhood(Mlib, split, int(c), degree) for c in cpts))
    rp = np.full(nc + 1, -7, dtype=np.int32)
    amg_core.approx_ideal_restriction_pass1(rp, C.indptr, C.indices, cpts, split, degree)
    B.add('c11_air1(bsr)', f'c11_air1 {_pat(C)} {enc_ints(cpts)} {enc_ints(split)} {degree}', lambda o, rp=rp: o == enc_ints(rp),
          case0, enc_ints(rp))
    nnz = max(int(rp[-1]), 0)
    sizes = [int(rp[r + 1] - rp[r] - 1) for r in range(nc)]
    full = max(sizes + [0]) * bs + 1
    b2 = bs * bs
    ax = np.ascontiguousarray(np.asarray(Ab.data, dtype=float)).ravel()
    hdrA = f'{bs} {enc_ints(Ab.indptr)} {enc_ints(Ab.indices)} {enc_rats(ax)}'
    line = f'ext_c11x_bair2 {enc_rat(EPS)} {hdrA} {_pat(C)} {enc_ints(cpts)} {enc_ints(split)} {degree}'
    for ug, pc, maxiter in ((0, 1, 10), (1, 1, full), (1, 0, 0), (1, 1, max(1, min(full - 2, int(rng.integers(1, 4)))))):
        exact = (not ug) or maxiter == 0 or maxiter >= full - 1
        ctx.case(key=_key('bair_k', D.tobytes(), split.tobytes(), theta, degree, bs, ug, pc, maxiter, Ab.indices.tobytes()),
                 nontrivial=nontriv)
        ctx.feat('routine:k_bair' + ('_gmres' if ug else '') + ('' if exact else '_truncated'))
        slack = nc * (n + 1) + 1
        rj = np.full(nnz + slack, -1, dtype=np.int32)
        rx = np.concatenate([np.zeros(nnz * b2), nan_f(slack * b2)])
        amg_core.block_approx_ideal_restriction_pass2(rp, rj, rx, Ab.indptr, Ab.indices, ax, C.indptr, C.indices, C.data, cpts,
                                                      split, bs, degree, ug, maxiter, pc)
        cs = {**case0, 'use_gmres': bool(ug), 'precondition': bool(pc), 'maxiter': int(maxiter), 'raw': True}
        if np.any(rj[nnz:] != -1) or not np.all(np.isnan(rx[nnz * b2:])):
            ctx.violation('block_approx_ideal_restriction_pass2 writes behind the entries sized by approx_ideal_restriction_pass1', cs)
            return
        rows = [[(int(rj[k]), rx[k * b2:(k + 1) * b2].copy()) for k in range(int(rp[r]), int(rp[r + 1]))] for r in range(nc)]
        if exact:
            B.add('ext_c11x_bair2', line, lambda o, r=rows, tl=(GM_ROW_TOL if ug else None): cmp_brows(o, r, tl), cs,
                  str([[(c, b.tolist()) for c, b in r] for r in rows])[:3000])
            Rd = np.zeros((nc * bs, n * bs))
            for r, row in enumerate(rows):
                for c, blk in row:
                    if 0 <= c < n:
                        Rd[r * bs:(r + 1) * bs, c * bs:(c + 1) * bs] += blk.reshape(bs, bs)
            e = judge_air(D, Mlib, split, Rd, degree, tol=AIR_TOL_GMRES if ug else AIR_TOL, bs=bs)
            if e:
                ctx.violation(f'block_approx_ideal_restriction_pass2 (use_gmres={ug}, precondition={pc}, maxiter={maxiter}): {e}', cs)
        cand = [r for r in range(nc) if sizes[r] > 0]
        pick = [cand[i] for i in rng.permutation(len(cand))[:2]] if cand else []
        for r in pick:
            nf = [c for c, _ in rows[r][:-1]]
            idx = [f * bs + t for f in nf for t in range(bs)]
            Aloc = D[np.ix_(idx, idx)].T
            c0 = int(cpts[r])
            if not ug:
                # the model's assembled local system (Rat) is D[N, N] read column-major, and the bs right-hand sides
                wantA = Aloc.T.ravel()
                wantb = np.concatenate([-D[c0 * bs + t, idx] for t in range(bs)])
                B.add('ext_c11x_bair_sys', f'ext_c11x_bair_sys {hdrA} {c0} {enc_ints(nf)}',
                      lambda o, a=wantA, b=wantb: o == f'{enc_rats(a)};{enc_rats(b)}', {**cs, 'row': int(r)},
                      f'{enc_rats(wantA)};{enc_rats(wantb)}'[:3000])
            else:
                for t in range(bs):
                    b = -D[c0 * bs + t, idx]
                    x = np.array([blk[t * bs + cc] for _, blk in rows[r][:-1] for cc in range(bs)])
                    B.add('ext_c11x_gmres(bsr)', gmres_line(Aloc, b, maxiter, pc), lambda o, x=x: cmp_gmres(o, x),
                          {**cs, 'row': int(r), 'block_row': t}, x.tolist())


def api_formats_models(ctx, B, Acsr, Cgiven, split, case0, layout, viol):
    """injection / one_point on CSC and CSR input vs the composed wrapper models C11XA.apiInjection / apiOnePoint (the CSC
    input goes through the model of csc_tocsr), and the dense one-point oracle on the by_val result of the CSC path"""
    from pyamg.classical import interpolate as IP
    n = Acsr.shape[0]
    Acsc = sp.csc_array(Acsr)
    Acsc.indptr, Acsc.indices = _i32(Acsc.indptr), _i32(Acsc.indices)
    hs = enc_ints(split)
    chdr = _hdr(Cgiven)
    for X in (Acsc, Acsr):
        fmt = X.format
        P = IP.injection_interpolation(X.copy(), split)
        B.add(f'ext_c11x_inj({fmt})', f'ext_c11x_inj {_ain(X)} {hs}', lambda o, P=P: cmp_bsr_out(o, P), {**case0, 'format': fmt},
              _show_p(P))
        for by_val in (False, True):
            P = IP.one_point_interpolation(X.copy(), fresh(Cgiven, layout, 'S'), split, by_val=by_val)
            B.add(f'ext_c11x_onept({fmt})', f'ext_c11x_onept {_ain(X)} {chdr} {hs} {int(by_val)}', lambda o, P=P: cmp_bsr_out(o, P),
                  {**case0, 'format': fmt, 'by_val': by_val}, _show_p(P))
            if fmt == 'csc':
                rows = csr_rows(n, P.indptr, P.indices, P.data)
                Cd = (Acsr if by_val else Cgiven).toarray()
                e = judge_onepoint(Cd, Cd != 0, split, rows, by_val)
                if e:
                    viol(f'one_point_interpolation(CSC input, by_val={by_val}): {e}', routine='api_formats', by_val=by_val)


# ------------------------------------------------------------------------------------------------
# finding #20: RS(second_pass=True) + classical_interpolation(modified=False)
# ------------------------------------------------------------------------------------------------

def rs2_pipeline(ctx, A, theta, norm='min'):
    from pyamg.classical import interpolate as IP
    from pyamg.classical.split import RS
    from pyamg.strength import classical_strength_of_connection
    n = A.shape[0]
    Acsr = _csr(A)
    C = classical_strength_of_connection(Acsr, theta=theta, norm=norm)
    C = gen.csr_from_arrays(n, C.indptr, C.indices, C.data)
    split = _i32(RS(C, second_pass=True))
    M = C.toarray() != 0
    ctx.case(key=_key('rs2', A.tobytes(), theta, norm), nontrivial=bool(0 < split.sum() < n))
    ctx.feat('routine:pipeline_RS2_unmodified')
    P = sp.csr_array(IP.classical_interpolation(Acsr, C, split, modified=False))
    try:
        y = dense(P) @ np.ones(P.shape[1])
    except StructError as ex:
        ctx.violation(f'classical_interpolation(modified=False): {ex}', {'kind': 'rs2', 'A': A.tolist(), 'theta': theta, 'norm': norm})
        return
    for i in range(n):
        if split[i] == 0 and A[i].sum() == 0 and any(M[i, j] and split[j] == 1 for j in range(n) if j != i) and abs(y[i] - 1) > 1e-9:
            lack = rows_lack_common_c(A, M, split, i)
            ctx.violation(f'classical_interpolation(modified=False) on splitting = RS(C, second_pass=True) (theta={theta}): row {i} of a '
                          f'zero-row-sum M-matrix sums to {float(y[i])!r}' + (' (a strong F-neighbour shares no C-point with the row: '
                          'the second pass did not establish the common-C condition)' if lack else ''),
                          {'kind': 'rs2', 'A': A.tolist(), 'theta': theta, 'norm': norm, 'row': i, 'split': split.tolist()},
                          fkey=FKEY_20 if (lack and is_m_matrix(A)) else None)
            return


# ------------------------------------------------------------------------------------------------
# drivers
# ------------------------------------------------------------------------------------------------

def all_small(ctx, B, nmax):
    """every 0/1 splitting of a few fixed matrices with n <= nmax, full / classical strength"""
    mats = [np.array([[2.0]]), np.array([[1.0, -1], [-1, 1]]), np.array([[2.0, -1, -1], [-1, 1, 0], [-2, -1, 3]]),
            np.array([[2.0, -1, 0, -1], [-1, 2, -1, 0], [0, -1, 2, -1], [-1, 0, -1, 2]]),
            np.array([[3.0, -1, -1, -1], [-1, 1, 0, 0], [-2, 0, 4, -2], [0, -3, 0, 3]])]
    for A in mats:
        n = A.shape[0]
        if n > nmax:
            continue
        for theta in (0.0, 1.0):
            M = strength_mask(A, theta, 'abs')
            for bits in range(2 ** n):
                split = _i32([(bits >> i) & 1 for i in range(n)])
                interp_case(ctx, B, A, M, split, ['exhaustive-splittings'])
                if n > 1:
                    interp_case(ctx, B, A, M, split, ['exhaustive-splittings'], layout=gen_layout(ctx.np_rng, 0.0))


def part_interp(ctx, n_cases, nmax, n_raw, n_theta, n_bsr):
    rng = ctx.np_rng
    B = Batch(ctx)
    all_small(ctx, B, 4)
    for t in range(n_cases):
        A, kind = gen_matrix(rng, nmax)
        M, stag = gen_strength(rng, A)
        split, ptag = gen_split(rng, A, M)
        ov = None
        if t % 3 == 0:       # strength values with ties for the one-point rule
            ov = _csr(np.where(M, rng.integers(1, 4, size=A.shape) * rng.choice([-1.0, 1.0], size=A.shape), 0.0))
        interp_case(ctx, B, A, M, split, ['matrix:' + kind, 'strength:' + stag, 'split:' + ptag,
                                          'pattern:' + ('sym' if (M == M.T).all() else 'nonsym')], onept_vals=ov, layout=gen_layout(rng))
    for t in range(n_raw):   # raw kernels on arbitrary CSR (unsorted, duplicates, missing diagonal)
        n = int(rng.integers(1, nmax + 1))
        Ar, _ = gen.rand_dyadic_csr(rng, n, zero_diag=True, unsorted=bool(t % 2), duplicates=bool(t % 3 == 0))
        Ar = gen.csr_from_arrays(n, Ar.indptr, Ar.indices, np.asarray(Ar.data, dtype=float))
        keep = rng.random(Ar.nnz) < 0.7
        # strength = subset of A's stored entries with their values (may repeat a column when A does)
        sp_, sj_, sx_ = [0], [], []
        for i in range(n):
            for jj in range(Ar.indptr[i], Ar.indptr[i + 1]):
                if keep[jj] and Ar.data[jj] != 0:
                    sj_.append(Ar.indices[jj])
                    sx_.append(Ar.data[jj])
            sp_.append(len(sj_))
        S = gen.csr_from_arrays(n, sp_, sj_, np.array(sx_, dtype=float))
        split = _i32(rng.random(n) < 0.5)
        interp_case(ctx, B, None, None, split, ['matrix:raw-csr'], S=S, Acsr=Ar, api=False)
    for t in range(n_theta):
        A, kind = gen_matrix(rng, nmax)
        n = A.shape[0]
        theta, norm = float(rng.choice(THETAS)), str(rng.choice(['min', 'abs']))
        M = strength_mask(A, theta, norm)
        split, _ = gen_split(rng, A, M)
        theta_case(ctx, B, A, split, theta, norm, ['matrix:' + kind], layout=gen_layout(rng))
    for t in range(n_bsr):
        A, kind = gen_matrix(rng, min(nmax, 10))
        M, _ = gen_strength(rng, A)
        split, _ = gen_split(rng, A, M)
        bsr_case(ctx, A, M, split, int(rng.integers(2, 4)), layout=gen_layout(rng), B=B)
    B.flush()


def part_air(ctx, n_cases, nmax, n_bsr):
    rng = ctx.np_rng
    B = Batch(ctx)
    for t in range(n_cases):
        A, kind = gen_air_matrix(rng, nmax)
        n = A.shape[0]
        theta, norm = float(rng.choice((0.0, 0.25, 0.5, 1.0))), str(rng.choice(['abs', 'min']))
        r = rng.random()
        split = (np.ones(n) if r < 0.05 else np.zeros(n) if r < 0.08 else rng.random(n) < float(rng.choice([0.3, 0.5, 0.7])))
        raw = None
        if t % 3 == 0:
            raw = (A != 0) & (rng.random((n, n)) < 0.7)
            if t % 2:
                raw &= ~np.eye(n, dtype=bool)
        air_case(ctx, B, A, _i32(split), theta, norm, 1 + t % 2, ['air-matrix:' + kind], raw_mask=raw, layout=gen_layout(rng))
    for t in range(n_bsr):
        A, _ = gen_air_matrix(rng, min(nmax, 8))
        n = A.shape[0]
        air_bsr_case(ctx, A, rng.random(n) < 0.5, float(rng.choice((0.0, 0.25, 0.5))), 1 + t % 2, int(rng.integers(2, 4)),
                     layout=gen_layout(rng), B=B)
    B.flush()


def stored_zero_probe(ctx):
    """a strength matrix with a STORED ZERO is no connection (before fix b6ea56c classical_interpolation(modified=True)
    let remove_strong_FF_connections see it as a common C-point and eliminated it afterwards: row sum 0.5)"""
    from pyamg.classical import interpolate as IP
    A = np.array([[1, -1, 0, 0, 0], [-1, 2, -1, 0, 0], [0, -1, 2, -1, 0], [0, 0, -1, 2, -1], [0, 0, 0, -1, 1.]])
    split = _i32([1, 0, 0, 0, 1])
    rows, vals = [[1], [0, 2], [0, 1, 3], [2, 4], [3]], [[1], [1, 1], [0, 1, 1], [1, 1], [1]]
    C = gen.csr_from_arrays(5, np.cumsum([0] + [len(r) for r in rows]), np.concatenate(rows), np.concatenate(vals).astype(float))
    ctx.case(key='stored-zero-probe', nontrivial=True)
    ctx.feat('routine:stored_zero_probe')
    M = C.toarray() != 0                                  # the connections: stored zeros are none
    for name, routine, f in (('direct_interpolation', 'direct', lambda: IP.direct_interpolation(_csr(A), C, split)),
                             ('classical_interpolation(modified=True)', 'modified',
                              lambda: IP.classical_interpolation(_csr(A), C, split, modified=True))):
        P = sp.csr_array(f())
        e = judge_interp(routine, A, M, split, csr_rows(5, P.indptr, P.indices, P.data), P.shape)
        if e:
            ctx.violation(f'{name} with a stored zero C[2,0] in the strength matrix: {e}',
                          {'kind': 'stored_zero', 'routine': routine})


def part_rs2(ctx, n_cases, nmax):
    rng = ctx.np_rng
    rs2_pipeline(ctx, np.array(CASE_A, dtype=float), 0.5)
    stored_zero_probe(ctx)
    for t in range(n_cases):
        A, _ = gen_matrix(rng, nmax, kind=str(rng.choice(['lap', 'lap_ns'])))
        rs2_pipeline(ctx, A, float(rng.choice((0.25, 0.5))), str(rng.choice(['min', 'abs'])))


def glue_case(ctx, B, A, Bm, theta, norm, tags):
    """SciPy glue models vs SciPy on raw CSR matrices A, Bm (same shape)"""
    from pyamg import amg_core
    from pyamg.strength import classical_strength_of_connection
    n = A.shape[0]
    rowlen = np.diff(A.indptr)
    dup = any(len(set(A.indices[A.indptr[i]:A.indptr[i + 1]].tolist())) < rowlen[i] for i in range(n))
    unsorted = any(np.any(np.diff(A.indices[A.indptr[i]:A.indptr[i + 1]]) < 0) for i in range(n))
    zeros = bool(np.any(A.data == 0))
    case0 = {'kind': 'glue', 'n': n, 'Ap': A.indptr.tolist(), 'Aj': A.indices.tolist(), 'Ax': A.data.tolist(),
             'Bp': Bm.indptr.tolist(), 'Bj': Bm.indices.tolist(), 'Bx': Bm.data.tolist(), 'theta': theta, 'norm': norm, 'tags': tags}
    ctx.case(key=_key('glue', A.indptr.tobytes(), A.indices.tobytes(), A.data.tobytes(), Bm.indptr.tobytes(),
                      Bm.indices.tobytes(), Bm.data.tobytes(), theta, norm), nontrivial=bool(dup or unsorted or zeros))
    ctx.feat('routine:glue')
    for t, f in (('glue:duplicates', dup), ('glue:unsorted', unsorted), ('glue:stored-zeros', zeros)):
        if f:
            ctx.feat(t)
    hA, hB = _hdr(A), _hdr0(Bm)

    def add(op, line, W, exact=True):
        B.add(op, line, lambda o, W=W, exact=exact: cmp_csr(o, W, exact), {**case0, 'op': op}, _show(W))

    E = _cp(A)
    E.eliminate_zeros()
    add('ext_glue_elim', f'ext_glue_elim {hA}', E)
    if not dup or rowlen.max(initial=0) <= 16:
        S = _cp(A)
        S.has_sorted_indices = False
        S.sort_indices()
        add('ext_glue_sort', f'ext_glue_sort {hA}', S)
    D = _cp(A)
    D.sum_duplicates()
    add('ext_glue_sumdup', f'ext_glue_sumdup {hA}', D)
    can = '1' if _cp(A).has_canonical_format else '0'
    B.add('ext_glue_canon', f'ext_glue_canon {_pat(A)}', lambda o, can=can: o == can, case0, can)
    D2 = _cp(Bm)
    D2.sum_duplicates()
    for X, Y, tag in ((A, Bm, 'raw*raw'), (D, Bm, 'canonical*raw'), (D, D2, 'canonical*canonical'), (E, D2, 'nozeros*canonical')):
        M = sp.csr_array(_cp(X).multiply(_cp(Y)))
        ctx.feat('glue:multiply:' + ('canonical-branch' if (_cp(X).has_canonical_format and _cp(Y).has_canonical_format)
                                     else 'general-branch'))
        add('ext_glue_mul', f'ext_glue_mul {_hdr(X)} {_hdr0(Y)}', M)
    O = _cp(A)
    O.data[:] = 1.0
    add('ext_glue_ones', f'ext_glue_ones {hA}', O)
    # tail of classical_strength_of_connection on the rebuilt kernel's output vs the public function
    Sp, Sj, Sx = np.empty_like(A.indptr), np.empty_like(A.indices), np.empty_like(A.data)
    kern = amg_core.classical_strength_of_connection_abs if norm == 'abs' else amg_core.classical_strength_of_connection_min
    kern(n, theta, A.indptr, A.indices, A.data, Sp, Sj, Sx)
    k = int(Sp[-1])
    try:
        Spub = sp.csr_array(classical_strength_of_connection(_cp(A), theta=theta, norm=norm))
    except Exception as ex:
        ctx.violation(f'classical_strength_of_connection(theta={theta}, norm={norm!r}) raised {type(ex).__name__}: {ex}', case0)
        return
    add('ext_glue_stail', f'ext_glue_stail {TINY64} {n} {enc_ints(Sp)} {enc_ints(Sj[:k])} {enc_rats(Sx[:k])}', Spub, exact=False)


def part_glue(ctx, n_cases, nmax):
    rng = ctx.np_rng
    B = Batch(ctx)
    for t in range(n_cases):
        n = int(rng.integers(1, nmax + 1))
        mats = []
        for _ in range(2):
            X, _f = gen.rand_dyadic_csr(rng, n, zero_diag=True, unsorted=bool(rng.integers(2)), duplicates=bool(rng.integers(2)))
            X = gen.csr_from_arrays(n, X.indptr, X.indices, np.asarray(X.data, dtype=float))
            if X.nnz and rng.integers(2):
                X.data[rng.random(X.nnz) < 0.3] = 0.0
            mats.append(X)
        glue_case(ctx, B, mats[0], mats[1], float(rng.choice(THETAS)), str(rng.choice(['min', 'abs'])), ['glue'])
    B.flush()


def part_pylogic3(ctx):
    """extension E58: the wrappers of pyamg/classical/interpolate.py as GENERATED from the working tree
    (harness/py2lean3_classical.py, Generated/PyLogic3_classical.lean) vs the real functions executed against mock objects"""
    import extpy3_classical
    extpy3_classical.part_pylogic3(ctx, extpy3_classical.INTERP_FNS, ctx.scale(60, 2000), lambda c, lines: c.lean(lines))


def run(ctx):
    part_pylogic3(ctx)
    with guarded_kernels():
        if ctx.quick:
            part_interp(ctx, 300, 12, 80, 80, 30)
            part_air(ctx, 150, 10, 26)
            part_rs2(ctx, 50, 12)
            part_glue(ctx, 120, 12)
        else:
            part_interp(ctx, 12000, 30, 3000, 2500, 800)
            part_air(ctx, 5000, 20, 600)
            part_rs2(ctx, 3000, 16)
            part_glue(ctx, 4000, 30)
    ctx.features['e49_gmres_model_vs_code_max_rel_diff'] = _GM['max']


def search(ctx):
    with guarded_kernels():
        part_interp(ctx, 600, 16, 0, 150, 40)
        part_air(ctx, 200, 12, 30)


def replay(ctx, data):
    with guarded_kernels():
        _replay(ctx, data)


def _replay(ctx, data):
    case = data['case']
    B = Batch(ctx)
    kind = case.get('kind')
    print('replaying', kind, {k: v for k, v in case.items() if k in ('routine', 'call', 'theta', 'norm', 'degree', 'modified', 'tags')})
    if kind == 'interp':
        n = case['n']
        Acsr = gen.csr_from_arrays(n, case['Ap'], case['Aj'], np.array(case['Ax'], dtype=float))
        S = gen.csr_from_arrays(n, case['Sp'], case['Sj'], np.array(case['Sx'], dtype=float))
        if case['canonical']:
            A = Acsr.toarray()
            M = np.zeros((n, n), dtype=bool)
            for i in range(n):
                M[i, S.indices[S.indptr[i]:S.indptr[i + 1]]] = True
            interp_case(ctx, B, A, M, _i32(case['split']), ['replay'], layout=case.get('layout'))
        else:
            interp_case(ctx, B, None, None, _i32(case['split']), ['replay'], S=S, Acsr=Acsr, api=False)
    elif kind == 'theta':
        theta_case(ctx, B, np.array(case['A']), _i32(case['split']), case['theta'], case['norm'], ['replay'], layout=case.get('layout'))
    elif kind == 'bsr':
        bsr_case(ctx, np.array(case['A']), np.array(case['M'], dtype=bool), _i32(case['split']), case['bs'], layout=case.get('layout'))
    elif kind == 'air':
        rm = case.get('raw_mask')
        air_case(ctx, B, np.array(case['A']), _i32(case['split']), case['theta'], case['norm'], case['degree'], ['replay'],
                 raw_mask=None if rm is None else np.array(rm, dtype=bool), layout=case.get('layout'))
    elif kind == 'air_bsr':
        from pyamg.classical import interpolate as IP
        D = np.array(case['D'])
        bs = case['bs']
        Ab = sp.bsr_array(sp.csr_array(D).tobsr(blocksize=(bs, bs)))
        Ab.indptr, Ab.indices = _i32(Ab.indptr), _i32(Ab.indices)
        Ab = relayout(Ab, case.get('layout'), 'A')
        n = D.shape[0] // bs
        Bn = np.array([[np.abs(D[i * bs:(i + 1) * bs, j * bs:(j + 1) * bs]).max() for j in range(n)] for i in range(n)])
        M = strength_mask(Bn, case['theta'], 'abs')
        ug, pc = case.get('use_gmres', False), case.get('precondition', True)
        if case.get('raw'):
            air_bsr_kernels(ctx, B, Ab, D, M, _i32(case['split']), case['degree'], bs,
                            {**{k: case[k] for k in ('kind', 'D', 'split', 'theta', 'degree', 'bs') if k in case},
                             'layout': case.get('layout')})
        R = IP.local_air(Ab, _i32(case['split']), theta=case['theta'], norm='abs', degree=case['degree'],
                         use_gmres=ug, maxiter=50, precondition=pc)
        e = judge_air(D, M, _i32(case['split']), dense(R), case['degree'], tol=AIR_TOL_GMRES if ug else AIR_TOL, bs=bs)
        if e:
            ctx.violation(f'local_air(BSR, use_gmres={ug}, precondition={pc}): ' + e, case)
    elif kind == 'rs2':
        rs2_pipeline(ctx, np.array(case['A']), case['theta'], case.get('norm', 'min'))
    elif kind == 'stored_zero':
        stored_zero_probe(ctx)
    elif kind == 'glue':
        n = case['n']
        glue_case(ctx, B, gen.csr_from_arrays(n, case['Ap'], case['Aj'], np.array(case['Ax'], dtype=float)),
                  gen.csr_from_arrays(n, case['Bp'], case['Bj'], np.array(case['Bx'], dtype=float)), case['theta'], case['norm'],
                  ['replay'])
    B.flush()
    for v in ctx.violations[:5]:
        print('  ', v['what'])
    for c in ctx.corr_fail[:5]:
        print('   correspondence:', c['op'], 'model', str(c['model_output'])[:200], '| impl', str(c['impl_output'])[:200])
