"""C02 -- SPD problems: no multigrid cycle increases the energy norm of the error.

theorems       : lean/PyamgV/Props/C02.lean.  (1) abstract: the cycle recursion (V/W/F(k), any depth) is energy non-expansive
                 on a hierarchy with Galerkin coarse operators, R adjoint to P, non-expansive smoothers and an (energy-)exact
                 coarsest solve (`cycle_nonexpansive_of_galerkin`); Gauss-Seidel/SOR kernel sweeps in any order, Jacobi /
                 Richardson under the damping bound, block Gauss-Seidel / multiplicative Schwarz with exact local solves are
                 non-expansive; the solve loop with a non-expansive cycle has non-increasing error energy.  (2) for the
                 executable model the driver runs (`PyamgV.C02.cycle`: arrays, CSR, the kernel models of C09, the Python drivers'
                 sweep/iteration logic): read as functions it IS the abstract recursion (`cycle_model_is_cyc`), hence
                 `model_cycle_nonexpansive`: under exact data hypotheses (R = P^T, Galerkin, one stored diagonal per row,
                 0 <= omega <= 2 for GS/SOR, omega A <= 2 D for Jacobi, exact coarsest solve, A0 symmetric PSD) one model cycle
                 does not increase the energy, for all x, b.  (3) extension E22: `relaxation.polynomial` (Chebyshev, Richardson) is
                 modelled line by line (`ExtSm.polynomial`, the x = 0 shortcut included), proved to be the linear iteration
                 x + p(A)(b - A x) and to be energy non-expansive iff ||p(A)A v||_A^2 <= 2 a(p(A)A v, v); sufficient:
                 0 <= a(p(A)A v, v) <= 2 a(v, v) (`polynomial_nonexpansive`, no spectral theory) or |1 - t p(t)| <= 1 on an
                 orthogonal eigenbasis (`polynomial_nonexpansive_of_spectrum`); weighted / block Jacobi under omega A <= 2 D; NE/NR
                 sweeps in the 2-norm of error / residual; `cycle_nonexpansive_of_smoother_family` plugs these into the cycle theorem.
correspondence : (a) real hierarchies of the four constructors on small SPD matrices (n <= 24) with Gauss-Seidel / SOR /
                 spectral-radius-damped Jacobi smoothing: one real V/W/F cycle `ml.solve(b, x0, maxiter=1)` vs the Lean
                 model run in exact rational arithmetic on the exact float data (A0, the P's, the omega actually used), with
                 R = P^T, the Galerkin products and the coarse solve formed exactly by the model; tolerance 1e-9.  The driver
                 also decides, exactly, the data hypotheses of `model_cycle_nonexpansive` on that instance (A0 symmetric, all
                 elimination pivots positive, R = P^T, Galerkin, unique diagonals, 0 <= omega <= 2, 2D - omega A positive
                 definite), reports that its own cycle did not increase the energy functional, and returns its coarsest Galerkin
                 matrix (compared with levels[-1].A);
                 (b) the numeric hypotheses the theorems leave open, on every generated hierarchy: Galerkin products and
                 R = P^H on every level, exactness of the coarse solver, omega_used * lambda_max(D^-1 A) <= 2 (Jacobi, block
                 Jacobi), omega_used * lambda_max(A) <= 2 (Richardson), |1 - t p(t)| <= 1 on the spectrum (Chebyshev),
                 (generalised-)inverse property of the stored block / subdomain inverses (block Gauss-Seidel, Schwarz);
                 (c) part P: `relaxation.polynomial` on small integer Hermitian diagonally dominant matrices (real and complex,
                 degree 0-3, iterations 0-3, zero and non-zero x, admissible and arbitrary dyadic coefficients) and the installed
                 Richardson / Chebyshev closures of real hierarchies (coefficients actually used) vs the Lean model (ops ext_poly /
                 ext_cpoly), tolerance 1e-9; whenever |1 - t p(t)| <= 1 on the spectrum the energies of the real output are compared.
                 (d) extension E35, part CM: complex Hermitian hierarchies (SA / root-node on exactly Hermitian unitary-diagonal
                 rotations, n <= 20, Gauss-Seidel / SOR / Jacobi) -- one real V/W/F cycle vs `C02.cycle` over Gaussian rationals
                 (op c02x_ccycle: R = P^H, Galerkin products and coarse solve exact; tolerance 1e-9), the driver decides the data
                 hypotheses of `complex_model_cycle_nonexpansive` exactly and reports J(x') <= J(x), J(x) = Re(x^H A x) - 2 Re(b^H x);
                 part BM: BSR hierarchies (elasticity, block-coupled, block size 2-3 per level) and CSR hierarchies with an explicit
                 block size, smoothed by block Gauss-Seidel / block Jacobi / pointwise Gauss-Seidel / Jacobi -- one real cycle vs
                 `C02X.cycleO` on BSR levels (op c02x_bcycle: exact inverse diagonal blocks), data hypotheses of
                 `block_model_cycle_nonexpansive` decided exactly.
search         : the dense error-propagation matrix E of one real cycle (n <= 150; over the reals for complex problems, so
                 that a map that is not complex-linear is covered too), ||A^(1/2) E A^(-1/2)||_2 <= 1 + 1e-8, probed in three ways
                 (b = 0 / random b with initial guesses x* - e_j / ZERO initial guess with b = A e_j), for the matrix families /
                 constructors / smoothers / coarse solvers / cycles of the property; an independent random (b, x0) pair, the zero
                 initial guess, the exact solution as initial guess; the error energies over a multi-cycle solve; every smoother
                 family at the edge of its admissible damping on matrices with large rho(D^-1 A), optionally after a decoy set-up
                 on a same-shaped matrix (call history).  A float-found violation is confirmed in exact rational arithmetic by
                 the Lean op `c02_energy_le` on the top singular vector.
"""
import hashlib
import sys

import numpy as np
import scipy.sparse as sp

import gen
from common import enc_ints, enc_rats, enc_rat, dec_list

sys.set_int_max_str_digits(0)

TOL = 1e-8

META = {
    'rule': 'a case = (matrix, constructor + options, pre/post smoother, coarse solver, cycle [, cycles_per_level]); matrices: Poisson '
            '1-3D, rotated anisotropic diffusion (FE/FD), random weighted graph Laplacians with positive shifts / Dirichlet '
            '(eliminated or identity) rows, Q1 elasticity in BSR (several Poisson ratios / spacings), sparse Gram matrices with '
            'mixed signs, and unitary-diagonal complex rotations of these, n <= 150; generator preconditions (decided on the '
            'unchanged tree): classical and pairwise constructors are real only, lloyd aggregation on real grid problems only, BSR '
            'input to SA/root-node needs a strength measure, lu/cholesky/splu are replaced by pinv when the coarsest matrix is '
            'singular (rank-deficient P); non-trivial = the hierarchy has >= 2 levels; distinct = distinct (matrix hash, '
            'constructor options, smoothers, coarse solver, cycle)',
    'search_only': ['Chebyshev / polynomial smoothing inside a cycle: `polynomial_model_nonexpansive` / `polynomial_nonexpansive_of_spectrum` '
                    'decide it given |1 - t p(t)| <= 1 on the spectrum, which is checked per level for the coefficients actually '
                    'installed (assumption); the executable cycle model does not run polynomial smoothers, such cycles are judged by '
                    'the dense operator norm',
                    'complex Hermitian problems: the executable cycle model runs over Gaussian rationals (part CM, op c02x_ccycle, '
                    '`complex_model_cycle_nonexpansive`) for Gauss-Seidel / SOR / Jacobi smoothing with a REAL relaxation parameter on '
                    'CSR levels; complex hierarchies with other smoothers (polynomial, block, Schwarz, NE/NR) or with BSR levels are '
                    'covered by the abstract complex theorems (`complex_cycle_nonexpansive`) and the dense operator norm over the reals',
                    'block Jacobi / block Gauss-Seidel / Schwarz kernels: the theorems are about the operator '
                    'form x + I S I^T (b - A x) resp. x + omega Dinv (b - A x) (`block_jacobi_is_operator`: the kernel formula '
                    '(1-omega) x + omega Dinv (b - N x) is that form); that the kernels compute this form is C09 '
                    '(dense formulas), here the (generalised-)inverse property of the stored inverses is checked; Richardson is '
                    'the degree-0 case of the polynomial model (part P)',
                    'BSR level matrices with blocks larger than 1 (elasticity, block-coupled problems): real hierarchies run through the '
                    'BSR cycle model (part BM, op c02x_bcycle, `block_model_cycle_nonexpansive`: block Gauss-Seidel / block Jacobi with '
                    'the exact inverse diagonal blocks, pointwise Gauss-Seidel / Jacobi); the model keeps every level matrix dense and '
                    'stores all blocks of its BSR copy (same operator: `bsr_copy_operator`), so the sparsity pattern of the real BSR '
                    'matrix (stored zero blocks, block order) enters only through the comparison of the results; Schwarz and polynomial '
                    'smoothers on BSR levels: search only',
                    'hierarchies with a singular coarsest Galerkin matrix (pseudo-inverse coarse solve): covered by the abstract '
                    'theorem (energy-exact coarsest solve) and the search; the executable model replies `singular`'],
    'partial': [],
    'assumptions': ['the spectral-radius estimates (random Arnoldi + LAPACK) are large enough: omega_used*lambda_max <= 2 resp. the '
                    'Chebyshev bound are checked on every level of every generated hierarchy, not proved',
                    'Galerkin products, R = P^H and the coarse solves of the REAL hierarchy are exact up to rounding (checked per '
                    'hierarchy, tolerance 1e-10 / 1e-8); the model forms them exactly',
                    'rounding: the real cycle is compared with the exact model to 1e-9; the operator norm bound carries 1e-8',
                    'the exact Boolean checkers of the driver (R = P^T, Galerkin, unique diagonal, pivots positive, 2D - omega A positive '
                    'definite) stand for the semantic hypotheses of `model_cycle_nonexpansive` (IsAdj, linear-map equality, HasDiag, PSD, '
                    'damping bound); that link is by inspection, not proved',
                    'E35: likewise the exact Boolean checkers of c02x_ccycle / c02x_bcycle (A0 Hermitian and its real form positive definite, '
                    'R = P^H resp. P^T, Galerkin, unique diagonal, real 0 <= omega <= 2, 2D - omega A resp. 2 D_B - omega A positive definite, '
                    'Dinv_i A_ii = A_ii Dinv_i = I for every diagonal block) stand for the semantic hypotheses CWFModel / BWFModel (IsCAdj, '
                    'linear-map equality, HasDiag, LeftInv / RightInv, damping bounds) by inspection; pyamg forms Dinv by pinv of the diagonal '
                    'blocks, the model by exact elimination (equal for nonsingular blocks; the results are compared to 1e-9)',
                    'E35: on a BSR level `relaxation.gauss_seidel` calls bsr_gauss_seidel, which takes no omega (SOR on BSR levels is plain '
                    'Gauss-Seidel): part BM generates gauss_seidel / jacobi / block smoothers only and encodes omega = 1 for that kernel',
                    'solvability of the coarse problems (a hypothesis of the cycle theorem) holds because the model only runs on '
                    'nonsingular coarsest matrices; on intermediate levels it follows from positive definiteness, not proved in Lean'],
}


def _lean(ctx, lines, **kw):
    """ctx.lean with retries: other builds in the shared tree can replace an .olean while the driver is loading"""
    import time
    from common import InfraError
    for attempt in range(4):
        try:
            return ctx.lean(lines, **kw)
        except InfraError:
            if attempt == 3:
                raise
            time.sleep(4 + 4 * attempt)


def _enough(ctx):
    """stop searching once several unlisted violations are recorded (each costs an exact confirmation)"""
    return len([v for v in ctx.violations if not v['fkey']]) >= 6


def _key(*a):
    return hashlib.sha1(repr(a).encode()).hexdigest()


# ------------------------------------------------------------------------------------------------
# matrices
# ------------------------------------------------------------------------------------------------

def _i32(M):
    M.indices = M.indices.astype(np.int32)
    M.indptr = M.indptr.astype(np.int32)
    return M


FAMILIES = ['poisson1d', 'poisson2d', 'poisson3d', 'aniso', 'graph_shift', 'graph_dirichlet', 'graph_identity',
            'elasticity2d', 'elasticity2d_nu', 'gram', 'blockcpl']


def _rand_graph_laplacian(rng, n):
    kind = rng.choice(['er', 'geo', 'ring'])
    if kind == 'er':
        W = np.triu(rng.random((n, n)) < min(1.0, 4.0 / n), 1)
    elif kind == 'geo':
        pts = rng.random((n, 2))
        d = np.linalg.norm(pts[:, None] - pts[None], axis=2)
        W = np.triu(d < 1.8 / np.sqrt(n), 1)
    else:
        W = np.zeros((n, n), dtype=bool)
        for i in range(n):
            W[min(i, (i + 1) % n), max(i, (i + 1) % n)] = i + 1 < n or n > 2
            if rng.random() < 0.3:
                j = int(rng.integers(0, n))
                if j != i:
                    W[min(i, j), max(i, j)] = True
        W = np.triu(W, 1)
    W = W * rng.choice([0.1, 0.5, 1.0, 2.0, 3.0, 10.0], size=(n, n))
    W = W + W.T
    return np.diag(W.sum(1)) - W


def make_matrix(rng, fam, cap):
    """-> dict(A=sparse int32 csr/bsr, B=None|ndarray, fam, params)"""
    from pyamg.gallery import poisson, stencil_grid, linear_elasticity
    from pyamg.gallery.diffusion import diffusion_stencil_2d
    B = None
    params = {}
    if fam == 'poisson1d':
        n = int(rng.integers(2, cap + 1))
        A = poisson((n,), format='csr')
        params = {'grid': [n]}
    elif fam == 'poisson2d':
        nx = int(rng.integers(2, 13))
        ny = int(rng.integers(2, max(3, min(13, cap // nx + 1))))
        A = poisson((nx, ny), format='csr')
        params = {'grid': [nx, ny]}
    elif fam == 'poisson3d':
        nx, ny = int(rng.integers(2, 6)), int(rng.integers(2, 6))
        nz = int(rng.integers(2, max(3, min(6, cap // (nx * ny) + 1))))
        A = poisson((nx, ny, nz), format='csr')
        params = {'grid': [nx, ny, nz]}
    elif fam == 'aniso':
        nx = int(rng.integers(3, 13))
        ny = int(rng.integers(3, max(4, min(13, cap // nx + 1))))
        eps = float(rng.choice([1.0, 0.1, 0.01, 0.001]))
        theta = float(rng.choice([0.0, np.pi / 4, np.pi / 6, float(rng.random() * np.pi)]))
        typ = str(rng.choice(['FE', 'FD']))
        A = stencil_grid(diffusion_stencil_2d(epsilon=eps, theta=theta, type=typ), (nx, ny), format='csr')
        params = {'grid': [nx, ny], 'epsilon': eps, 'theta': theta, 'type': typ}
    elif fam in ('graph_shift', 'graph_dirichlet', 'graph_identity'):
        n = int(rng.integers(3, min(cap, 90) + 1))
        L = _rand_graph_laplacian(rng, n)
        if fam == 'graph_shift':
            L = L + np.diag(rng.choice([1e-3, 0.1, 1.0], size=n) * rng.random(n) + 1e-6)
        elif fam == 'graph_dirichlet':
            keep = np.sort(rng.permutation(n)[:max(2, int(n * rng.uniform(0.5, 0.9)))])
            L = L[np.ix_(keep, keep)] + 1e-6 * np.eye(len(keep))
        else:
            dr = rng.permutation(n)[:max(1, n // 5)]
            L[dr, :] = 0
            L[:, dr] = 0
            L[dr, dr] = rng.choice([1.0, 2.0, 0.5], size=len(dr))
            L = L + 1e-6 * np.eye(n)
        A = sp.csr_array(L)
        params = {'n': int(A.shape[0])}
    elif fam == 'elasticity2d':
        nx = int(rng.integers(2, 9))
        ny = int(rng.integers(2, max(3, min(9, cap // (2 * nx) + 1))))
        A, B = linear_elasticity((nx, ny), format='bsr')
        params = {'grid': [nx, ny]}
    elif fam == 'elasticity2d_nu':
        nx = int(rng.integers(2, 8))
        ny = int(rng.integers(2, max(3, min(8, cap // (2 * nx) + 1))))
        nu = float(rng.choice([0.1, 0.4, 0.45]))
        spacing = (1.0, float(rng.choice([1.0, 0.25, 3.0])))
        A, B = linear_elasticity((nx, ny), spacing=spacing, E=1.0, nu=nu, format='bsr')
        params = {'grid': [nx, ny], 'nu': nu, 'spacing': list(spacing)}
    elif fam == 'blockcpl':
        # block problem with strong coupling INSIDE the diagonal blocks, kept in BSR storage (block size 2 or 3):
        # kron(graph Laplacian + shift, SPD block) + block-diagonal SPD part; candidates = one constant per component
        bs = int(rng.choice([2, 3]))
        nb = int(rng.integers(3, max(4, min(24, cap // bs) + 1)))
        L = _rand_graph_laplacian(rng, nb) + np.diag(rng.choice([0.01, 0.1, 1.0], size=nb))
        G = rng.standard_normal((bs, bs))
        Bk = G @ G.T + 0.2 * np.eye(bs)
        D = np.kron(L, Bk)
        for k in range(nb):
            G = rng.standard_normal((bs, bs))
            D[k * bs:(k + 1) * bs, k * bs:(k + 1) * bs] += float(rng.choice([0.1, 1.0, 3.0])) * (G @ G.T)
        A = sp.bsr_array(sp.csr_array(D), blocksize=(bs, bs))
        B = np.kron(np.ones((nb, 1)), np.eye(bs))
        params = {'nb': nb, 'blocksize': bs}
    elif fam == 'gram':
        n = int(rng.integers(3, min(cap, 80) + 1))
        G = (rng.random((n, n)) < min(1.0, 2.5 / n)) * rng.choice([-2.0, -1.0, 1.0, 2.0, 0.5], size=(n, n))
        G[np.arange(n), np.arange(n)] = rng.choice([1.0, 2.0, 3.0], size=n)
        A = sp.csr_array(G.T @ G + float(rng.choice([0.01, 0.1, 1.0])) * np.eye(n))
        params = {'n': n}
    else:
        raise KeyError(fam)
    A = _i32(A)
    A.sort_indices()
    return {'A': A, 'B': B, 'fam': fam, 'params': params}


def rotate(rng, M):
    """unitary-diagonal complex rotation D A D^H (and D B)"""
    A = M['A']
    n = A.shape[0]
    ph = np.exp(1j * rng.choice([0.0, np.pi / 2, np.pi, 1.0, 2.5], size=n) * rng.choice([1.0, 1.0, float(rng.random() + 0.1)]))
    D = sp.diags_array(ph)
    fmt = A.format
    Ac = sp.csr_array(D @ sp.csr_array(A).astype(complex) @ D.conj())
    if fmt == 'bsr':
        Ac = sp.bsr_array(Ac, blocksize=A.blocksize)
    Ac = _i32(Ac)
    Ac.sort_indices()
    out = dict(M, A=Ac, B=None if M['B'] is None else ph[:, None] * M['B'].astype(complex))
    out['fam'] = M['fam'] + '+rot'
    return out


def mat_to_case(M):
    A = M['A']
    d = {'format': A.format, 'shape': list(A.shape), 'indptr': A.indptr.tolist(), 'indices': A.indices.tolist(),
         'data': A.data, 'fam': M['fam'], 'params': M['params']}
    if A.format == 'bsr':
        d['blocksize'] = list(A.blocksize)
    if M['B'] is not None:
        d['B'] = M['B']
    return d


def _num(v):
    """inverse of common.jsonable on numbers / nested lists (complex -> {'re','im'})"""
    if isinstance(v, dict) and set(v) == {'re', 'im'}:
        return complex(v['re'], v['im'])
    if isinstance(v, list):
        return [_num(t) for t in v]
    return v


def mat_from_case(d):
    data = np.array(_num(d['data']) if not isinstance(d['data'], np.ndarray) else d['data'])
    ip, ix = np.array(d['indptr'], dtype=np.int32), np.array(d['indices'], dtype=np.int32)
    if d['format'] == 'bsr':
        A = sp.bsr_array((data, ix, ip), shape=tuple(d['shape']), blocksize=tuple(d['blocksize']))
    else:
        A = sp.csr_array((data, ix, ip), shape=tuple(d['shape']))
    B = d.get('B')
    if B is not None and not isinstance(B, np.ndarray):
        B = np.array(_num(B))
    return {'A': A, 'B': B, 'fam': d.get('fam', '?'), 'params': d.get('params', {})}


# ------------------------------------------------------------------------------------------------
# constructors, smoothers
# ------------------------------------------------------------------------------------------------

def _tup(v):
    """JSON lists [name, {..}] back to the (name, {..}) tuples pyamg expects"""
    if isinstance(v, (list, tuple)) and len(v) == 2 and isinstance(v[0], str) and isinstance(v[1], dict):
        return (v[0], {k: _tup(t) for k, t in v[1].items()})
    if isinstance(v, list):
        return [_tup(t) for t in v]
    return v


def rand_smoother(rng, bsr, allow_bs=None, model_only=False):
    """one admissible smoother specification of the property's family"""
    sweep = str(rng.choice(['forward', 'backward', 'symmetric']))
    its = int(rng.choice([1, 1, 2, 2, 3, 4]))
    fam = ['gauss_seidel', 'sor', 'jacobi'] if model_only else \
          ['gauss_seidel', 'sor', 'jacobi', 'richardson', 'block_jacobi', 'block_gauss_seidel', 'chebyshev', 'schwarz',
           'strength_based_schwarz']
    name = str(rng.choice(fam))
    if name == 'gauss_seidel':
        return ('gauss_seidel', {'sweep': sweep, 'iterations': its})
    if name == 'sor':
        return ('sor', {'omega': float(rng.choice([0.05, 0.5, 1.0, 1.3, 1.7, 1.95])), 'sweep': sweep, 'iterations': its})
    om = float(rng.choice([4.0 / 3.0, 4.0 / 3.0, 1.0, 0.5, float(rng.uniform(0.2, 4.0 / 3.0))]))
    if name == 'jacobi':
        return ('jacobi', {'omega': om, 'iterations': its})
    if name == 'richardson':
        return ('richardson', {'omega': om, 'iterations': its})
    if name == 'block_jacobi':
        kw = {'omega': om, 'iterations': its}
        if allow_bs:
            kw['blocksize'] = int(allow_bs)
        return ('block_jacobi', kw)
    if name == 'block_gauss_seidel':
        kw = {'sweep': sweep, 'iterations': its}
        if allow_bs:
            kw['blocksize'] = int(allow_bs)
        return ('block_gauss_seidel', kw)
    if name == 'chebyshev':
        return ('chebyshev', {'degree': int(rng.integers(1, 5)), 'iterations': its})
    return (name, {'sweep': sweep, 'iterations': its})


def rand_ctor(rng, M, ctor, cplx):
    """random option set for a constructor (everything JSON-able)"""
    n = M['A'].shape[0]
    kw = {'max_levels': int(rng.choice([2, 3, 4, 10])), 'max_coarse': int(rng.choice([1, 2, 3, 5, 10, 25]))}
    th = float(rng.choice([0.0, 0.1, 0.25, 0.5]))
    if ctor == 'classical':
        kw['strength'] = [('classical', {'theta': th}), ('symmetric', {'theta': min(th, 0.25)}), None,
                          ('classical', {'theta': th, 'norm': 'abs'})][int(rng.integers(0, 4))]
        kw['CF'] = [('RS', {'second_pass': False}), ('RS', {'second_pass': True}), 'PMIS', 'PMISc', 'CLJP', 'CLJPc'][int(rng.integers(0, 6))]
        kw['interpolation'] = ['classical', ('classical', {'modified': False}), 'direct'][int(rng.integers(0, 3))]
    elif ctor in ('sa', 'rootnode'):
        kw['strength'] = [('symmetric', {'theta': min(th, 0.25)}), ('classical', {'theta': th}), None,
                          ('evolution', {'epsilon': 4.0, 'k': 2}), 'symmetric'][int(rng.integers(0, 5))]
        kw['aggregate'] = ['standard', 'naive', ('lloyd', {'ratio': 0.3}), 'standard'][int(rng.integers(0, 4))]
        if ctor == 'sa':
            kw['smooth'] = [('jacobi', {'omega': 4.0 / 3.0}), ('jacobi', {'omega': 4.0 / 3.0, 'degree': 2}), 'richardson',
                            ('energy', {'krylov': 'cg', 'maxiter': 2}), None][int(rng.integers(0, 5))]
        else:
            kw['smooth'] = [('energy', {'krylov': 'cg', 'maxiter': int(rng.integers(1, 5)), 'degree': int(rng.integers(1, 3))}),
                            ('energy', {'krylov': 'cg', 'maxiter': 3, 'weighting': 'diagonal'}), None][int(rng.integers(0, 3))]
        kw['improve_candidates'] = [('block_gauss_seidel', {'sweep': 'symmetric', 'iterations': 4}), None][int(rng.integers(0, 2))]
    else:
        kw['aggregate'] = ('pairwise', {'theta': float(rng.choice([0.25, 0.0, 0.5])), 'norm': str(rng.choice(['min', 'abs'])),
                                        'matchings': int(rng.integers(1, 4))})
    kw['coarse_solver'] = str(rng.choice(['pinv', 'lu', 'cholesky', 'splu']))
    return kw


def decoy_setup(spec):
    """call history: set the same smoothers up on a decoy matrix of the same shape / storage with a tiny spectral radius
    (0.99 D + 0.01 A, scaled by 1e-3) before the real hierarchy is built; nothing of it may leak into the real one"""
    from pyamg.multilevel import MultilevelSolver
    from pyamg.relaxation import smoothing
    A = spec['M']['A']
    Ac = sp.csr_array(A)
    dec = 1e-3 * (0.99 * sp.diags_array(Ac.diagonal()) + 0.01 * Ac)
    dec = _i32(sp.bsr_array(dec, blocksize=A.blocksize) if A.format == 'bsr' else sp.csr_array(dec))
    np.random.seed(spec['npseed'] + 7)
    for sm in (spec['kw'].get('presmoother'), spec['kw'].get('postsmoother')):
        name, kw = _tup(sm) if isinstance(_tup(sm), tuple) else (sm, {})
        lvl = MultilevelSolver.Level()
        lvl.A = dec
        try:
            getattr(smoothing, 'setup_' + str(name))(lvl, **kw)
        except Exception:    # noqa: BLE001
            pass
    try:      # and a whole decoy hierarchy with the same options, cycled once (coarse-solver / setup caches)
        Md = dict(spec['M'], A=dec)
        mld = build(dict(spec, M=Md, decoy=False))
        mld.solve(np.ones(dec.shape[0], dtype=dec.dtype), maxiter=1, cycle='V')
    except Exception:    # noqa: BLE001
        pass


def build(spec):
    """(matrix case, constructor name, options, np.random seed) -> MultilevelSolver"""
    import pyamg
    M = spec['M']
    A, B = M['A'].copy(), M['B']      # a fresh matrix object: pyamg caches spectral-radius estimates on the caller's matrix
    if spec.get('decoy'):
        decoy_setup(spec)
    kw = {k: _tup(v) for k, v in spec['kw'].items()}
    np.random.seed(spec['npseed'])
    ctor = spec['ctor']
    if ctor == 'classical':
        ml = pyamg.ruge_stuben_solver(sp.csr_array(A), **kw)
    elif ctor == 'sa':
        ml = pyamg.smoothed_aggregation_solver(A, B=B, **kw)
    elif ctor == 'rootnode':
        ml = pyamg.rootnode_solver(A, B=B, **kw)
    elif ctor == 'pairwise':
        ml = pyamg.pairwise_solver(sp.csr_array(A), **kw)
    else:
        raise KeyError(ctor)
    # call history on the SAME hierarchy object: smoothers replaced through change_smoothers, in order; the last pair is
    # the configuration that is judged
    if spec.get('history'):
        from pyamg.relaxation.smoothing import change_smoothers
        for pre, post in spec['history']:
            change_smoothers(ml, _tup(pre), _tup(post))
    return ml


# ------------------------------------------------------------------------------------------------
# the dense oracle
# ------------------------------------------------------------------------------------------------

class Energy:
    """A^(1/2), A^(-1/2) of the (real form of the) HPD matrix"""

    def __init__(self, Ad):
        self.cplx = np.iscomplexobj(Ad)
        self.n = Ad.shape[0]
        self.Ad = Ad
        if self.cplx:
            self.Ar = np.block([[Ad.real, -Ad.imag], [Ad.imag, Ad.real]])
        else:
            self.Ar = Ad
        w, V = np.linalg.eigh(self.Ar)
        self.w = w
        self.hpd = bool(w.min() > 1e-12 * max(w.max(), 1e-300)) and np.allclose(Ad, Ad.conj().T, rtol=0, atol=1e-13 * abs(Ad).max())
        if self.hpd:
            s = np.sqrt(w)
            self.Ah = (V * s) @ V.T
            self.Aih = (V / s) @ V.T

    def real(self, v):
        return np.concatenate([v.real, v.imag]) if self.cplx else v

    def en(self, v):
        return float(np.real(np.vdot(v, self.Ad @ v)))


def one_cycle(ml, b, x0, cycle, cpl):
    return ml.solve(b, x0=x0.copy(), maxiter=1, cycle=cycle, cycles_per_level=cpl, tol=1e-300)


def propagator(ml, En, cycle, cpl, xs, b, A=None):
    """dense (real-form) error propagation matrix of one real cycle: column j = x* - cycle(b, x0 = x* - e_j);
    with `A` given the initial guess is the zero vector instead and the right-hand side varies: x* = e_j, b = A e_j"""
    n, dt = En.n, En.Ad.dtype
    units = [(j, 1.0) for j in range(n)] + ([(j, 1j) for j in range(n)] if En.cplx else [])
    E = np.zeros((len(units), len(units)))
    for c, (j, u) in enumerate(units):
        e = np.zeros(n, dtype=dt)
        e[j] = u
        if A is None:
            x = one_cycle(ml, b, xs - e, cycle, cpl)
            E[:, c] = En.real(xs - x)
        else:
            x = one_cycle(ml, A @ e, np.zeros(n, dtype=dt), cycle, cpl)
            E[:, c] = En.real(e - x)
    return E


def energy_norm(En, E):
    T = En.Ah @ E @ En.Aih
    if not np.isfinite(T).all():
        return np.inf, None
    U, S, Vh = np.linalg.svd(T)
    return float(S[0]), En.Aih @ Vh[0]


def smoother_params(fn):
    """(name, parameters actually used) of an installed smoother"""
    name = getattr(fn, '__name__', '?')
    kw = dict(getattr(fn, 'keywords', {}) or {})
    if getattr(fn, '__closure__', None):
        for nm, cell in zip(fn.__code__.co_freevars, fn.__closure__):
            try:
                kw.setdefault(nm, cell.cell_contents)
            except ValueError:
                pass
    return name, kw


def _blockdiag(Dinv):
    nb, bs = Dinv.shape[0], Dinv.shape[1]
    F = np.zeros((nb * bs, nb * bs), dtype=Dinv.dtype)
    for k in range(nb):
        F[k * bs:(k + 1) * bs, k * bs:(k + 1) * bs] = Dinv[k]
    return F


def hypotheses(ml, spec):
    """numeric hypotheses of the theorems on this hierarchy -> list of failure strings"""
    bad = []
    L = ml.levels
    for i in range(len(L) - 1):
        A = L[i].A.toarray()
        P = L[i].P.toarray()
        R = L[i].R.toarray()
        Ac = L[i + 1].A.toarray()
        sc = max(abs(Ac).max(), 1e-300)
        if abs(R - P.conj().T).max() > 1e-12 * max(abs(P).max(), 1e-300):
            bad.append(f'level {i}: R != P^H (max diff {abs(R - P.conj().T).max():.3g})')
        G = P.conj().T @ A @ P
        if abs(Ac - G).max() > 1e-10 * sc:
            bad.append(f'level {i + 1}: A is not the Galerkin product P^H A P (max diff {abs(Ac - G).max():.3g}, scale {sc:.3g})')
        lam = None
        for which, fn in (('pre', L[i].presmoother), ('post', L[i].postsmoother)):
            name, kw = smoother_params(fn)
            if name == 'jacobi' or (name == 'block_jacobi' and 'Dinv' not in kw):
                d = np.real(np.diag(A))
                nzd = d > 0        # rows with a zero diagonal are left untouched by the kernel (PSD: they are zero rows)
                lam = np.linalg.eigvalsh(A[np.ix_(nzd, nzd)] / np.sqrt(np.outer(d[nzd], d[nzd]))).max() if nzd.any() else 0.0
                if np.real(kw.get('omega', 1.0)) * lam > 2 * (1 + 1e-10):
                    bad.append(f'level {i} {which} {name}: omega_used*lambda_max(D^-1 A) = {np.real(kw.get("omega", 1.0)) * lam:.6g} > 2')
            elif name == 'block_jacobi':
                F = _blockdiag(np.asarray(kw['Dinv']))
                bs = F.shape[0] // np.asarray(kw['Dinv']).shape[0]
                Bd = _blockdiag(np.array([A[k:k + bs, k:k + bs] for k in range(0, A.shape[0], bs)]))
                if abs(Bd @ F @ Bd - Bd).max() > 1e-8 * max(abs(Bd).max(), 1e-300):
                    bad.append(f'level {i} {which} block_jacobi: stored Dinv is not a (generalised) inverse of the diagonal blocks')
                lam = np.abs(np.linalg.eigvals(F @ A)).max()
                if np.real(kw.get('omega', 1.0)) * lam > 2 * (1 + 1e-8):
                    bad.append(f'level {i} {which} block_jacobi: omega_used*lambda_max(Dinv A) = {np.real(kw.get("omega", 1.0)) * lam:.6g} > 2')
            elif name == 'block_gauss_seidel' and 'Dinv' in kw:
                Dinv = np.asarray(kw['Dinv'])
                bs = Dinv.shape[1]
                for k in range(Dinv.shape[0]):
                    Ak = A[k * bs:(k + 1) * bs, k * bs:(k + 1) * bs]
                    if abs(Ak @ Dinv[k] @ Ak - Ak).max() > 1e-8 * max(abs(Ak).max(), 1e-300):
                        bad.append(f'level {i} {which} block_gauss_seidel: stored Dinv[{k}] is not a (generalised) inverse of the diagonal block')
                        break
            elif name == 'richardson':
                lam = np.linalg.eigvalsh(A).max()
                if np.real(kw['omega']) * lam > 2 * (1 + 1e-10):
                    bad.append(f'level {i} {which} richardson: omega_used*lambda_max(A) = {np.real(kw["omega"]) * lam:.6g} > 2')
            elif name == 'chebyshev':
                ev = np.linalg.eigvalsh(A)
                q = 1 - ev * np.polyval(np.real(np.asarray(kw['coefficients'])), ev)
                if np.abs(q).max() > 1 + 1e-10:
                    bad.append(f'level {i} {which} chebyshev: |1 - t p(t)| = {np.abs(q).max():.6g} > 1 on the spectrum')
            elif name == 'schwarz':
                sub, ptr = kw.get('subdomain'), kw.get('subdomain_ptr')
                inv, iptr = kw.get('inv_subblock'), kw.get('inv_subblock_ptr')
                if sub is not None and inv is not None:
                    for s in range(len(ptr) - 1):
                        idx = sub[ptr[s]:ptr[s + 1]]
                        m = len(idx)
                        if m == 0:
                            continue
                        S = np.asarray(inv[iptr[s]:iptr[s + 1]]).reshape(m, m)
                        As = A[np.ix_(idx, idx)]
                        if abs(As @ S @ As - As).max() > 1e-7 * max(abs(As).max(), 1e-300):
                            bad.append(f'level {i} {which} schwarz: stored inverse of subdomain {s} is not a (generalised) inverse')
                            break
    # coarse solve: exact on a right-hand side in the range
    Ac = L[-1].A
    if len(L) > 1:
        rs = np.random.RandomState(spec['npseed'] + 1)
        y = rs.rand(Ac.shape[0]) - 0.5
        if np.iscomplexobj(Ac.data):
            y = y + 1j * (rs.rand(Ac.shape[0]) - 0.5)
        rhs = Ac @ y
        try:
            z = np.ravel(ml.coarse_solver(Ac, rhs.copy()))
            res = np.linalg.norm(Ac @ z - rhs)
            if not res <= 1e-8 * max(np.linalg.norm(rhs), 1e-300):
                bad.append(f'coarse solver {spec["kw"].get("coarse_solver")}: relative residual {res / max(np.linalg.norm(rhs), 1e-300):.3g}')
        except Exception as e:    # noqa: BLE001
            bad.append(f'coarse solver raised {type(e).__name__}: {e}')
    return bad


def lean_confirm(ctx, En, e, e1):
    """exact rational confirmation that e1^T A e1 > e^T A e on the float data (real form)"""
    Ar = sp.csr_array(En.Ar)
    Ar.sort_indices()
    line = (f'c02_energy_le {Ar.shape[0]} {enc_ints(Ar.indptr)} {enc_ints(Ar.indices)} {enc_rats(Ar.data)} '
            f'{enc_rats(En.real(e))} {enc_rats(En.real(e1))}')
    return _lean(ctx, [line])[0]


def _final_smoothers(spec):
    if spec.get('history'):
        return spec['history'][-1]
    return spec['kw'].get('presmoother'), spec['kw'].get('postsmoother')


def _cfg(spec, ml, n):
    kw = spec['kw']
    pre, post = _final_smoothers(spec)
    hist = ''
    if spec.get('history'):
        first = (kw.get('presmoother'), kw.get('postsmoother'))
        hist = f' [after change_smoothers history: built with {first}, then ' + ' -> '.join(str(tuple(h)) for h in spec['history']) + ']'
    return (f'{spec["ctor"]} hierarchy ({len(ml.levels)} levels, n={n}, {spec["M"]["fam"]}), pre={pre}, '
            f'post={post}, coarse={kw.get("coarse_solver")}{hist}')


def judge(ctx, spec, ml, En, cycles, rng, deep_checks=True):
    """the property on one hierarchy: operator norm for every cycle, a random (b, x0) pair, a multi-cycle solve"""
    n, dt = En.n, En.Ad.dtype
    A = spec['M']['A']
    found = False
    for cycle, cpl in cycles:
        case = dict(spec_case(spec), cycle=cycle, cycles_per_level=cpl)
        mode = ['b0', 'affine', 'zero_guess'][int(rng.integers(0, 3))]
        if mode != 'affine':
            xs = np.zeros(n, dtype=dt)
        else:
            xs = (rng.random(n) - 0.5).astype(dt)
            if En.cplx:
                xs = xs + 1j * (rng.random(n) - 0.5)
        b = A @ xs
        try:
            E = propagator(ml, En, cycle, cpl, xs, b, A if mode == 'zero_guess' else None)
        except Exception as ex:    # noqa: BLE001
            ctx.violation(f'{_cfg(spec, ml, n)}: the {cycle}-cycle raised {type(ex).__name__}: {ex}', dict(case, mode=mode))
            found = True
            break
        nrm, top = energy_norm(En, E)
        ctx.rel_err(max(0.0, nrm - 1.0) if np.isfinite(nrm) else 0.0)
        ctx.feat('cycle:' + cycle)
        ctx.feat('mode:' + mode)
        if not nrm <= 1 + TOL:
            found = True
            detail = {'operator_norm': nrm}
            if top is not None:
                e = top[:n] + 1j * top[n:] if En.cplx else top
                e = (e / max(abs(e).max(), 1e-300)).astype(dt)
                if mode == 'zero_guess':
                    e1 = e - one_cycle(ml, A @ e, np.zeros(n, dtype=dt), cycle, cpl)
                else:
                    e1 = xs - one_cycle(ml, b, xs - e, cycle, cpl)
                detail.update({'e': e, 'energy_before': En.en(e), 'energy_after': En.en(e1)})
                try:
                    detail['lean_exact_energy_le'] = lean_confirm(ctx, En, e, e1) if len(ctx.violations) < 3 else 'not run (earlier cases confirmed)'
                except Exception as ex:    # noqa: BLE001
                    detail['lean_exact_energy_le'] = f'unavailable: {ex}'
                case = dict(case, e=e, mode=mode, xs=xs)
            ctx.violation(f'{_cfg(spec, ml, n)}: the {cycle}-cycle increases the '
                          f'energy norm of some error: ||A^1/2 E A^-1/2||_2 = {nrm:.12g} > 1 + {TOL}'
                          + (f'; for the stored error e: energy {detail.get("energy_before"):.6g} -> {detail.get("energy_after"):.6g}, '
                             f'exact check e\'Ae\' <= eAe: {detail.get("lean_exact_energy_le")}' if top is not None else ''),
                          case, fkey=spec.get('_fkey'), detail=detail)
            continue
        if not deep_checks:
            continue
        # an independent (b, x0): the inequality itself, and consistency with E (affine map)
        xs2 = (rng.random(n) - 0.5).astype(dt)
        x0 = (rng.random(n) - 0.5).astype(dt)
        if En.cplx:
            xs2 = xs2 + 1j * (rng.random(n) - 0.5)
            x0 = x0 + 1j * (rng.random(n) - 0.5)
        b2 = A @ xs2
        x1 = one_cycle(ml, b2, x0, cycle, cpl)
        e0, e1 = xs2 - x0, xs2 - x1
        if not En.en(e1) <= En.en(e0) * (1 + 2 * TOL) + 1e-20:
            found = True
            ctx.violation(f'{_cfg(spec, ml, n)}: the {cycle}-cycle increases the energy of the error for a random (b, x0): {En.en(e0):.12g} -> {En.en(e1):.12g}',
                          dict(case, b=b2, x0=x0, mode='pair'), fkey=spec.get('_fkey'))
        else:
            # special initial guesses: the zero vector (the default of solve) and the exact solution
            xz = one_cycle(ml, b2, np.zeros(n, dtype=dt), cycle, cpl)
            xe = one_cycle(ml, b2, xs2, cycle, cpl)
            if not En.en(xs2 - xz) <= En.en(xs2) * (1 + 2 * TOL) + 1e-20:
                found = True
                ctx.violation(f'{_cfg(spec, ml, n)}: the {cycle}-cycle from the zero initial guess increases the energy of the error: {En.en(xs2):.12g} -> {En.en(xs2 - xz):.12g}',
                              dict(case, b=b2, x0=np.zeros(n, dtype=dt), mode='pair'), fkey=spec.get('_fkey'))
            elif not En.en(xs2 - xe) <= 1e-18 * max(En.en(xs2), 1e-300) * max(1.0, En.w.max() / En.w.min()):
                found = True
                ctx.violation(f'{_cfg(spec, ml, n)}: the {cycle}-cycle started at the exact solution leaves an error of energy {En.en(xs2 - xe):.6g} (solution energy {En.en(xs2):.6g})',
                              dict(case, b=b2, x0=xs2, mode='pair'))
        if not found and np.linalg.norm(En.real(e1) - E @ En.real(e0)) > 1e-7 * (np.linalg.norm(En.real(e0)) + 1e-300) * max(1.0, np.sqrt(En.w.max() / En.w.min())):
            ctx.corr('cycle is not the affine map x* - E (x* - x0)', dict(case, b=b2, x0=x0), 'E e0', 'e1',
                     'the operator norm of E then does not cover every (b, x0)')
    return found


def solve_monotone(ctx, spec, ml, En, cycle, rng):
    """error energies over a multi-cycle stand-alone solve are non-increasing"""
    n, dt = En.n, En.Ad.dtype
    A = spec['M']['A']
    xs = (rng.random(n) - 0.5).astype(dt)
    x0 = (rng.random(n) - 0.5).astype(dt)
    if En.cplx:
        xs = xs + 1j * (rng.random(n) - 0.5)
    b = A @ xs
    its = []
    x = ml.solve(b, x0=x0.copy(), maxiter=6, cycle=cycle, tol=1e-13, callback=lambda v: its.append(np.array(v).ravel().copy()))
    en = [En.en(xs - x0)] + [En.en(xs - v) for v in its]
    floor = 1e-22 * max(En.en(xs), 1e-300) * max(1.0, En.w.max() / En.w.min())
    ctx.feat('solve_monotone')
    for k in range(len(en) - 1):
        if not en[k + 1] <= en[k] * (1 + 2 * TOL) + floor:
            ctx.violation(f'{_cfg(spec, ml, n)}: stand-alone solve ({cycle}-cycles): the error energy grows in cycle {k + 1}: {en[k]:.12g} -> {en[k + 1]:.12g}',
                          dict(spec_case(spec), cycle=cycle, b=b, x0=x0, mode='solve', energies=en), fkey=spec.get('_fkey'))
            return True
    if len(its) and not np.allclose(np.ravel(x), its[-1], rtol=0, atol=0):
        pass    # returned vector vs last callback iterate is C01's business
    return False


def nonfinite_fkey(spec):
    """known-finding key for a hierarchy with non-finite (or, when the cancellation is exact only up to rounding, 1e8+)
    interpolation weights: only the classical (Ruge-Stuben) interpolation formula on a matrix with positive off-diagonal
    entries (zero denominators by cancellation)"""
    A = sp.csr_array(spec['M']['A'])
    off = A - sp.diags_array(A.diagonal())
    interp = spec['kw'].get('interpolation')
    name = interp[0] if isinstance(interp, (list, tuple)) else interp
    if spec['ctor'] == 'classical' and name == 'classical' and off.data.size and off.data.real.max() > 0:
        return 'classical-interpolation-zero-denominator'
    return None


def probe(spec):
    """facts about the hierarchy itself, obtained with parameter-free smoothers: non-finite P, level matrices with empty rows"""
    try:
        ml0 = build(dict(spec, history=None,
                         kw=dict(spec['kw'], presmoother='gauss_seidel', postsmoother='gauss_seidel', coarse_solver='pinv')))
    except Exception:    # noqa: BLE001
        return {}
    return {'nonfinite': any((not np.isfinite(lv.P.data).all()) or (lv.P.nnz and np.abs(lv.P.data).max() > 1e8) for lv in ml0.levels[:-1]),
            'empty_rows': any((np.diff(sp.csr_array(lv.A).indptr) == 0).any() for lv in ml0.levels[:-1])}


def ctor_refusal(ex):
    """an explicit argument check of the constructor refuses the option combination (no hierarchy, nothing to judge):
    energy smoothing with strength=None on a coarse level stored in blocks (nodal T vs block A)"""
    return isinstance(ex, ValueError) and 'T row-blocksize should be the same as A blocksize' in str(ex)


def schwarz_fkey(spec, ex, facts):
    """known-finding key for the LAPACK error raised by schwarz_parameters on an empty subdomain: a Schwarz-type smoother on a
    hierarchy with an empty row in some non-coarsest level matrix (zero column of P: singleton aggregate of a zero candidate entry)"""
    names = str((spec['kw'].get('presmoother'), spec['kw'].get('postsmoother')))
    if 'maxmn==shape(b,0)' in str(ex) and 'schwarz' in names and facts.get('empty_rows'):
        return 'schwarz-empty-subdomain'     # repaired in /repo (e7d3447): not a known finding, only a label for the message
    return None


def stale_block_rho_fkey(spec):
    """known-finding key: a block_jacobi smoother with explicit blocksize b is set up on level 0 after a block_jacobi with a
    different explicit blocksize was set up on the same level matrix (construction or an earlier change_smoothers call):
    rho_block_D_inv_A reuses the estimate cached for the other block size"""
    def lvl0_bs(sm):
        sm = _tup(sm)
        if isinstance(sm, list):
            sm = sm[0] if sm else None
        if isinstance(sm, tuple) and sm[0] == 'block_jacobi' and sm[1].get('withrho', True):
            return sm[1].get('blocksize')
        return None
    seq = [spec['kw'].get('presmoother'), spec['kw'].get('postsmoother')]
    for h in spec.get('history') or []:
        seq += [h[0], h[1]]
    sizes = [lvl0_bs(sm) for sm in seq]
    for k in (len(sizes) - 2, len(sizes) - 1):
        if sizes[k] and any(b and b != sizes[k] for b in sizes[:k]):
            return 'block-jacobi-stale-rho'
    return None


def spec_case(spec):
    return {'matrix': mat_to_case(spec['M']), 'ctor': spec['ctor'], 'kw': spec['kw'], 'npseed': spec['npseed'],
            'decoy': bool(spec.get('decoy')), 'history': spec.get('history')}


# ------------------------------------------------------------------------------------------------
# part S: search over the property's families
# ------------------------------------------------------------------------------------------------

CTORS = ['classical', 'sa', 'rootnode', 'pairwise']


def part_search(ctx, N, cap, fams=None, focus=None):
    rng = ctx.np_rng
    done = 0
    t = 0
    while done < N and t < 4 * N and ctx.time_left() > 8 and not _enough(ctx):
        t += 1
        fam = (fams or FAMILIES)[t % len(fams or FAMILIES)]
        M = make_matrix(rng, fam, cap)
        if rng.random() < 0.3:
            M = rotate(rng, M)
        A = M['A']
        n = A.shape[0]
        cplx = np.iscomplexobj(A.data)
        En = Energy(A.toarray())
        if not En.hpd:
            ctx.feat('generator:not_hpd_skipped')
            continue
        bsr = A.format == 'bsr'
        ctor = focus or CTORS[(t // len(FAMILIES) + t) % 4]
        if cplx and ctor in ('classical', 'pairwise'):
            # the classical interpolation kernels and pairwise_solver are real only (TypeError / ValueError by design)
            ctor = 'sa' if ctor == 'classical' else 'rootnode'
        kw = rand_ctor(rng, M, ctor, cplx)
        if bsr and ctor in ('sa', 'rootnode') and kw['strength'] is None:
            # without a strength measure a BSR matrix is aggregated by unknowns, not by nodes: the tentative prolongator then has
            # the wrong block size for root-node / energy smoothing (TypeError / ValueError by design)
            kw['strength'] = 'symmetric'
        if isinstance(kw.get('aggregate'), tuple) and kw['aggregate'][0] == 'lloyd' and \
                (cplx or not M['fam'].startswith(('poisson', 'aniso'))):
            kw['aggregate'] = 'standard'     # lloyd aggregation: real, connected grid graphs only (it raises on others; C12's business)
        two_level_bs = None
        if not bsr and kw['max_levels'] == 2 and n % 2 == 0 and rng.random() < 0.5:
            two_level_bs = 2
        kw['presmoother'] = rand_smoother(rng, bsr, two_level_bs)
        kw['postsmoother'] = kw['presmoother'] if rng.random() < 0.5 else rand_smoother(rng, bsr, two_level_bs)
        if two_level_bs is None and rng.random() < 0.2:
            # per-level lists: level 0, level 1, (the last entry is used for the remaining levels)
            kw['presmoother'] = [kw['presmoother'], rand_smoother(rng, bsr, None)]
            kw['postsmoother'] = [kw['postsmoother'], rand_smoother(rng, bsr, None), rand_smoother(rng, bsr, None)]
            ctx.feat('per_level_smoother_lists')
        spec = {'M': M, 'ctor': ctor, 'kw': kw, 'npseed': int(rng.integers(0, 2**31 - 1))}
        run_spec(ctx, spec, En, rng)
        done += 1


def run_spec(ctx, spec, En, rng, cycles=None, report_ctor_error=True):
    M, kw, ctor = spec['M'], spec['kw'], spec['ctor']
    try:
        try:
            ml = build(spec)
        except ValueError:
            # lloyd aggregation raises ('indices and data should have the same size') when the strength graph leaves nodes
            # out of reach of every centre -- the aggregation routine's business (C12), not this property's: use 'standard'
            agg = kw.get('aggregate')
            if not (isinstance(agg, (list, tuple)) and agg[0] == 'lloyd'):
                raise
            ctx.feat('lloyd_raised->standard')
            spec = dict(spec, kw=dict(kw, aggregate='standard'))
            kw = spec['kw']
            ml = build(spec)
    except Exception as ex:    # noqa: BLE001
        facts = probe(spec)
        if facts.get('nonfinite'):
            ctx.case(key=_key('nonfinite', M['A'].data.tobytes(), ctor, repr(sorted(kw.items(), key=str))), nontrivial=True)
            ctx.feat('nonfinite_P:' + ctor)
            ctx.violation(f'{ctor} hierarchy on an HPD matrix ({M["fam"]}, n={En.n}) has non-finite interpolation weights '
                          f'(strength={kw.get("strength")}, CF={kw.get("CF")}, interpolation={kw.get("interpolation")}); the '
                          f'constructor then raises {type(ex).__name__}: {ex}', dict(spec_case(spec), mode='nonfinite'),
                          fkey=nonfinite_fkey(spec))
            return None
        fk = schwarz_fkey(spec, ex, facts)
        if fk:
            ctx.case(key=_key('schwarz-empty', M['A'].data.tobytes(), ctor, repr(sorted(kw.items(), key=str))), nontrivial=True)
            ctx.feat('schwarz_empty_subdomain')
            ctx.violation(f'{ctor} hierarchy ({M["fam"]}, n={En.n}) with Schwarz smoothing: a level matrix has an empty row and '
                          f'schwarz_parameters raises {type(ex).__name__}: {ex}', dict(spec_case(spec), mode='ctor-raise'))
            return None
        if ctor_refusal(ex):
            ctx.feat('constructor_refused:' + str(ex)[:40])
            ctx.case(key=None, nontrivial=False)
            return None
        ctx.feat('constructor_raised:' + type(ex).__name__)
        ctx.case(key=None, nontrivial=False)
        ctx.corr('constructor raised', spec_case(spec), 'a hierarchy', f'{type(ex).__name__}: {ex}',
                 'the constructors accept every generated HPD problem on the unchanged tree')
        return None
    nl = len(ml.levels)
    if nl >= 2 and kw.get('coarse_solver') != 'pinv' and np.isfinite(ml.levels[-1].A.data).all():
        # rank-deficient P (empty aggregates, more candidates than nodes in an aggregate) gives a singular coarsest matrix:
        # 'lu' / 'cholesky' need a nonsingular matrix, 'splu' tolerates exactly-zero rows and columns only
        Ac = ml.levels[-1].A.toarray()
        if kw['coarse_solver'] == 'splu':
            nz = np.abs(Ac).sum(0) != 0
            Ac = Ac[np.ix_(nz, nz)]
        w = np.linalg.eigvalsh(Ac) if Ac.size else np.ones(1)
        if Ac.size == 0 or w.min() <= 1e-11 * max(w.max(), 1e-300):
            ctx.feat('singular_coarse:' + kw['coarse_solver'] + '->pinv')
            spec = dict(spec, kw=dict(kw, coarse_solver='pinv'))
            kw = spec['kw']
            ml = build(spec)
    pre, post = _final_smoothers(spec)
    for i, lv in enumerate(ml.levels[:-1]):
        pmax = np.abs(lv.P.data).max() if lv.P.nnz else 0.0
        if not np.isfinite(lv.P.data).all() or pmax > 1e8:
            # a (numerically) zero denominator in an interpolation formula: weights inf / NaN, or of order 1e15 when the
            # cancellation is only exact up to rounding; the Galerkin products are then garbage in floating point
            ctx.case(key=_key('nonfinite', M['A'].data.tobytes(), ctor, repr(sorted(kw.items(), key=str))), nontrivial=True)
            ctx.feat('nonfinite_P:' + ctor)
            ctx.violation(f'{ctor} hierarchy on an HPD matrix ({M["fam"]}, n={En.n}) has non-finite or huge (max |P| = {pmax:.3g}) '
                          f'interpolation weights on level {i} (strength={kw.get("strength")}, CF={kw.get("CF")}, '
                          f'interpolation={kw.get("interpolation")}): the cycles return NaN / garbage',
                          dict(spec_case(spec), mode='nonfinite'), fkey=nonfinite_fkey(spec))
            return None
        if pmax > 1e4:
            ctx.feat('large_P_entries')
    ctx.feat('family:' + M['fam'])
    ctx.feat('ctor:' + ctor)
    ctx.feat(f'levels:{min(nl, 5)}')
    for nm in {str(v[0]) for v in (pre if isinstance(pre, list) else [pre])}:
        ctx.feat('pre:' + nm)
    for nm in {str(v[0]) for v in (post if isinstance(post, list) else [post])}:
        ctx.feat('post:' + nm)
    ctx.feat('coarse:' + str(kw.get('coarse_solver')))
    ctx.feat('complex' if En.cplx else 'real')
    ctx.feat('bsr' if M['A'].format == 'bsr' else 'csr')
    hyp = hypotheses(ml, spec)
    fk = stale_block_rho_fkey(spec)
    stale = [h for h in hyp if 'block_jacobi: omega_used' in h]
    if fk and stale:
        # the finding itself: under-damped block Jacobi from a stale estimate; everything that follows from it carries the key
        spec = dict(spec, _fkey=fk)
        hyp = [h for h in hyp if h not in stale]
        ctx.feat('stale_block_rho')
        ctx.violation(f'{_cfg(spec, ml, En.n)}: {stale[0]} (estimate cached for another block size)', dict(spec_case(spec), mode='stale-rho'), fkey=fk)
    if cycles is None:
        cycles = [('V', 1), ('W', 1), ('F', int(rng.choice([1, 1, 2])))]
    for cyc, cpl in cycles:
        ctx.case(key=_key(M['A'].data.tobytes(), M['A'].indices.tobytes(), ctor, repr(sorted(kw.items(), key=str)), repr(spec.get('history')), cyc, cpl),
                 nontrivial=nl >= 2,
                 sample={'family': M['fam'], 'n': En.n, 'ctor': ctor, 'levels': nl, 'pre': pre, 'post': post,
                         'coarse': kw.get('coarse_solver'), 'cycle': cyc} if ctx.evaluations % 37 == 0 else None)
    found = judge(ctx, spec, ml, En, cycles, rng)
    if not found and nl >= 2:
        found = solve_monotone(ctx, spec, ml, En, cycles[int(rng.integers(0, len(cycles)))][0], rng)
    for h in hyp:
        ctx.feat('hypothesis_failed')
        ctx.corr('hypothesis of the cycle theorem', spec_case(spec), 'holds', h)
    return ml


# ------------------------------------------------------------------------------------------------
# part M: the exact Lean cycle model against real cycles
# ------------------------------------------------------------------------------------------------

def _csr_tokens(Mx):
    Mx = sp.csr_array(Mx)
    Mx.sort_indices()
    return f'{enc_ints(Mx.indptr)} {enc_ints(Mx.indices)} {enc_rats(Mx.data)}'


def _sm_token(fn):
    name, kw = smoother_params(fn)
    if name in ('gauss_seidel', 'sor', 'block_gauss_seidel'):
        if 'Dinv' in kw:
            raise KeyError('block')
        return f"gs:{enc_rat(kw.get('omega', 1.0))}:{kw.get('sweep', 'forward')}:{kw.get('iterations', 1)}"
    if name in ('jacobi', 'block_jacobi'):
        if 'Dinv' in kw:
            raise KeyError('block')
        return f"jac:{enc_rat(np.real(kw.get('omega', 1.0)))}:{kw.get('iterations', 1)}"
    raise KeyError(name)


SCALE = 2 ** 120


def part_model(ctx, N):
    rng = ctx.np_rng
    items = []
    t = 0
    while len(items) < N and t < 6 * N:
        t += 1
        fam = ['poisson1d', 'poisson2d', 'graph_shift', 'graph_dirichlet', 'gram', 'aniso', 'graph_identity'][t % 7]
        M = make_matrix(rng, fam, 24)
        if M['A'].shape[0] > 24 or M['A'].shape[0] < 3:
            continue
        A = M['A']
        n = A.shape[0]
        En = Energy(A.toarray())
        if not En.hpd:
            continue
        ctor = CTORS[t % 4]
        kw = rand_ctor(rng, M, ctor, False)
        kw['max_coarse'] = int(rng.choice([1, 2, 3, 5]))
        kw['presmoother'] = rand_smoother(rng, False, None, model_only=True)
        kw['postsmoother'] = kw['presmoother'] if rng.random() < 0.4 else rand_smoother(rng, False, None, model_only=True)
        spec = {'M': M, 'ctor': ctor, 'kw': kw, 'npseed': int(rng.integers(0, 2**31 - 1))}
        try:
            ml = build(spec)
        except Exception as ex:    # noqa: BLE001
            if not ctor_refusal(ex) and not probe(spec).get('nonfinite'):
                ctx.corr('constructor raised', spec_case(spec), 'a hierarchy', f'{type(ex).__name__}: {ex}')
            continue
        if len(ml.levels) < 2 or any(l.A.format == 'bsr' and tuple(l.A.blocksize) != (1, 1) for l in ml.levels):
            continue
        if any((not np.isfinite(l.P.data).all()) or (l.P.nnz and np.abs(l.P.data).max() > 1e8) for l in ml.levels[:-1]):
            continue      # reported by the search part (run_spec)
        cyc = 'VWF'[len(items) % 3]
        cpl = int(rng.choice([1, 2])) if cyc == 'F' else 1
        x0 = rng.integers(-8, 9, n) / 8.0
        b = rng.integers(-8, 9, n) / 4.0
        try:
            x1 = one_cycle(ml, b, x0, cyc, cpl)
        except Exception:    # noqa: BLE001  (singular coarse matrix with lu/cholesky: the search part handles these)
            continue
        toks = ['c02_cycle', cyc, str(cpl), str(n), _csr_tokens(A), enc_rats(x0), enc_rats(b), str(len(ml.levels) - 1)]
        try:
            for lv in ml.levels[:-1]:
                P = sp.csr_array(lv.P)
                toks += [str(P.shape[0]), str(P.shape[1]), _csr_tokens(P), _sm_token(lv.presmoother), _sm_token(lv.postsmoother)]
        except KeyError:
            continue
        items.append({'line': ' '.join(toks), 'spec': spec, 'ml': ml, 'x1': x1, 'x0': x0, 'b': b, 'cycle': cyc, 'cpl': cpl, 'En': En})
    outs = _lean(ctx, [it['line'] for it in items], chunks=4 if len(items) >= 64 else 1)
    for it, o in zip(items, outs):
        spec, ml, En = it['spec'], it['ml'], it['En']
        case = dict(spec_case(spec), cycle=it['cycle'], cycles_per_level=it['cpl'], x0=it['x0'], b=it['b'], mode='model')
        ctx.case(key=_key(it['line']), nontrivial=True,
                 sample={'request': it['line'][:160], 'model': o[:80], 'impl': it['x1'][:4].tolist()} if ctx.evaluations % 11 == 0 else None)
        ctx.feat('model:' + spec['ctor'])
        ctx.feat('model_cycle:' + it['cycle'])
        ctx.feat(f'model_levels:{len(ml.levels)}')
        parts = o.split('#')
        ok = True
        if o == 'singular':
            # the exact Galerkin coarse matrix is singular (rank-deficient P): outside the model's direct solve
            ctx.feat('model:singular_coarse')
            continue
        if len(parts) != 6:
            ctx.corr('c02_cycle', case, o[:200], 'n/a', 'driver rejected the request')
            ok = False
        else:
            xm = np.array([int(v) / SCALE for v in dec_list(parts[0])])
            Acm = np.array([[int(v) / SCALE for v in dec_list(r)] for r in parts[3].split(';')])
            err = np.abs(xm - it['x1']).max() / max(1.0, np.abs(xm).max())
            ctx.rel_err(err)
            Ac = ml.levels[-1].A.toarray()
            if parts[1] != 'true':
                ctx.corr('c02_cycle: A0 not exactly symmetric', case, parts[1], 'n/a')
                ok = False
            elif parts[4] != 'true':
                ctx.corr('c02_cycle: elimination of A0 meets a non-positive pivot in exact arithmetic (A0 not positive definite)', case, parts[4], 'n/a')
                ok = False
            elif parts[2] != 'true':
                ctx.corr('c02_cycle: the exact model cycle increased the energy (theorem instance broken)', case, parts[2], 'n/a')
                ok = False
            elif parts[5] != 'true':
                ctx.corr('c02_cycle: the data hypotheses of model_cycle_nonexp (shapes, R = P^T, Galerkin, one diagonal per row, '
                         '0 <= omega <= 2 for Gauss-Seidel/SOR, 2D - omega A positive definite for Jacobi) fail on the model hierarchy',
                         case, parts[5], 'n/a')
                ok = False
            else:
                ctx.feat('model_theorem_hypotheses_checked')
            if not err <= 1e-9:
                ctx.corr(f'one {it["cycle"]}-cycle of the real hierarchy differs from the exact model (rel. {err:.3g})', case,
                         xm.tolist(), it['x1'].tolist())
                ok = False
            if Acm.shape != Ac.shape or not np.abs(Acm - Ac).max() <= 1e-9 * max(np.abs(Ac).max(), 1e-300):
                ctx.corr('coarsest matrix of the real hierarchy differs from the exact Galerkin product of the model', case,
                         Acm.tolist(), Ac.tolist())
                ok = False
            if ok:
                ctx.feat('model_agrees')
        if not ok:
            # judge the property itself on this hierarchy with the dense oracle
            judge(ctx, spec, ml, En, [(it['cycle'], it['cpl'])], ctx.np_rng)
    # the exact comparison op on float-clear cases (expected: true), and on a reversed pair (expected: false)
    lines, exp = [], []
    for it in items[:6]:
        En = it['En']
        xs = np.linalg.solve(En.Ad, it['b'])
        e0, e1 = xs - it['x0'], xs - it['x1']
        if En.en(e1) < En.en(e0) * (1 - 1e-6):
            Ar = sp.csr_array(En.Ar)
            hdr = f'{Ar.shape[0]} {enc_ints(Ar.indptr)} {enc_ints(Ar.indices)} {enc_rats(Ar.data)}'
            lines += [f'c02_energy_le {hdr} {enc_rats(e0)} {enc_rats(e1)}', f'c02_energy_le {hdr} {enc_rats(e1)} {enc_rats(e0)}']
            exp += ['true', 'false']
    for ln, o, ex in zip(lines, _lean(ctx, lines), exp):
        ctx.feat('energy_le_op')
        if o != ex:
            ctx.corr('c02_energy_le', {'line': ln[:400]}, o, ex)


# ------------------------------------------------------------------------------------------------
# extension E35: the executable cycle model on complex Hermitian hierarchies (part CM) and on BSR levels with block
# smoothers (part BM); theorems `complex_model_cycle_nonexpansive`, `block_model_cycle_nonexpansive`
# ------------------------------------------------------------------------------------------------

def _ccsr_tokens(Mx):
    from common import enc_crats
    Mx = sp.csr_array(Mx)
    Mx.sort_indices()
    return f'{enc_ints(Mx.indptr)} {enc_ints(Mx.indices)} {enc_crats(Mx.data)}'


def _csm_token(fn):
    from common import enc_crat
    name, kw = smoother_params(fn)
    if 'Dinv' in kw:
        raise KeyError('block')
    if name in ('gauss_seidel', 'sor', 'block_gauss_seidel'):
        return f"gs:{enc_crat(kw.get('omega', 1.0))}:{kw.get('sweep', 'forward')}:{kw.get('iterations', 1)}"
    if name in ('jacobi', 'block_jacobi'):
        return f"jac:{enc_crat(kw.get('omega', 1.0))}:{kw.get('iterations', 1)}"
    raise KeyError(name)


def _bsm_token(fn, A):
    """smoother token of the BSR model; `A` = the level matrix the smoother was set up on"""
    name, kw = smoother_params(fn)
    bsr = A.format == 'bsr' and tuple(A.blocksize) != (1, 1)
    if 'Dinv' in kw:
        bs = int(kw['blocksize'])
        if tuple(np.shape(kw['Dinv'])) != (A.shape[0] // bs, bs, bs):
            raise KeyError('Dinv shape')
        if name == 'block_gauss_seidel':
            return f"bgs:{bs}:{kw.get('sweep', 'forward')}:{kw.get('iterations', 1)}"
        if name == 'block_jacobi':
            return f"bjac:{bs}:{enc_rat(np.real(kw.get('omega', 1.0)))}:{kw.get('iterations', 1)}"
        raise KeyError(name)
    if name in ('gauss_seidel', 'sor', 'block_gauss_seidel'):
        # relaxation.gauss_seidel on a BSR matrix calls bsr_gauss_seidel, which has no omega: plain Gauss-Seidel
        om = 1.0 if bsr else kw.get('omega', 1.0)
        return f"gs:{enc_rat(om)}:{kw.get('sweep', 'forward')}:{kw.get('iterations', 1)}"
    if name in ('jacobi', 'block_jacobi'):
        return f"jac:{enc_rat(np.real(kw.get('omega', 1.0)))}:{kw.get('iterations', 1)}"
    raise KeyError(name)


def _cdec(tok):
    a, b = tok.split('|')
    return complex(int(a) / SCALE, int(b) / SCALE)


def _model_compare(ctx, op, it, o, cplx, hyp_text):
    """shared judgement of one reply of c02x_ccycle / c02x_bcycle; -> ok"""
    spec, ml = it['spec'], it['ml']
    case = dict(spec_case(spec), cycle=it['cycle'], cycles_per_level=it['cpl'], x0=it['x0'], b=it['b'], mode=op)
    parts = o.split('#')
    if o in ('singular', 'singular-block'):
        ctx.feat(f'{op}:{o}')
        return True
    if len(parts) != 6:
        ctx.corr(op, case, o[:200], 'n/a', 'driver rejected the request')
        return False
    ok = True
    if cplx:
        xm = np.array([_cdec(v) for v in dec_list(parts[0])])
        Acm = np.array([[_cdec(v) for v in dec_list(r)] for r in parts[3].split(';')])
    else:
        xm = np.array([int(v) / SCALE for v in dec_list(parts[0])])
        Acm = np.array([[int(v) / SCALE for v in dec_list(r)] for r in parts[3].split(';')])
    err = np.abs(xm - it['x1']).max() / max(1.0, np.abs(xm).max())
    ctx.rel_err(err)
    Ac = ml.levels[-1].A.toarray()
    if parts[1] != 'true':
        ctx.corr(f'{op}: A0 not exactly ' + ('Hermitian' if cplx else 'symmetric'), case, parts[1], 'n/a')
        ok = False
    elif parts[4] != 'true':
        ctx.corr(f'{op}: elimination of (the real form of) A0 meets a non-positive pivot in exact arithmetic', case, parts[4], 'n/a')
        ok = False
    elif parts[2] != 'true':
        ctx.corr(f'{op}: the exact model cycle increased the energy (theorem instance broken)', case, parts[2], 'n/a')
        ok = False
    elif parts[5] != 'true':
        ctx.corr(f'{op}: the data hypotheses of {hyp_text} fail on the model hierarchy', case, parts[5], 'n/a')
        ok = False
    else:
        ctx.feat(f'{op}:theorem_hypotheses_checked')
    if not err <= 1e-9:
        ctx.corr(f'{op}: one {it["cycle"]}-cycle of the real hierarchy differs from the exact model (rel. {err:.3g})', case,
                 [str(v) for v in xm.tolist()], [str(v) for v in it['x1'].tolist()])
        ok = False
    if Acm.shape != Ac.shape or not np.abs(Acm - Ac).max() <= 1e-9 * max(np.abs(Ac).max(), 1e-300):
        ctx.corr(f'{op}: coarsest matrix of the real hierarchy differs from the exact Galerkin product of the model', case,
                 [str(v) for v in Acm.ravel().tolist()][:64], [str(v) for v in Ac.ravel().tolist()][:64])
        ok = False
    if ok:
        ctx.feat(f'{op}:agrees')
    return ok


def part_cmodel(ctx, N):
    """complex Hermitian hierarchies (SA / root-node on unitary-diagonal rotations) vs `C02.cycle` over Gaussian rationals"""
    from common import enc_crats
    rng = ctx.np_rng
    items = []
    t = 0
    while len(items) < N and t < 8 * N and ctx.time_left() > 10:
        t += 1
        fam = ['poisson1d', 'poisson2d', 'graph_shift', 'graph_dirichlet', 'gram', 'aniso', 'graph_identity'][t % 7]
        M = make_matrix(rng, fam, 20)
        if M['A'].shape[0] > 20 or M['A'].shape[0] < 3:
            continue
        M = rotate(rng, M)
        # D A D^H in floating point is Hermitian only up to rounding; (A + A^H)/2 is exactly Hermitian (the theorem's hypothesis)
        Ah = sp.csr_array((M['A'] + M['A'].conj().T) * 0.5)
        Ah = _i32(Ah)
        Ah.sort_indices()
        M = dict(M, A=Ah)
        A = M['A']
        n = A.shape[0]
        En = Energy(A.toarray())
        if not En.hpd:
            continue
        ctor = ['sa', 'rootnode'][t % 2]
        kw = rand_ctor(rng, M, ctor, True)
        if isinstance(kw.get('aggregate'), tuple) and kw['aggregate'][0] == 'lloyd':
            kw['aggregate'] = 'standard'
        kw['max_coarse'] = int(rng.choice([1, 2, 3, 5]))
        kw['presmoother'] = rand_smoother(rng, False, None, model_only=True)
        kw['postsmoother'] = kw['presmoother'] if rng.random() < 0.4 else rand_smoother(rng, False, None, model_only=True)
        spec = {'M': M, 'ctor': ctor, 'kw': kw, 'npseed': int(rng.integers(0, 2**31 - 1))}
        try:
            ml = build(spec)
        except Exception as ex:    # noqa: BLE001
            if not ctor_refusal(ex) and not probe(spec).get('nonfinite'):
                ctx.corr('constructor raised', spec_case(spec), 'a hierarchy', f'{type(ex).__name__}: {ex}')
            continue
        if len(ml.levels) < 2 or any(l.A.format == 'bsr' and tuple(l.A.blocksize) != (1, 1) for l in ml.levels):
            continue
        if any((not np.isfinite(l.P.data).all()) or (l.P.nnz and np.abs(l.P.data).max() > 1e8) for l in ml.levels[:-1]):
            continue
        cyc = 'VWF'[len(items) % 3]
        cpl = int(rng.choice([1, 2])) if cyc == 'F' else 1
        x0 = (rng.integers(-8, 9, n) + 1j * rng.integers(-8, 9, n)) / 8.0
        b = (rng.integers(-8, 9, n) + 1j * rng.integers(-8, 9, n)) / 4.0
        try:
            x1 = one_cycle(ml, b, x0, cyc, cpl)
        except Exception:    # noqa: BLE001  (singular coarse matrix with lu/cholesky: the search part handles these)
            continue
        toks = ['c02x_ccycle', cyc, str(cpl), str(n), _ccsr_tokens(A), enc_crats(x0), enc_crats(b), str(len(ml.levels) - 1)]
        try:
            for lv in ml.levels[:-1]:
                P = sp.csr_array(lv.P).astype(complex)
                toks += [str(P.shape[0]), str(P.shape[1]), _ccsr_tokens(P), _csm_token(lv.presmoother), _csm_token(lv.postsmoother)]
        except KeyError:
            continue
        items.append({'line': ' '.join(toks), 'spec': spec, 'ml': ml, 'x1': x1, 'x0': x0, 'b': b, 'cycle': cyc, 'cpl': cpl, 'En': En})
    outs = _lean(ctx, [it['line'] for it in items], chunks=4 if len(items) >= 64 else 1)
    for it, o in zip(items, outs):
        ctx.case(key=_key(it['line']), nontrivial=True,
                 sample={'request': it['line'][:160], 'model': o[:80], 'impl': [str(v) for v in it['x1'][:3]]} if ctx.evaluations % 11 == 0 else None)
        ctx.feat('cmodel:' + it['spec']['ctor'])
        ctx.feat('cmodel_cycle:' + it['cycle'])
        ctx.feat(f'cmodel_levels:{len(it["ml"].levels)}')
        for sm in (it['spec']['kw']['presmoother'], it['spec']['kw']['postsmoother']):
            ctx.feat('cmodel_smoother:' + _tup(sm)[0])
        ok = _model_compare(ctx, 'c02x_ccycle', it, o, True,
                            'complex_model_cycle_nonexpansive (shapes, R = P^H, Galerkin, one diagonal per row, real 0 <= omega <= 2 '
                            'for Gauss-Seidel/SOR, real omega and 2D - omega A positive definite for Jacobi)')
        if not ok:
            judge(ctx, it['spec'], it['ml'], it['En'], [(it['cycle'], it['cpl'])], ctx.np_rng)
    # the exact complex comparison op on float-clear cases (expected: true) and on the reversed pair (expected: false)
    lines, exp = [], []
    for it in items[:4]:
        En = it['En']
        xs = np.linalg.solve(En.Ad, it['b'])
        e0, e1 = xs - it['x0'], xs - it['x1']
        if En.en(e1) < En.en(e0) * (1 - 1e-6):
            hdr = f'{En.n} {_ccsr_tokens(sp.csr_array(En.Ad))}'
            lines += [f'c02x_cenergy_le {hdr} {enc_crats(e0)} {enc_crats(e1)}', f'c02x_cenergy_le {hdr} {enc_crats(e1)} {enc_crats(e0)}']
            exp += ['true', 'false']
    for ln, o, ex in zip(lines, _lean(ctx, lines), exp):
        ctx.feat('cenergy_le_op')
        if o != ex:
            ctx.corr('c02x_cenergy_le', {'line': ln[:400]}, o, ex)


BM_SMOOTHERS = ['gauss_seidel', 'jacobi', 'block_gauss_seidel', 'block_gauss_seidel', 'block_jacobi', 'block_jacobi']


def _bm_smoother(rng, bs_opt):
    sweep = str(rng.choice(['forward', 'backward', 'symmetric']))
    its = int(rng.choice([1, 1, 2, 3]))
    name = str(rng.choice(BM_SMOOTHERS))
    om = float(rng.choice([4.0 / 3.0, 1.0, 0.5, float(rng.uniform(0.2, 4.0 / 3.0))]))
    if name == 'gauss_seidel':
        return ('gauss_seidel', {'sweep': sweep, 'iterations': its})
    if name == 'jacobi':
        return ('jacobi', {'omega': om, 'iterations': its})
    kw = {'sweep': sweep, 'iterations': its} if name == 'block_gauss_seidel' else {'omega': om, 'iterations': its}
    if bs_opt:
        kw['blocksize'] = int(bs_opt)
    return (name, kw)


def part_bmodel(ctx, N):
    """BSR hierarchies (elasticity, block-coupled problems; SA / root-node) and CSR hierarchies with an explicit block
    size, smoothed by block Gauss-Seidel / block Jacobi / the pointwise kernels, vs `C02X.cycleO` on BSR levels"""
    rng = ctx.np_rng
    items = []
    t = 0
    while len(items) < N and t < 8 * N and ctx.time_left() > 10:
        t += 1
        fam = ['elasticity2d', 'blockcpl', 'elasticity2d_nu', 'blockcpl', 'poisson2d', 'graph_shift'][t % 6]
        M = make_matrix(rng, fam, 24)
        A = M['A']
        n = A.shape[0]
        if n > 36 or n < 4:
            continue
        En = Energy(A.toarray())
        if not En.hpd:
            continue
        bsr = A.format == 'bsr'
        ctor = ['sa', 'rootnode'][t % 2] if bsr else CTORS[t % 4]
        kw = rand_ctor(rng, M, ctor, False)
        if bsr and kw.get('strength') is None:
            kw['strength'] = 'symmetric'
        if isinstance(kw.get('aggregate'), tuple) and kw['aggregate'][0] == 'lloyd':
            kw['aggregate'] = 'standard'
        kw['max_coarse'] = int(rng.choice([1, 2, 3, 6]))
        bs_opt = None
        if not bsr:
            # explicit block size on CSR levels: two-level hierarchies (the block size has to divide the level size)
            kw['max_levels'] = 2
            divs = [d for d in (2, 3, 4) if n % d == 0]
            if not divs:
                continue
            bs_opt = int(rng.choice(divs))
        kw['presmoother'] = _bm_smoother(rng, bs_opt)
        kw['postsmoother'] = kw['presmoother'] if rng.random() < 0.4 else _bm_smoother(rng, bs_opt)
        spec = {'M': M, 'ctor': ctor, 'kw': kw, 'npseed': int(rng.integers(0, 2**31 - 1))}
        try:
            ml = build(spec)
        except Exception as ex:    # noqa: BLE001
            if not ctor_refusal(ex) and not probe(spec).get('nonfinite'):
                ctx.corr('constructor raised', spec_case(spec), 'a hierarchy', f'{type(ex).__name__}: {ex}')
            continue
        if len(ml.levels) < 2:
            continue
        if any((not np.isfinite(l.P.data).all()) or (l.P.nnz and np.abs(l.P.data).max() > 1e8) for l in ml.levels[:-1]):
            continue
        cyc = 'VWF'[len(items) % 3]
        cpl = int(rng.choice([1, 2])) if cyc == 'F' else 1
        x0 = rng.integers(-8, 9, n) / 8.0
        b = rng.integers(-8, 9, n) / 4.0
        try:
            x1 = one_cycle(ml, b, x0, cyc, cpl)
        except Exception:    # noqa: BLE001
            continue
        toks = ['c02x_bcycle', cyc, str(cpl), str(n), _csr_tokens(A), enc_rats(x0), enc_rats(b), str(len(ml.levels) - 1)]
        try:
            names = []
            for lv in ml.levels[:-1]:
                P = sp.csr_array(lv.P)
                tp, tq = _bsm_token(lv.presmoother, lv.A), _bsm_token(lv.postsmoother, lv.A)
                names += [tp.split(':')[0], tq.split(':')[0]]
                toks += [str(P.shape[0]), str(P.shape[1]), _csr_tokens(P), tp, tq]
        except KeyError:
            continue
        items.append({'line': ' '.join(toks), 'spec': spec, 'ml': ml, 'x1': x1, 'x0': x0, 'b': b, 'cycle': cyc, 'cpl': cpl, 'En': En,
                      'names': names})
    outs = _lean(ctx, [it['line'] for it in items], chunks=4 if len(items) >= 64 else 1)
    for it, o in zip(items, outs):
        ml = it['ml']
        ctx.case(key=_key(it['line']), nontrivial=True,
                 sample={'request': it['line'][:160], 'model': o[:80], 'impl': it['x1'][:4].tolist()} if ctx.evaluations % 11 == 0 else None)
        ctx.feat('bmodel:' + it['spec']['ctor'])
        ctx.feat('bmodel_cycle:' + it['cycle'])
        ctx.feat(f'bmodel_levels:{len(ml.levels)}')
        ctx.feat('bmodel_blocksizes:' + ','.join(str(l.A.blocksize[0]) if l.A.format == 'bsr' else '1' for l in ml.levels))
        for nm in set(it['names']):
            ctx.feat('bmodel_smoother:' + nm)
        ok = _model_compare(ctx, 'c02x_bcycle', it, o, False,
                            'block_model_cycle_nonexpansive (shapes, R = P^T, Galerkin, exact inverse diagonal blocks, 2 D_B - omega A '
                            'positive definite for block Jacobi, the pointwise conditions of model_cycle_nonexpansive)')
        if not ok:
            judge(ctx, it['spec'], ml, it['En'], [(it['cycle'], it['cpl'])], ctx.np_rng)


# ------------------------------------------------------------------------------------------------
# part E: every smoother family at the edge of its admissible damping, on matrices with a large rho(D^-1 A)
# ------------------------------------------------------------------------------------------------

EDGE_SMOOTHERS = [
    ('jacobi', {'omega': 4.0 / 3.0}), ('jacobi', {'omega': 4.0 / 3.0, 'iterations': 2}),
    ('block_jacobi', {'omega': 4.0 / 3.0}), ('richardson', {'omega': 4.0 / 3.0}),
    ('sor', {'omega': 1.95, 'sweep': 'forward'}), ('sor', {'omega': 1.95, 'sweep': 'symmetric'}), ('sor', {'omega': 0.05, 'sweep': 'backward'}),
    ('gauss_seidel', {'sweep': 'forward'}), ('gauss_seidel', {'sweep': 'backward', 'iterations': 2}),
    ('block_gauss_seidel', {'sweep': 'forward'}), ('block_gauss_seidel', {'sweep': 'symmetric'}),
    ('chebyshev', {'degree': 1}), ('chebyshev', {'degree': 2}), ('chebyshev', {'degree': 3}), ('chebyshev', {'degree': 4}),
    ('chebyshev', {'degree': 2, 'iterations': 3}), ('richardson', {'omega': 4.0 / 3.0, 'iterations': 4}), ('block_jacobi', {'omega': 4.0 / 3.0, 'iterations': 3}),
    ('schwarz', {'sweep': 'forward'}), ('schwarz', {'sweep': 'symmetric'}), ('strength_based_schwarz', {'sweep': 'backward'}),
]


def part_edge(ctx, N, only=None):
    rng = ctx.np_rng
    sms = [sm for sm in EDGE_SMOOTHERS if only is None or sm[0] in only]
    fams = ['elasticity2d', 'gram', 'aniso', 'blockcpl', 'elasticity2d_nu', 'graph_shift', 'poisson2d', 'graph_dirichlet', 'blockcpl']
    for t in range(N):
        if ctx.time_left() < 8 or _enough(ctx):
            break
        fam = fams[t % len(fams)]
        M = make_matrix(rng, fam, 64)
        if t % 3 == 2:
            M = rotate(rng, M)
        A = M['A']
        En = Energy(A.toarray())
        if not En.hpd:
            continue
        cplx, bsr = En.cplx, A.format == 'bsr'
        sm = sms[(t // len(fams) + t) % len(sms)]
        ctor = ['sa', 'rootnode'][t % 2] if (cplx or bsr) else CTORS[t % 4]
        kw = rand_ctor(rng, M, ctor, cplx)
        if bsr and kw.get('strength') is None:
            kw['strength'] = 'symmetric'
        if isinstance(kw.get('aggregate'), tuple) and kw['aggregate'][0] == 'lloyd':
            kw['aggregate'] = 'standard'
        kw['max_levels'] = int(rng.choice([2, 3, 4]))
        kw['coarse_solver'] = ['pinv', 'lu', 'cholesky', 'splu'][(t // 2) % 4]     # (run_spec falls back to pinv on a singular coarse matrix)
        if sm[0].startswith('block_') and not bsr and t % 5 != 4:
            # genuine blocks on a CSR matrix: two levels (the block size has to divide every smoothed level), n a multiple of it
            bs = int(rng.choice([2, 3]))
            n = A.shape[0] - A.shape[0] % bs
            if n >= 2 * bs:
                Ac = _i32(sp.csr_array(sp.csr_array(A)[:n, :n]))
                Ac.sort_indices()
                M = dict(M, A=Ac, B=None if M['B'] is None else M['B'][:n])
                A = Ac
                En = Energy(A.toarray())
                kw['max_levels'] = 2
                sm = (sm[0], dict(sm[1], blocksize=bs))
        kw['presmoother'] = sm
        kw['postsmoother'] = sm if t % 3 else None
        if kw['postsmoother'] is None:
            kw['postsmoother'] = ('gauss_seidel', {'sweep': 'forward', 'iterations': 0})    # no post-smoothing: the pre-smoother alone
        spec = {'M': M, 'ctor': ctor, 'kw': kw, 'npseed': int(rng.integers(0, 2**31 - 1)), 'decoy': t % 2 == 0}
        ctx.feat('edge:' + sm[0])
        run_spec(ctx, spec, En, rng, cycles=[('V', 1)] if t % 2 else [('W', 1), ('F', 1)])


# ------------------------------------------------------------------------------------------------
# part R: the public relaxation drivers themselves, real and complex Hermitian, CSR and BSR storage (block size 1..3)
# ------------------------------------------------------------------------------------------------

def part_relax(ctx, N):
    """dense error propagator of one call of a relaxation driver on an HPD matrix; energy norm <= 1 + 1e-8"""
    from pyamg.relaxation import relaxation as RX
    rng = ctx.np_rng
    for t in range(N):
        if ctx.time_left() < 8 or _enough(ctx):
            break
        M = make_matrix(rng, ['blockcpl', 'blockcpl', 'elasticity2d_nu', 'gram', 'graph_shift'][t % 5], 30)
        if t % 3 != 2:
            M = rotate(rng, M)
        A = M['A']
        n, dt = A.shape[0], A.dtype
        En = Energy(A.toarray())
        if not En.hpd:
            continue
        bs = A.blocksize[0] if A.format == 'bsr' else int(rng.choice([1, 2, 3]))
        if n % bs:
            bs = 1
        fmt = 'bsr' if (A.format == 'bsr' or (bs > 1 and t % 2)) else 'csr'
        Ast = _i32(sp.bsr_array(sp.csr_array(A), blocksize=(bs, bs))) if fmt == 'bsr' else _i32(sp.csr_array(A))
        sweep = str(rng.choice(['forward', 'backward', 'symmetric']))
        its = int(rng.choice([1, 1, 2]))
        meth = ['gauss_seidel', 'sor', 'block_gauss_seidel', 'gauss_seidel', 'schwarz'][(t // 5) % 5]
        om = float(rng.choice([0.3, 1.0, 1.5, 1.9]))
        if meth == 'gauss_seidel':
            call = lambda x, b: RX.gauss_seidel(Ast, x, b, iterations=its, sweep=sweep)                      # noqa: E731
        elif meth == 'sor':
            call = lambda x, b: RX.sor(Ast, x, b, om, iterations=its, sweep=sweep)                           # noqa: E731
        elif meth == 'block_gauss_seidel':
            call = lambda x, b: RX.block_gauss_seidel(Ast, x, b, iterations=its, sweep=sweep, blocksize=bs)  # noqa: E731
        else:
            Ac = _i32(sp.csr_array(A))
            Ac.sort_indices()
            call = lambda x, b: RX.schwarz(Ac, x, b, iterations=its, sweep=sweep)                            # noqa: E731
        case = {'matrix': mat_to_case(dict(M, A=Ast)), 'method': meth, 'sweep': sweep, 'iterations': its, 'omega': om,
                'blocksize': bs, 'mode': 'relax'}
        ctx.case(key=_key('relax', Ast.data.tobytes(), fmt, bs, meth, sweep, its, om), nontrivial=n >= 2,
                 sample={'method': meth, 'format': fmt, 'blocksize': bs, 'complex': En.cplx, 'n': n, 'sweep': sweep} if t % 13 == 0 else None)
        ctx.feat(f'relax:{meth}:{fmt}{bs}:' + ('complex' if En.cplx else 'real'))
        xs = (rng.random(n) - 0.5).astype(dt)
        if En.cplx:
            xs = xs + 1j * (rng.random(n) - 0.5)
        b = A @ xs
        units = [(j, 1.0) for j in range(n)] + ([(j, 1j) for j in range(n)] if En.cplx else [])
        E = np.zeros((len(units), len(units)))
        try:
            for c, (j, u) in enumerate(units):
                x = xs.copy()
                x[j] -= u
                call(x, b.copy())
                E[:, c] = En.real(xs - x)
        except Exception as ex:    # noqa: BLE001
            ctx.violation(f'relaxation.{meth} ({fmt}, blocksize {bs}, {M["fam"]}, n={n}) raised {type(ex).__name__}: {ex}', case)
            continue
        nrm, top = energy_norm(En, E)
        ctx.rel_err(max(0.0, nrm - 1.0) if np.isfinite(nrm) else 0.0)
        if not nrm <= 1 + TOL:
            e = (top[:n] + 1j * top[n:] if En.cplx else top).astype(dt) if top is not None else None
            detail = {'operator_norm': nrm}
            if e is not None:
                e = e / max(abs(e).max(), 1e-300)
                x = xs - e
                call(x, b.copy())
                detail.update({'e': e, 'energy_before': En.en(e), 'energy_after': En.en(xs - x)})
                case = dict(case, e=e, xs=xs)
            ctx.violation(f'relaxation.{meth}(sweep={sweep}, iterations={its}' + (f', omega={om}' if meth == 'sor' else '') +
                          f') on a {"complex Hermitian" if En.cplx else "real symmetric"} positive definite {fmt.upper()} matrix '
                          f'(blocksize {bs}, {M["fam"]}, n={n}) increases the energy norm of some error: ||A^1/2 E A^-1/2||_2 = {nrm:.12g}'
                          + (f'; stored error e: energy {detail["energy_before"]:.6g} -> {detail["energy_after"]:.6g}' if e is not None else ''),
                          case, detail=detail)


# ------------------------------------------------------------------------------------------------
# part P (extension E22): `relaxation.polynomial` -- what setup_richardson / setup_chebyshev install -- against the Lean model
# `ExtSm.polynomial` (op ext_poly / ext_cpoly; proved to be the linear iteration x + p(A)(b - A x), energy non-expansive when
# 0 <= a(p(A)A v, v) <= 2 a(v, v), i.e. |1 - t p(t)| <= 1 on the spectrum), and the property itself on the real output
# ------------------------------------------------------------------------------------------------

def _poly_matrix(rng, n, cplx):
    """small Hermitian strictly diagonally dominant integer matrix (positive definite; float arithmetic on it is exact)"""
    G = rng.integers(-2, 3, (n, n)) * (rng.random((n, n)) < 0.5)
    if cplx:
        G = G + 1j * (rng.integers(-2, 3, (n, n)) * (rng.random((n, n)) < 0.4))
    U = np.triu(G, 1)
    A = U + U.conj().T
    d = np.abs(A.real).sum(1) + np.abs(A.imag).sum(1) + rng.integers(1, 3, n)
    A = A + np.diag(d)
    return _i32(sp.csr_array(A.astype(complex if cplx else float)))


def _poly_admissible(rng, g, deg):
    """dyadic coefficients (descending) of p with 1 - t p(t) = prod_j (1 - w_j t), 0 < w_j g <= 2: |1 - t p(t)| <= 1 on [0, g]"""
    from fractions import Fraction
    kmin = 0
    while Fraction(1, 2 ** kmin) * g > 2:
        kmin += 1
    q = [Fraction(1)]                                    # ascending coefficients of prod (1 - w t)
    for _ in range(deg + 1):
        w = Fraction(1, 2 ** (kmin + int(rng.integers(0, 3))))
        q = [a - w * c for a, c in zip(q + [Fraction(0)], [Fraction(0)] + q)]
    asc = [-c for c in q[1:]]                            # p(t) = (1 - q(t)) / t
    return [float(c) for c in reversed(asc)]


def _poly_judge(ctx, what, case, A, coef, x0, b, x1):
    """the property on the real output: A HPD and |1 - t p(t)| <= 1 on its spectrum => the energy of the error must not grow"""
    Ad = A.toarray()
    ev = np.linalg.eigvalsh(Ad)
    if not ev.min() > 0:
        return
    q = 1 - ev * np.polyval(np.real(np.asarray(coef, dtype=float)), ev) if len(coef) else np.ones_like(ev)
    if np.abs(q).max() > 1 + 1e-10:
        ctx.feat('poly:damping_bound_fails(correspondence only)')
        return
    ctx.feat('poly:damping_bound_holds')
    xs = np.linalg.solve(Ad, b)
    e0, e1 = xs - x0, xs - x1
    E0, E1 = float(np.real(e0.conj() @ Ad @ e0)), float(np.real(e1.conj() @ Ad @ e1))
    ctx.rel_err(max(0.0, E1 / E0 - 1.0) if E0 > 0 and np.isfinite(E1) else 0.0)
    if not E1 <= E0 * (1 + TOL) + 1e-300:
        ctx.violation(f'{what}: |1 - t p(t)| <= {np.abs(q).max():.6g} on the spectrum of the positive definite matrix, yet the energy of '
                      f'the error grows: {E0:.12g} -> {E1:.12g}', case, detail={'energy_before': E0, 'energy_after': E1})


def _poly_line(A, coef, its, b, x0, cplx):
    from common import enc_crats
    A = sp.csr_array(A)
    if cplx:
        return (f'ext_cpoly {A.shape[0]} {enc_ints(A.indptr)} {enc_ints(A.indices)} {enc_crats(A.data)} '
                f'{enc_crats(coef)} {its} {enc_crats(b)} {enc_crats(x0)}')
    return (f'ext_poly {A.shape[0]} {enc_ints(A.indptr)} {enc_ints(A.indices)} {enc_rats(np.real(A.data))} '
            f'{enc_rats(coef)} {its} {enc_rats(b)} {enc_rats(x0)}')


def _poly_decode(o, cplx):
    from common import dec_crat
    if cplx:
        return np.array([float(a) + 1j * float(c) for a, c in (dec_crat(t) for t in dec_list(o))])
    from fractions import Fraction
    return np.array([float(Fraction(t)) for t in dec_list(o)])


def _poly_installed(rng, t):
    """a real hierarchy with a Richardson / Chebyshev pre-smoother; returns (A0, closure, (name, kwargs), npseed) or None"""
    import pyamg
    M = make_matrix(rng, ['poisson1d', 'graph_shift', 'poisson2d', 'gram'][t % 4], 20)
    A = _i32(sp.csr_array(M['A']))
    if A.shape[0] < 3 or A.shape[0] > 24 or np.iscomplexobj(A.data):
        return None
    its = int(rng.choice([1, 1, 2, 3]))
    sm = ('richardson', {'omega': float(rng.choice([0.5, 1.0, 4.0 / 3.0])), 'iterations': its}) if t % 3 == 0 else \
         ('chebyshev', {'degree': int(rng.integers(1, 5)), 'iterations': its})
    npseed = int(rng.integers(0, 2 ** 31 - 1))
    np.random.seed(npseed)
    ml = pyamg.smoothed_aggregation_solver(A, max_coarse=2, presmoother=sm, postsmoother=sm)
    if len(ml.levels) < 2:
        return None
    return sp.csr_array(ml.levels[0].A), ml.levels[0].presmoother, sm, npseed, M


def part_poly(ctx, N):
    from pyamg.relaxation import relaxation as RX
    rng = ctx.np_rng
    items = []
    for t in range(N):
        if ctx.time_left() < 8:
            break
        mode = 'installed' if t % 4 == 3 else 'raw'
        if mode == 'raw':
            n = int(rng.integers(1, 7))
            cplx = t % 4 == 2
            A = _poly_matrix(rng, n, cplx)
            g = float(np.abs(A.toarray()).sum(1).max())
            deg = int(rng.integers(0, 4))
            its = int(rng.choice([1, 1, 2, 3])) if t % 11 else 0
            coef = _poly_admissible(rng, g, deg) if t % 2 == 0 else [float(v) / 16.0 for v in rng.integers(-8, 9, deg + 1)]
            xs = rng.integers(-8, 9, n) / 8.0 + (1j * rng.integers(-8, 9, n) / 8.0 if cplx else 0)
            x0 = np.zeros(n, dtype=A.dtype) if t % 5 == 1 else (rng.integers(-8, 9, n) / 8.0 + (1j * rng.integers(-8, 9, n) / 8.0 if cplx else 0)).astype(A.dtype)
            b = (A @ xs).astype(A.dtype)
            case = {'mode': 'poly', 'matrix': mat_to_case({'A': A, 'fam': 'poly_int_dd', 'params': {}, 'B': None}), 'coefficients': coef,
                    'iterations': its, 'x0': x0, 'b': b}
            x1 = x0.copy()
            try:
                RX.polynomial(A, x1, b.copy(), coefficients=list(coef), iterations=its)
            except Exception as ex:    # noqa: BLE001
                ctx.violation(f'relaxation.polynomial(coefficients={coef}, iterations={its}) raised {type(ex).__name__}: {ex}', case)
                continue
            what = f'relaxation.polynomial(coefficients={coef}, iterations={its}) on a {"complex Hermitian" if cplx else "real symmetric"} ' \
                   f'strictly diagonally dominant matrix (n={n})'
        else:
            try:
                got = _poly_installed(rng, t)
            except Exception:    # noqa: BLE001  (constructor problems are the business of the other parts)
                got = None
            if got is None:
                continue
            A, fn, sm, npseed, M = got
            name, kw = smoother_params(fn)
            cplx = False
            coef = [float(v) for v in (np.real(np.atleast_1d(kw['coefficients'])) if name == 'chebyshev' else [np.real(kw['omega'])])]
            its = int(kw.get('iterations', 1))
            n = A.shape[0]
            xs = rng.integers(-8, 9, n) / 8.0
            x0 = np.zeros(n) if t % 8 == 3 else rng.integers(-8, 9, n) / 8.0
            b = A @ xs
            case = {'mode': 'poly', 'matrix': mat_to_case(dict(M, A=_i32(sp.csr_array(A)))), 'smoother': [sm[0], sm[1]], 'npseed': npseed,
                    'coefficients': coef, 'iterations': its, 'x0': x0, 'b': b}
            x1 = x0.copy()
            try:
                fn(A, x1, b.copy())
            except Exception as ex:    # noqa: BLE001
                ctx.violation(f'the installed {sm[0]} smoother {sm[1]} raised {type(ex).__name__}: {ex}', case)
                continue
            if int(sm[1].get('iterations', 1)) != its or (name == 'chebyshev' and len(coef) != sm[1]['degree']):
                ctx.corr(f'installed {sm[0]} smoother: captured iterations / degree differ from the request', case,
                         f'iterations={sm[1].get("iterations", 1)}, degree={sm[1].get("degree")}', f'iterations={its}, {len(coef)} coefficients')
            what = f'the installed {sm[0]} smoother {sm[1]} (coefficients actually used {coef}) on {M["fam"]} (n={n})'
        items.append({'line': _poly_line(A, coef, its, b, x0, cplx), 'case': case, 'x1': x1, 'A': A, 'coef': coef, 'x0': x0, 'b': b,
                      'cplx': cplx, 'what': what, 'mode': mode, 'its': its})
    if not items:
        return
    outs = _lean(ctx, [it['line'] for it in items])
    for it, o in zip(items, outs):
        ctx.case(key=_key('poly', it['line']), nontrivial=it['its'] >= 1 and it['A'].shape[0] >= 2,
                 sample={'request': it['line'][:160], 'model': o[:80], 'impl': np.real(it['x1'][:4]).tolist()} if ctx.evaluations % 17 == 0 else None)
        ctx.feat(f'poly:{it["mode"]}:degree{len(it["coef"]) - 1}:' + ('complex' if it['cplx'] else 'real'))
        ok = True
        if o == 'error':
            ctx.corr('ext_poly: the model rejects the request, the real function returned', it['case'], o, np.real(it['x1']).tolist())
            ok = False
        else:
            xm = _poly_decode(o, it['cplx'])
            err = float(np.abs(xm - it['x1']).max() / max(1.0, np.abs(xm).max())) if xm.shape == it['x1'].shape else np.inf
            ctx.rel_err(err if np.isfinite(err) else 0.0)
            if not err <= 1e-9:
                ctx.corr(f'{it["what"]}: result differs from the exact model x + p(A)(b - A x), iterated (rel. {err:.3g})', it['case'],
                         [complex(v) if it['cplx'] else float(np.real(v)) for v in xm], it['x1'].tolist())
                ok = False
        if ok:
            ctx.feat('poly:model_agrees')
        # the property itself (always: it is cheap), decisive when the correspondence broke
        _poly_judge(ctx, it['what'], it['case'], it['A'], it['coef'], it['x0'], it['b'], it['x1'])


# ------------------------------------------------------------------------------------------------
# part H: smoother-change histories on the SAME hierarchy object (change_smoothers called 1-3 times before the judged cycle)
# ------------------------------------------------------------------------------------------------

def _aniso(rng, eps, theta, typ, nx, ny):
    from pyamg.gallery import stencil_grid
    from pyamg.gallery.diffusion import diffusion_stencil_2d
    A = _i32(sp.csr_array(stencil_grid(diffusion_stencil_2d(epsilon=eps, theta=theta, type=typ), (nx, ny), format='csr')))
    A.sort_indices()
    return {'A': A, 'B': None, 'fam': 'aniso', 'params': {'grid': [nx, ny], 'epsilon': eps, 'theta': theta, 'type': typ}}


def _lvl0(sm, below):
    """a block smoother with an explicit block size on level 0 only (the block size has to divide the level size)"""
    return [sm, below]


def core_histories(bs):
    J = ('jacobi', {'omega': 4.0 / 3.0})
    BJ = ('block_jacobi', {'omega': 4.0 / 3.0, 'blocksize': bs})
    BJ2 = ('block_jacobi', {'omega': 4.0 / 3.0, 'blocksize': 2 if bs != 2 else 3})
    BG = ('block_gauss_seidel', {'sweep': 'symmetric', 'blocksize': bs})
    R = ('richardson', {'omega': 4.0 / 3.0})
    C = ('chebyshev', {'degree': 3})
    S = ('schwarz', {'sweep': 'symmetric'})
    G = ('gauss_seidel', {'sweep': 'forward'})
    # (smoothers at construction, [change_smoothers calls ...]); the last entry is judged
    return [
        ((_lvl0(BJ, J), _lvl0(BJ, J)), [(J, J)]),
        ((J, J), [(_lvl0(BJ, J), _lvl0(BJ, J))]),
        ((_lvl0(BJ, J), J), []),
        ((_lvl0(BG, G), _lvl0(BG, G)), [(J, J)]),
        ((R, R), [(J, J)]),
        ((C, C), [(J, J), (R, R)]),
        ((J, J), [(R, R), (C, C)]),
        ((S, S), [(G, G)]),
        ((G, G), [(S, S), (_lvl0(BJ, J), _lvl0(BJ, J)), (J, J)]),
        ((_lvl0(BJ, J), _lvl0(BJ, J)), [(_lvl0(BJ2, J), _lvl0(BJ2, J))]),
    ]


def part_history(ctx, N):
    rng = ctx.np_rng
    jobs = []
    # fixed core (every seed): strongly anisotropic problems whose line blocks capture the strong couplings
    k = 0
    for eps, theta, typ, nx, ny in [(0.001, np.pi / 2, 'FE', 6, 6), (0.01, 0.0, 'FD', 5, 8), (0.001, 0.0, 'FE', 6, 6)]:
        M = _aniso(rng, eps, theta, typ, nx, ny)
        for bs in (ny, 2, 3):
            if (nx * ny) % bs:
                continue
            for first, hist in core_histories(bs):
                k += 1
                if (bs == ny) or k % 3 == 0:       # every history with line blocks, a third of them with blocks of 2 / 3
                    jobs.append((M, first, hist, CTORS[k % 4]))
    # random draws: 1-3 changes between random smoother families on the property's families
    for t in range(N):
        fam = ['aniso', 'poisson2d', 'gram', 'graph_shift', 'aniso', 'elasticity2d_nu'][t % 6]
        M = make_matrix(rng, fam, 64)
        if M['A'].format == 'bsr':
            M = dict(M, A=_i32(sp.csr_array(M['A'])))
        n = M['A'].shape[0]
        bs = int(rng.choice([b for b in (2, 3, 4, 5, 6) if n % b == 0] or [1]))

        def draw():
            sm = rand_smoother(rng, False, None)
            if sm[0].startswith('block_') and bs > 1:
                below = ('jacobi', {'omega': sm[1].get('omega', 1.0)}) if sm[0] == 'block_jacobi' else ('gauss_seidel', {'sweep': sm[1].get('sweep', 'forward')})
                return _lvl0((sm[0], dict(sm[1], blocksize=bs)), below)
            return sm
        first = (draw(), draw())
        hist = [(draw(), draw()) for _ in range(int(rng.integers(1, 4)))]
        if t % 2 == 0:      # end on a spectral-radius-damped point smoother at the edge of its damping
            last = [('jacobi', {'omega': 4.0 / 3.0}), ('richardson', {'omega': 4.0 / 3.0}), ('chebyshev', {'degree': 2})][(t // 2) % 3]
            hist[-1] = (last, last)
        jobs.append((M, first, hist, CTORS[t % 4]))
    for j, (M, first, hist, ctor) in enumerate(jobs):
        if ctx.time_left() < 8 or _enough(ctx):
            break
        En = Energy(M['A'].toarray())
        if not En.hpd:
            continue
        kw = rand_ctor(rng, M, ctor, False)
        if isinstance(kw.get('aggregate'), tuple) and kw['aggregate'][0] == 'lloyd':
            kw['aggregate'] = 'standard'
        kw['coarse_solver'] = 'pinv'
        kw['presmoother'], kw['postsmoother'] = first
        spec = {'M': M, 'ctor': ctor, 'kw': kw, 'npseed': int(rng.integers(0, 2**31 - 1)), 'history': [list(h) for h in hist]}
        ctx.feat(f'history:{len(hist)}_changes')
        run_spec(ctx, spec, En, rng, cycles=[('V', 1)] if j % 2 else [('W', 1), ('F', 1)])


# ------------------------------------------------------------------------------------------------

def run(ctx):
    import pyamg  # noqa: F401
    part_model(ctx, ctx.scale(24, 240))
    part_relax(ctx, ctx.scale(50, 1000))
    part_history(ctx, ctx.scale(18, 500))
    part_edge(ctx, ctx.scale(63, 900))
    part_search(ctx, ctx.scale(50, 1300), 150 if not ctx.quick else 110)
    part_poly(ctx, ctx.scale(40, 600))     # the random stream of the older parts is unchanged
    part_cmodel(ctx, ctx.scale(15, 150))   # extension E35
    part_bmodel(ctx, ctx.scale(18, 180))


def search(ctx):
    """something broke: look harder where it broke (the smoother families named by the failed hypotheses / all of them)"""
    ctx.budget_s = max(ctx.budget_s, (ctx.budget_s - ctx.time_left()) + 240)
    txt = ' '.join(str(c.get('op', '')) + ' ' + str(c.get('impl_output', '')) for c in ctx.corr_fail)
    only = {nm for nm in ('jacobi', 'block_jacobi', 'richardson', 'chebyshev', 'schwarz', 'block_gauss_seidel') if nm in txt}
    if 'jacobi' in only:
        only.add('block_jacobi')
    part_edge(ctx, 160, only=only or None)
    if not [v for v in ctx.violations if not v['fkey']]:
        part_search(ctx, 120, 150)


def replay(ctx, data):
    case = data.get('case') or (data.get('correspondence_failures') or [{}])[0].get('case')
    if not case or 'matrix' not in case:
        print('this replay file carries no hierarchy (see its theorem_or_obligation / correspondence_failures fields)')
        return
    if case.get('mode') == 'poly':
        from pyamg.relaxation import relaxation as RX
        A = sp.csr_array(mat_from_case(case['matrix'])['A'])
        x0 = np.array(_num(case['x0']), dtype=A.dtype)
        b = np.array(_num(case['b']), dtype=A.dtype)
        coef, its = [float(c) for c in case['coefficients']], int(case['iterations'])
        x1 = x0.copy()
        if case.get('smoother'):
            import pyamg
            np.random.seed(case['npseed'])
            sm = _tup(case['smoother'])
            ml = pyamg.smoothed_aggregation_solver(A, max_coarse=2, presmoother=sm, postsmoother=sm)
            fn = ml.levels[0].presmoother
            name, kw = smoother_params(fn)
            coef = [float(v) for v in (np.real(np.atleast_1d(kw['coefficients'])) if name == 'chebyshev' else [np.real(kw['omega'])])]
            fn(A, x1, b.copy())
            what = f'installed {sm[0]} smoother {sm[1]}'
        else:
            RX.polynomial(A, x1, b.copy(), coefficients=list(coef), iterations=its)
            what = f'relaxation.polynomial(coefficients={coef}, iterations={its})'
        Ad = A.toarray()
        xd = x0.copy()
        for _ in range(int(case.get('smoother') and _tup(case['smoother'])[1].get('iterations', 1) or its)):
            r = b - Ad @ xd
            h = np.zeros_like(xd)
            for c in coef:
                h = c * r + Ad @ h
            xd = xd + h
        err = float(np.abs(xd - x1).max() / max(1.0, np.abs(xd).max()))
        print(f'{what}: real output vs dense x + p(A)(b - A x) iterated: rel. difference {err:.3g}')
        if err > 1e-9:
            ctx.corr(f'{what}: result differs from the dense formula x + p(A)(b - A x), iterated', case, xd.tolist(), x1.tolist())
        _poly_judge(ctx, what, case, A, coef, x0, b, x1)
        for v in ctx.violations:
            print('  ', v['what'])
        if not ctx.violations:
            print('   no violation on this input now')
        return
    if case.get('mode') == 'relax':
        from pyamg.relaxation import relaxation as RX
        A = mat_from_case(case['matrix'])['A']
        En = Energy(A.toarray())
        e = np.array(_num(case['e']), dtype=A.dtype)
        xs = np.array(_num(case['xs']), dtype=A.dtype)
        x = xs - e
        kw = {'iterations': case['iterations'], 'sweep': case['sweep']}
        if case['method'] == 'sor':
            RX.sor(A, x, A @ xs, case['omega'], **kw)
        elif case['method'] == 'block_gauss_seidel':
            RX.block_gauss_seidel(A, x, A @ xs, blocksize=case['blocksize'], **kw)
        elif case['method'] == 'schwarz':
            RX.schwarz(sp.csr_array(A), x, A @ xs, **kw)
        else:
            RX.gauss_seidel(A, x, A @ xs, **kw)
        print(f'relaxation.{case["method"]} {A.format} blocksize {case["blocksize"]}: energy of the stored error {En.en(e):.12g} -> {En.en(xs - x):.12g}')
        if En.en(xs - x) > En.en(e) * (1 + 2 * TOL):
            ctx.violation(f'relaxation.{case["method"]} increases the energy of the stored error: {En.en(e):.12g} -> {En.en(xs - x):.12g}', case)
        return
    M = mat_from_case(case['matrix'])
    spec = {'M': M, 'ctor': case['ctor'], 'kw': case['kw'], 'npseed': case['npseed'], 'decoy': case.get('decoy', False),
            'history': case.get('history')}
    print('replaying', case['ctor'], {k: v for k, v in case['kw'].items()}, 'on', M['fam'], M['A'].shape, 'cycle', case.get('cycle'),
          'mode', case.get('mode'), 'history', case.get('history'))
    En = Energy(M['A'].toarray())
    cycles = [(case['cycle'], case.get('cycles_per_level', 1))] if case.get('cycle') else None
    ml = run_spec(ctx, spec, En, ctx.np_rng, cycles=cycles)
    if ml is not None:
        print(ml)
        if case.get('mode') == 'solve' and not ctx.violations:
            solve_monotone(ctx, spec, ml, En, (cycles or [('V', 1)])[0][0], ctx.np_rng)
    for c in ctx.corr_fail:
        print('   hypothesis / correspondence:', c['op'], '|', str(c['impl_output'])[:300])
    for v in ctx.violations:
        print('  ', v['what'], '[known: %s]' % v['fkey'] if v['fkey'] else '')
    if not ctx.violations:
        print('   no violation on this input now')
