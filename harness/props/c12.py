"""C12 -- aggregation routines return valid partitions of the strength graph.

correspondence : standard_aggregation / naive_aggregation kernels (rebuilt from the working tree) vs
                 both Lean definitions (array model Model/KGraph.lean and the proof-side model the
                 theorems are stated about), exact; pairwise_aggregation kernel vs the executable
                 model `ExtPw.pairwise` (op `ext_pairwise`, the definition the refinement theorem is
                 about) on weighted patterns (ties, isolated nodes, nonsymmetric / unsorted /
                 duplicate entries, explicit zeros) and on every kernel call the public wrapper
                 makes (recorded), exact on x, y[:k], k.
                 Lloyd (part d): `lloyd_cluster` with explicit centres, `lloyd_aggregation` through the public
                 wrapper with the replayed `numpy.random.permutation`, and the raw `most_interior_nodes` kernel vs
                 `ExtLloyd.lloydCluster` / `lloydAggregation` / `mostInterior` (ops `ext_c12_lloyd`, `ext_c12_lloyd_agg`,
                 `ext_c12_most_interior`), exact on clusters, centres, AggOp CSR arrays, ValueError rejections;
                 symmetric and nonsymmetric patterns, ties, zero-length edges, duplicate entries / centres.
                 balanced Lloyd (part e): `balanced_lloyd_cluster` with explicit centres (maxiter 0..4, rebalance_iters
                 0..3, tiebreaking on/off), `balanced_lloyd_aggregation` through the public wrapper (replayed permutation,
                 all five measures) and the raw `center_nodes` kernel vs `BalLloyd.cluster` / `aggregation` / `centerNodes`
                 (ops `ext_c12_ballloyd`, `ext_c12_ballloyd_agg`, `ext_c12_center_nodes`), exact on clusters, centres,
                 AggOp CSR arrays, d / p / pc, the kind of ValueError; the `np.argsort` results inside `_rebalance`
                 are recorded and replayed (the model checks that they are sorted permutations).
                 E56 (part z): the wrapper `pairwise_aggregation` (matchings 1..3, theta, norm) vs the composed model `C12ZW.wrapper`
                 (op `ext_c12z_pw`: raw arrays of T, Cpts, aggregates per level, composed assignment map), exact on integer matrices;
                 `lloyd_aggregation` on complex strength matrices / stored zeros under measure='inv' vs `C12ZM.lloydAggregationQ`
                 (ops `ext_c12z_lloyd_agg`, `ext_c12z_measure`), exact on Gaussian rationals with rational modulus; every
                 `bellman_ford_balanced` call of the real `balanced_lloyd_cluster` vs the conclusion `Final` of the every-pass theorems
                 (independent Dijkstra oracle; hypotheses evaluated by `ext_c12z_sym`, `ext_c12z_grid`).
search         : public routines of pyamg/aggregation/aggregate.py (standard, naive, pairwise with
                 1..3 matchings, Lloyd, balanced Lloyd) judged by the partition specification; the
                 pairwise wrapper's T and Cpts must be the composition of its recorded matchings.
                 values (part v): the same public routines (and lloyd_cluster / balanced_lloyd_cluster) x every measure /
                 option on COMPLEX strength matrices (purely imaginary, purely real of both signs, mixed) and real ones
                 with negative entries, CSR and CSC, judged on the pattern (BFS); a call that does not return counts as
                 a violation (deadline); real-valued Lloyd cases are also compared with `ext_c12_lloyd_agg`.
"""
import hashlib
import os

import numpy as np
import scipy.sparse as sp
from scipy.sparse import csgraph

import gen
from common import enc_ints, enc_rats, enc_rat

META = {
    'rule': 'graphs: every labelled graph on <= 4 (quick) / <= 6 (thorough) vertices with and without self loops, plus seeded '
            'structured random graphs up to n = 60 (paths, stars, cycles, cliques, isolated pairs, grids, two components); '
            'non-trivial = the graph has an edge; distinct = distinct (routine, graph, parameters); Lloyd part: the same graph '
            'streams with small dyadic weights, 1..4 centres, maxiter 0..5, all five measures; balanced Lloyd part: the same '
            'streams with positive dyadic weights (symmetric / nonsymmetric weights, nonsymmetric patterns), 1..5 centres, '
            'maxiter 0..4, rebalance_iters 0..3, tiebreaking on/off',
    'search_only': ['balanced Lloyd: np.random.permutation and the np.argsort results inside _rebalance are replayed, not '
                    'modelled; termination of bellman_ford_balanced within n*n sweeps is not proved (the model reports the '
                    'RuntimeError); maxiter = 0 together with a rebalance round is not called (it read uninitialised work '
                    'arrays before the repair 4c0adfe, which skips the rebalancing; the generator still leaves it out) and complex '
                    'strength values are outside the model',
                    'Lloyd: np.random.permutation itself is replayed, not modelled; complex strength values and measure=inv '
                    'with a stored zero (1/0 = inf) are modelled since E56 (C12ZM.applyMeasureC / lloydAggregationQ, compared '
                    'exactly in part z on Gaussian rationals with rational modulus); irrational moduli are refused by the model '
                    '(`unmodelled`: specification checker only); for runs WITH an inf edge only the model correspondence and the '
                    'specification checker (reachability along finite edges) decide, the partition theorems cover the inf-free case',
                    'pairwise wrapper: modelled since E56 (C12ZW.wrapper = strength C14.pubClassicalNorm + kernel model + SciPy '
                    'products Spmm.mul / transpose / galerkin; CSR input, compute_P=False, norm min / abs) and compared exactly with '
                    'the real wrapper on integer matrices (part z); BSR input, compute_P=True and non-integer data are judged by the '
                    'specification checker and the recorded kernel calls only (parts b, v)',
                    'values part: complex strength matrices (six value classes x symmetric / conjugate / nonsymmetric values on a '
                    'symmetric pattern) and real matrices with negative entries through standard, naive, pairwise (norm=abs for '
                    'complex), Lloyd, lloyd_cluster, balanced Lloyd x all five measures, CSR / CSC: specification checkers only '
                    '(reachability by BFS on the pattern; a ValueError is accepted only when the documented edge length is negative / '
                    'non-positive / the graph is disconnected); complex C with lloyd_aggregation(measure=None or min) and with '
                    'balanced_lloyd_aggregation (any measure) is generated since the repair 30b9508 (strided real part read as '
                    'contiguous memory; balanced Lloyd ignoring the measure)'],
    'partial': ['E59 (py_lloyd_* / py_balanced_pad_* / py_simple_*): theorems about the definitions GENERATED from the Python wrappers lloyd_aggregation, balanced_lloyd_aggregation, standard_aggregation, naive_aggregation (numerical work abstracted as events) hold on FINITE grids (lGrid: 2 wrappers x 6 measures x real/complex x nnz 0/3 x 4 (format, n, ratio) triples; sGrid: 72 scenarios), kernel evaluated; outside the grids the exact trace comparison with the real functions on mock objects (part y) decides; pairwise_aggregation is not a translator target (it is modelled as a whole by C12ZW.wrapper, E56)'],
    'trusted_extra': ['harness/py2lean3_aggstr.py on top of harness/py2lean2.py (Python-AST -> Lean translator, second mode, driver `aggstr`: comparisons / subscripts / abs / += of opaque arrays as events), lean/PyamgV/Model/ExtPy3AggstrRt.lean (+ ExtPy2Rt.lean, ExtPyRt.lean: CPython semantics on the PyVal universe and the event semantics of opaque objects) and harness/extpy3_aggstr.py (+ extpy2.py: mock objects implementing the same event semantics in Python): exercised on every run by the exact comparison (result, exception class, whole trace) of the generated definitions with the REAL functions executed against the mocks (op e59_py3_call)'],
    'assumptions': ['Lloyd theorems (lloyd_cluster_spec, lloyd_aggregation_spec): symmetric sparsity pattern, column indices in '
                    'range, weights non-negative after the measure, distinct initial centres, maxiter >= 1; Lloyd exact comparison: '
                    'small dyadic weights (path sums exact in binary64), dyadic ratio, powers of two for measure=inv',
                    'balanced Lloyd theorems (balanced_lloyd_cluster_spec, balanced_lloyd_aggregation_spec): distinct initial '
                    'centres, maxiter >= 1, every weight >= tol = 1e-14 > 0 (any pattern); they speak about runs that return '
                    '(ValueError / RuntimeError exits and the refusals `unmodelled...` of the model are not results); '
                    'balanced_lloyd_first_pass: weights on a grid h*N with 2*tol < h; exact comparison: positive dyadic '
                    'weights (sums of squared path lengths exact in binary64), rows without duplicate entries',
                    'every-pass theorems (bal_center_nodes_inv, balanced_lloyd_pass_final / every_pass / outer_final / cluster_final): '
                    'symmetric sparsity pattern (SymE; weights may be nonsymmetric), weights positive multiples of a grid h with '
                    '0 < tol, 2*tol < h and >= tol, distinct initial centres, maxiter >= 1 for the statements about returned clusters; '
                    'the check evaluates the Boolean forms symEB / gridB (proved to imply the hypotheses) on every generated input '
                    '(h = 1/4, tol = 1e-14) and judges every recorded kernel call of the real routine by an independent Dijkstra oracle of Final',
                    'pairwise wrapper theorems (pairwise_wrapper_spec / _fiber): n >= 1, square well-formed CSR matrix, matchings >= 1; '
                    'exact comparison: integer matrices (|a| <= 8 on level 0), theta in {0, 1/4, 1/2}',
                    'complex Lloyd theorems (lloyd_complex_aggregation_spec): symmetric pattern, no stored zero under measure=inv, '
                    'maxiter >= 1, sound square root; exact comparison: Gaussian rationals with rational modulus (Pythagorean multiples, '
                    'powers of two for inv)'],
}


def _key(*a):
    return hashlib.sha1(repr(a).encode()).hexdigest()


def _csr(M, dtype=float):
    return gen.int32csr(sp.csr_array(np.array(M, dtype=dtype)))


def graph_stream(ctx, nmax_exh, n_rand, nmax_rand):
    for n in range(1, nmax_exh + 1):
        for loops in (False, True):
            for M in gen.all_graphs(n, self_loops=loops):
                yield M, f'all{n}' + ('L' if loops else '')
    rng = ctx.np_rng
    for t in range(n_rand):
        n = int(rng.integers(1, nmax_rand + 1))
        M, kind = gen.rand_graph(rng, n)
        if t % 3 == 0:
            M = M + np.eye(n, dtype=int)
        yield M, kind


def part_a(ctx, graphs):
    from pyamg import amg_core
    items = []
    for M, kind in graphs:
        M = np.array(M)
        n = M.shape[0]
        G = _csr((M != 0).astype(float))
        ap, aj = G.indptr, G.indices
        hdr = f'{n} {enc_ints(ap)} {enc_ints(aj)}'
        has_edge = bool((M - np.diag(np.diag(M))).any())
        x = np.full(n, -77, dtype=np.int32)
        y = np.full(n, -7, dtype=np.int32)
        k = amg_core.standard_aggregation(n, ap, aj, x, y)
        out = enc_ints(x) + ';' + enc_ints(y[:k]) + ';' + str(k)
        items.append(('std_agg ' + hdr, out, 'standard', kind, has_edge))
        items.append(('p_std_agg ' + hdr, out, 'p_standard', kind, has_edge))
        x = np.full(n, -77, dtype=np.int32)
        y = np.full(n, -7, dtype=np.int32)
        k = amg_core.naive_aggregation(n, ap, aj, x, y)
        out = enc_ints(x) + ';' + enc_ints(y[:k]) + ';' + str(k)
        items.append(('naive_agg ' + hdr, out, 'naive', kind, has_edge))
        items.append(('p_naive_agg ' + hdr, out, 'p_naive', kind, has_edge))
    outs = ctx.lean([it[0] for it in items])
    for (line, out, what, kind, has_edge), o in zip(items, outs):
        ctx.case(key=_key(line), nontrivial=has_edge, sample={'request': line[:200], 'model': o[:100], 'impl': out[:100]})
        ctx.feat('kernel:' + what)
        ctx.feat('graph:' + kind)
        if o != out:
            ctx.corr('kernel ' + what, {'line': line}, o, out)


def pairwise_spec_error(n, x, y, k):
    """independent statement of the matching-type aggregation spec on a raw kernel output"""
    x = [int(v) for v in x]
    y = [int(v) for v in y]
    if k < 0 or k > n or len(y) < k:
        return f'k = {k} aggregates for {n} nodes'
    if any(not (1 <= v <= k) for v in x):
        return f'node {next(i for i, v in enumerate(x) if not (1 <= v <= k))} has id outside 1..{k}'
    for a in range(1, k + 1):
        mem = [i for i, v in enumerate(x) if v == a]
        if not (1 <= len(mem) <= 2):
            return f'aggregate {a} has {len(mem)} nodes'
        if not (0 <= y[a - 1] < n) or x[y[a - 1]] != a:
            return f'root {y[a - 1]} is not in aggregate {a}'
    return None


def weighted_patterns(rng, M, t):
    """CSR triples (ap, aj, ax) on the graph M: symmetric / nonsymmetric weights and patterns, ties,
    explicit zeros and negative weights, unsorted rows with duplicate entries"""
    M = np.array(M)
    n = M.shape[0]
    pat = M != 0
    mode = t % 6
    if mode == 0:       # unit weights: every comparison is a tie
        W = np.ones((n, n))
    elif mode == 1:     # symmetric small weights (many ties)
        W = rng.choice([0.5, 1.0, 1.0, 2.0, 3.0], size=(n, n))
        W = np.triu(W) + np.triu(W, 1).T
    elif mode == 2:     # nonsymmetric weights incl. zero and negative values
        W = rng.choice([-2.0, -1.0, -0.5, 0.0, 0.25, 1.0, 1.0, 3.0], size=(n, n))
    elif mode == 3:     # nonsymmetric pattern: drop entries
        W = rng.choice([1.0, 2.0], size=(n, n))
        pat = pat & (rng.random((n, n)) < 0.7)
    elif mode == 4:     # generic floats (exact dyadic rationals on the Lean side)
        W = rng.standard_normal((n, n))
    else:               # rows of isolated nodes emptied (their columns stay: nonsymmetric)
        W = rng.choice([1.0, 1.0, 4.0], size=(n, n))
        pat = pat & ~(rng.random(n) < 0.3)[:, None]
    ap, aj, ax = [0], [], []
    for i in range(n):
        cols = [int(c) for c in np.nonzero(pat[i])[0]]
        if t % 5 == 3 and n:
            cols += [int(c) for c in rng.integers(0, n, size=int(rng.integers(0, 3)))]
            rng.shuffle(cols)
        for c in cols:
            aj.append(c)
            ax.append(float(W[i, c]))
        ap.append(len(aj))
    return (np.array(ap, dtype=np.int32), np.array(aj, dtype=np.int32), np.array(ax, dtype=np.float64),
            ('unit', 'symw', 'nonsymw', 'nonsympat', 'float', 'emptyrows')[mode] + ('+dup' if t % 5 == 3 else ''))


def compare_pairwise_calls(ctx, calls):
    """calls: (n, ap, aj, ax, x, y, k, origin) of the REAL kernel; compare with the Lean kernel model"""
    lines = [f'ext_pairwise {n} {enc_ints(ap)} {enc_ints(aj)} {enc_rats(ax)}' for (n, ap, aj, ax, x, y, k, o) in calls]
    outs = ctx.lean(lines) if lines else []
    for (n, ap, aj, ax, x, y, k, origin), line, o in zip(calls, lines, outs):
        impl = enc_ints(x) + ';' + enc_ints(y[:max(k, 0)]) + ';' + str(k)
        offd = bool((np.repeat(np.arange(n), np.diff(ap)) != aj).any()) if n else False
        ctx.case(key=_key(line), nontrivial=offd, sample={'request': line[:200], 'model': o[:100], 'impl': impl[:100]})
        ctx.feat('kernel:pairwise:' + origin)
        if o != impl:
            case = {'n': n, 'ap': [int(v) for v in ap], 'aj': [int(v) for v in aj], 'ax': [float(v) for v in ax],
                    'routine': 'pairwise_kernel'}
            ctx.corr('kernel pairwise (' + origin + ')', case, o, impl)
            e = pairwise_spec_error(n, x, y, k)
            if e:
                ctx.violation(f'pairwise_aggregation kernel: {e}', case)


def part_c(ctx, graphs):
    """raw pairwise kernel vs `ext_pairwise`"""
    from pyamg import amg_core
    rng = ctx.np_rng
    calls = []
    for t, (M, kind) in enumerate(graphs):
        n = np.array(M).shape[0]
        for r in range(2):
            ap, aj, ax, wk = weighted_patterns(rng, M, 2 * t + r)
            x = np.full(n, -77, dtype=np.int32)
            y = np.full(n, -7, dtype=np.int32)
            k = amg_core.pairwise_aggregation(n, ap, aj, ax, x, y)
            ctx.feat('weights:' + wk)
            calls.append((n, ap, aj, ax, x, y, int(k), 'raw'))
    compare_pairwise_calls(ctx, calls)


class _PairwiseSpy:
    """records every kernel call made by pyamg.aggregation.aggregate.pairwise_aggregation"""

    def __init__(self, AG):
        self.AG, self.calls = AG, []

    def __enter__(self):
        self.orig = self.AG.amg_core.pairwise_aggregation
        spy = self

        def rec(n, ap, aj, ax, x, y):
            k = spy.orig(n, ap, aj, ax, x, y)
            spy.calls.append((int(n), np.array(ap), np.array(aj), np.array(ax, dtype=np.float64),
                              np.array(x), np.array(y), int(k), 'wrapper'))
            return k
        self.AG.amg_core.pairwise_aggregation = rec
        return self

    def __exit__(self, *a):
        self.AG.amg_core.pairwise_aggregation = self.orig
        return False


def composition_error(calls, T, roots, n):
    """T and Cpts of the wrapper = composition of the recorded assignment maps x-1 / roots"""
    if not calls:
        return 'the wrapper made no kernel call'
    F = np.arange(n)
    R = None
    for (m, ap, aj, ax, x, y, k, _o) in calls:
        if k == 0:
            return None     # degenerate n = 0 level: nothing to compose
        if F.size and F.max() >= m:
            return f'matching on {m} nodes follows a level with {int(F.max()) + 1} aggregates'
        F = (x.astype(int) - 1)[F]
        R = y[:k].astype(int) if R is None else R[y[:k].astype(int)]
    D = sp.csr_array(T).toarray()
    E = np.zeros((n, calls[-1][6]), dtype=int)
    E[np.arange(n), F] = 1
    if D.shape != E.shape or (D != E).any():
        return 'T is not the composition of the matchings computed by the kernel'
    if [int(r) for r in roots] != [int(r) for r in R]:
        return 'Cpts is not the composition of the roots computed by the kernel'
    return None


def check_aggop(AggOp, roots, n, name):
    """common contract: 0/1 matrix, <= 1 aggregate per node, no empty aggregate, distinct roots inside"""
    if sp.issparse(AggOp) and AggOp.format in ('csr', 'bsr', 'csc'):
        idx, ptr = np.asarray(AggOp.indices), np.asarray(AggOp.indptr)
        minor = AggOp.shape[1] if AggOp.format != 'csc' else AggOp.shape[0]
        if AggOp.format == 'bsr':
            minor //= AggOp.blocksize[1]
        if len(ptr) == 0 or ptr[0] != 0 or (np.diff(ptr) < 0).any() or ptr[-1] > len(idx) or \
                (len(idx) and (idx[:ptr[-1]].min() < 0 or idx[:ptr[-1]].max() >= minor)):
            bad = [int(v) for v in idx[:ptr[-1]] if v < 0 or v >= minor][:3]
            return f'AggOp has invalid index arrays (aggregate ids {bad} outside 0..{minor - 1})'
    A = sp.csr_array(AggOp)
    if A.shape[0] != n:
        return f'AggOp has {A.shape[0]} rows for {n} nodes'
    D = A.toarray()
    if not np.isin(D, (0, 1)).all():
        return 'AggOp has entries other than 0/1'
    if (D.sum(1) > 1).any():
        return f'node {int(np.argmax(D.sum(1) > 1))} belongs to several aggregates'
    if (D.sum(0) == 0).any():
        return f'aggregate {int(np.argmax(D.sum(0) == 0))} is empty'
    if roots is not None:
        roots = [int(r) for r in roots]
        if len(roots) != D.shape[1]:
            return f'{len(roots)} roots for {D.shape[1]} aggregates'
        if len(set(roots)) != len(roots):
            return 'root nodes are not distinct'
        for k, r in enumerate(roots):
            if not (0 <= r < n) or D[r, k] != 1:
                return f'root {r} is not in the aggregate {k} it names'
    return None


def part_b(ctx, graphs):
    from pyamg.aggregation import aggregate as AG
    rng = ctx.np_rng
    wrapper_calls = []
    for t, (M, kind) in enumerate(graphs):
        M = np.array(M)
        n = M.shape[0]
        off = (M - np.diag(np.diag(M))) != 0
        has_edge = bool(off.any())
        S = _csr((M != 0).astype(float))
        case0 = {'M': M.tolist()}

        def reg(name, **kw):
            ctx.case(key=_key(name, M.tobytes(), sorted(kw.items())), nontrivial=has_edge,
                     sample={'routine': name, 'n': n, 'graph': kind, **kw} if ctx.evaluations % 499 == 0 else None)
            ctx.feat('api:' + name)

        def viol(what, fkey=None, **extra):
            ctx.violation(what, {**case0, **extra}, fkey=fkey)
        deg = off.sum(1)
        # ---- standard
        reg('standard')
        try:
            AggOp, roots = AG.standard_aggregation(S)
            e = check_aggop(AggOp, roots, n, 'standard')
            if e:
                # finding #13: no off-diagonal entry at all -> (n x 1) zero matrix = one empty aggregate (deliberate API)
                fk = 'std-agg-no-edges' if (not has_edge and AggOp.shape == (n, 1) and AggOp.nnz == 0) else None
                viol(f'standard_aggregation: {e}', fkey=fk, routine='standard')
            else:
                D = sp.csr_array(AggOp).toarray()
                agg_of = np.where(D.sum(1) > 0, D.argmax(1), -1)
                for i in range(n):
                    if (agg_of[i] == -1) != (deg[i] == 0):
                        viol(f'standard_aggregation: node {i} with {int(deg[i])} off-diagonal connections is '
                             f'{"un" if agg_of[i] == -1 else ""}aggregated', routine='standard')
                        break
                else:
                    for k in range(D.shape[1]):
                        mem = np.nonzero(D[:, k])[0]
                        sub = off[np.ix_(mem, mem)]
                        nc, _ = csgraph.connected_components(sp.csr_array(sub.astype(int)), directed=False)
                        if nc != 1:
                            viol(f'standard_aggregation: aggregate {k} = {mem.tolist()} is not connected', routine='standard')
                            break
        except Exception as ex:
            viol(f'standard_aggregation raised {type(ex).__name__}: {ex}', routine='standard')
        # ---- naive
        reg('naive')
        try:
            AggOp, roots = AG.naive_aggregation(S)
            e = check_aggop(AggOp, roots, n, 'naive')
            if not e and sp.csr_array(AggOp).toarray().sum(1).min() != 1:
                e = 'a node is left unaggregated'
            if e:
                viol(f'naive_aggregation: {e}', routine='naive')
        except Exception as ex:
            viol(f'naive_aggregation raised {type(ex).__name__}: {ex}', routine='naive')
        # ---- pairwise on an M-matrix with this graph (sometimes nonsymmetric weights)
        if n >= 1 and t % 2 == 0:
            W = off * rng.integers(1, 5, size=(n, n)).astype(float)
            if t % 4 == 0:
                W = np.triu(W, 1) + np.triu(W, 1).T
            A = np.diag(W.sum(1) + rng.integers(0, 2, size=n) + (W.sum(1) == 0)) - W
            Acsr = _csr(A)
            matchings = int(rng.integers(1, 4))
            theta = float(rng.choice([0.0, 0.25, 0.5]))
            norm = str(rng.choice(['min', 'abs']))
            reg('pairwise', matchings=matchings, theta=theta, norm=norm)
            try:
                with _PairwiseSpy(AG) as spy:
                    T, roots = AG.pairwise_aggregation(Acsr, matchings=matchings, theta=theta, norm=norm)
                wrapper_calls.extend(spy.calls)
                e = check_aggop(T, roots, n, 'pairwise')
                if not e:
                    D = sp.csr_array(T).toarray()
                    if D.sum(1).min() != 1:
                        e = 'a node is left unaggregated'
                    elif D.sum(0).max() > 2 ** matchings:
                        e = f'an aggregate has {int(D.sum(0).max())} > 2^{matchings} nodes'
                if e:
                    viol(f'pairwise_aggregation(matchings={matchings}, theta={theta}, norm={norm}): {e}',
                         routine='pairwise', A=A.tolist(), matchings=matchings, theta=theta, norm=norm)
                else:
                    # the partition itself was judged above; this ties T / Cpts to the composed assignment maps
                    ce = composition_error(spy.calls, T, roots, n)
                    ctx.feat(f'pairwise_levels:{len(spy.calls)}')
                    if ce:
                        ctx.corr('pairwise wrapper composition', {**case0, 'A': A.tolist(), 'matchings': matchings,
                                                                  'theta': theta, 'norm': norm},
                                 'composition of the recorded matchings', ce)
            except Exception as ex:
                viol(f'pairwise_aggregation raised {type(ex).__name__}: {ex}', routine='pairwise', A=A.tolist(),
                     matchings=matchings, theta=theta, norm=norm)
        # ---- Lloyd: every node that can reach a centre is assigned
        if n >= 2 and t % 3 == 0:
            if t % 12 == 0:
                # many isolated nodes (more requested centres than nodes with an edge is then likely)
                iso = rng.random(n) < 0.6
                off = off & ~iso[:, None] & ~iso[None, :]
            W = np.triu(off, 1) * rng.choice([0.5, 1.0, 2.0], size=(n, n))
            W = W + W.T
            C = _csr(W)
            ratio = float(rng.choice([0.1, 0.3, 0.6, 0.9, 1.0]))
            measure = [None, 'unit', 'abs', 'inv', 'min'][int(rng.integers(5))]
            if t % 9 == 0 and C.nnz and measure in (None, 'abs', 'min'):
                C.data[rng.integers(C.nnz)] = 0.0       # an explicitly stored zero-length edge
            maxiter = int(rng.integers(1, 5))
            for nm, fn, kw in (('lloyd', AG.lloyd_aggregation, {'ratio': ratio, 'measure': measure, 'maxiter': maxiter}),
                               ('balanced_lloyd', AG.balanced_lloyd_aggregation, {'ratio': ratio, 'measure': measure, 'maxiter': maxiter})):
                if nm == 'balanced_lloyd' and _BAL_UNSAFE:
                    ctx.feat('balanced_lloyd_skipped_after_crash')      # part e (child process) already reported the crash
                    continue
                reg(nm, **kw)
                np.random.seed(int(rng.integers(2**31)))
                try:
                    with _cpu_limit(20.0):      # a Python-level loop that does not terminate is reported, not waited for
                        AggOp, centers = fn(C, **kw)
                    e = check_aggop(AggOp, None, n, nm)
                    D = sp.csr_array(AggOp).toarray()
                    if not e:
                        centers = [int(c) for c in centers]
                        if len(set(centers)) != len(centers):
                            e = 'centres are not distinct'
                        elif any(D[c, k] != 1 for k, c in enumerate(centers)):
                            e = 'a centre is not in the aggregate it names'
                        else:
                            _, lab = csgraph.connected_components(sp.csr_array(off.astype(int)), directed=False)
                            ok_comp = {lab[c] for c in centers}
                            for i in range(n):
                                if (lab[i] in ok_comp) != (D[i].sum() == 1):
                                    e = (f'node {i} can{"" if lab[i] in ok_comp else "not"} reach a centre but is '
                                         f'{"un" if D[i].sum() == 0 else ""}assigned')
                                    break
                    if e:
                        viol(f'{nm}_aggregation({kw}): {e}', routine=nm, W=W.tolist(), **kw)
                except ValueError as ex:
                    if nm == 'balanced_lloyd' and ('disconnected' in str(ex) or 'maxsize' in str(ex) or 'positive weights' in str(ex)):
                        ctx.feat('balanced_lloyd_rejects_input')   # explicit ValueError refusal (disconnected graph / maxsize too small), not a wrong partition
                    else:
                        viol(f'{nm}_aggregation({kw}) raised {type(ex).__name__}: {ex}', routine=nm, W=W.tolist(), **kw)
                except Exception as ex:
                    viol(f'{nm}_aggregation({kw}) raised {type(ex).__name__}: {ex}', routine=nm, W=W.tolist(), **kw)
    compare_pairwise_calls(ctx, wrapper_calls)


# ---------------------------------------------------------------------------------------------
# part d (extension E18): Lloyd clustering / aggregation vs the executable Lean model
# `ExtLloyd.lloydCluster` / `ExtLloyd.lloydAggregation` (ops `ext_c12_lloyd`, `ext_c12_lloyd_agg`,
# `ext_c12_most_interior`), exact on dyadic weights whose path sums are exact in binary64.

def lloyd_weights(rng, M, t, pow2=False):
    """(ap, aj, ax, kind): small dyadic non-negative weights (ties, zero-length edges), symmetric and
    nonsymmetric weights / patterns, unsorted rows with duplicate entries, self loops"""
    M = np.array(M)
    n = M.shape[0]
    pat = M != 0
    mode = t % 5
    vals = [0.25, 0.5, 1.0, 1.0, 2.0, 4.0] if pow2 else [0.0, 0.25, 0.5, 1.0, 1.0, 1.5, 2.0, 3.0]
    sym = True
    if mode == 0:       # unit weights: every comparison is a tie
        W = np.ones((n, n))
    elif mode in (1, 2):     # symmetric weights, many ties
        W = rng.choice(vals, size=(n, n))
        W = np.triu(W) + np.triu(W, 1).T
    elif mode == 3:     # nonsymmetric weights on a symmetric pattern
        W = rng.choice(vals, size=(n, n))
    else:               # nonsymmetric pattern
        W = rng.choice(vals, size=(n, n))
        pat = pat & (rng.random((n, n)) < 0.7)
        sym = False
    dup = t % 7 == 3
    ap, aj, ax = [0], [], []
    for i in range(n):
        cols = [int(c) for c in np.nonzero(pat[i])[0]]
        if dup and n:
            extra = [int(c) for c in rng.integers(0, n, size=int(rng.integers(0, 3)))]
            sym = sym and not extra
            cols += extra
            rng.shuffle(cols)
        for c in cols:
            aj.append(c)
            ax.append(float(W[i, c]))
        ap.append(len(aj))
    kind = ('unit', 'symw', 'symw', 'nonsymw', 'nonsympat')[mode] + ('+dup' if dup else '')
    return (np.array(ap, dtype=np.int32), np.array(aj, dtype=np.int32), np.array(ax, dtype=np.float64), kind, sym)


def _reach(n, ap, aj, sources):
    seen = np.zeros(n, dtype=bool)
    stack = [int(s) for s in sources if 0 <= int(s) < n]
    for s in stack:
        seen[s] = True
    while stack:
        i = stack.pop()
        for jj in range(ap[i], ap[i + 1]):
            j = int(aj[jj])
            if not seen[j]:
                seen[j] = True
                stack.append(j)
    return seen


def lloyd_cluster_spec_error(n, ap, aj, clusters, centers, k):
    """the clauses of `ExtLloyd.lloydCluster_spec` stated independently on a real output (symmetric pattern,
    distinct initial centres, maxiter >= 1)"""
    clusters = [int(v) for v in clusters]
    centers = [int(v) for v in centers]
    if len(centers) != k or len(clusters) != n:
        return f'{len(centers)} centres / {len(clusters)} cluster ids for k = {k}, n = {n}'
    if any(not (-1 <= v < k) for v in clusters):
        return 'a cluster id lies outside -1..k-1'
    if any(not (0 <= c < n) for c in centers):
        return 'a centre lies outside 0..n-1'
    for a, c in enumerate(centers):
        if clusters[c] != a:
            return f'centre {c} of cluster {a} carries cluster id {clusters[c]} (cluster {a} has no root inside)'
    seen = _reach(n, ap, aj, centers)
    for i in range(n):
        if bool(seen[i]) != (clusters[i] >= 0):
            return f'node {i} can{"" if seen[i] else "not"} be reached from a centre but has cluster id {clusters[i]}'
    return None


def _hdr(n, ap, aj, ax):
    return f'{n} {enc_ints(ap)} {enc_ints(aj)} {enc_rats(ax)}'


def _orats(d):
    return ','.join('inf' if not np.isfinite(v) else enc_rat(v) for v in d) if len(d) else '-'


def lloyd_cluster_item(n, ap, aj, ax, centers, maxiter):
    """run the real `lloyd_cluster`; return (request line, implementation output)"""
    from pyamg import graph as PG
    G = sp.csr_array((ax.copy(), aj.copy(), ap.copy()), shape=(n, n))
    line = f'ext_c12_lloyd {_hdr(n, ap, aj, ax)} {enc_ints(centers)} {maxiter}'
    try:
        cl, ce = PG.lloyd_cluster(G, np.array(centers, dtype=np.int32), maxiter=maxiter)
        out = enc_ints(cl) + ';' + enc_ints(ce)
        res = (np.array(cl), np.array(ce))
    except ValueError:
        out, res = 'ValueError', None
    return line, out, res


def part_d(ctx, graphs):
    from pyamg import amg_core
    from pyamg.aggregation import aggregate as AG
    rng = ctx.np_rng
    items = []      # (line, impl output, what, nontrivial, judge) ; judge() -> error string of the property or None
    for t, (M, kind) in enumerate(graphs):
        M = np.array(M)
        n = M.shape[0]
        if n < 1:
            continue
        ap, aj, ax, wk, sym = lloyd_weights(rng, M, t)
        has_edge = bool(len(aj))
        ctx.feat('lloyd_weights:' + wk)
        # ---- lloyd_cluster with explicit centres
        k = int(rng.integers(1, min(n, 4) + 1))
        centers = rng.choice(n, size=k, replace=False).astype(np.int32)
        distinct, valid = True, True
        r = t % 23
        if r == 5 and n >= 2:
            centers = np.append(centers, centers[0]).astype(np.int32)      # duplicate centre: the last one wins
            distinct = False
        elif r == 7:
            centers = np.append(centers, n).astype(np.int32)
            valid = False
        elif r == 9:
            centers = np.append(centers, -1).astype(np.int32)
            valid = False
        elif r == 11:
            centers = np.zeros(0, dtype=np.int32)
            valid = False
        axc = ax
        if r == 13 and len(ax):
            axc = ax.copy()
            axc[int(rng.integers(len(ax)))] = -0.5
            valid = False
        maxiter = int(rng.integers(0, 6))
        c0 = [int(v) for v in centers]
        line, out, res = lloyd_cluster_item(n, ap, aj, axc, centers, maxiter)
        case = {'routine': 'lloyd_cluster', 'n': n, 'ap': ap.tolist(), 'aj': aj.tolist(), 'ax': [float(v) for v in axc],
                'centers': c0, 'maxiter': maxiter}

        def judge(res=res, n=n, ap=ap, aj=aj, k=len(c0), sym=sym, distinct=distinct, valid=valid, maxiter=maxiter):
            if res is None:
                return None if not valid else 'ValueError for a valid input'
            if not valid:
                return 'an invalid input was accepted'
            if sym and distinct and maxiter >= 1:
                return lloyd_cluster_spec_error(n, ap, aj, res[0], res[1], k)
            return None
        items.append((line, out, 'lloyd_cluster', has_edge, judge, case))
        ctx.feat('lloyd_cluster:' + ('valid' if valid else 'rejected') + ('' if distinct else '+dupcentre'))
        # ---- raw most_interior_nodes kernel on an arbitrary state
        if t % 2 == 0:
            kk = int(rng.integers(1, min(n, 4) + 1))
            c = rng.integers(0, n, size=kk).astype(np.int32)
            m = rng.integers(-1, kk, size=n).astype(np.int32)
            p = rng.integers(-1, n, size=n).astype(np.int32)
            d = rng.choice([0.0, 1.0, np.inf], size=n)
            line = f'ext_c12_most_interior {_hdr(n, ap, aj, ax)} {enc_ints(c)} {enc_ints(m)} {enc_ints(p)}'
            case = {'routine': 'most_interior', 'n': n, 'ap': ap.tolist(), 'aj': aj.tolist(), 'ax': [float(v) for v in ax],
                    'c': c.tolist(), 'm': m.tolist(), 'p': p.tolist()}
            ch = amg_core.most_interior_nodes(n, ap, aj, ax, c, d, m, p)
            out = enc_ints(c) + ';' + _orats(d) + ';' + enc_ints(m) + ';' + enc_ints(p) + ';' + ('true' if ch else 'false')
            items.append((line, out, 'most_interior_nodes', has_edge, lambda: None, case))
        # ---- lloyd_aggregation through the public wrapper: the centres are the replayed permutation
        if t % 2 == 1 or n <= 4:
            measure = ['None', 'unit', 'abs', 'inv', 'min'][int(rng.integers(5))]
            if measure == 'inv':
                ap, aj, ax, wk, sym = lloyd_weights(rng, M, t, pow2=True)
            ratio = float(rng.choice([0.125, 0.25, 0.5, 0.75, 1.0]))
            maxiter = int(rng.integers(0, 5))
            seed = int(rng.integers(2**31))
            np.random.seed(seed)
            perm = np.random.permutation(n)
            C = sp.csr_array((ax.copy(), aj.copy(), ap.copy()), shape=(n, n))
            kw = {'ratio': ratio, 'measure': None if measure == 'None' else measure, 'maxiter': maxiter}
            line = f'ext_c12_lloyd_agg {measure} {enc_rat(ratio)} {_hdr(n, ap, aj, ax)} {enc_ints(perm)} {maxiter}'
            case = {'routine': 'lloyd_aggregation', 'n': n, 'ap': ap.tolist(), 'aj': aj.tolist(), 'ax': [float(v) for v in ax],
                    'seed': seed, **kw}
            np.random.seed(seed)
            import warnings
            try:
                with warnings.catch_warnings():
                    warnings.simplefilter('ignore')
                    AggOp, ce = AG.lloyd_aggregation(C, **kw)
                AggOp = sp.csr_array(AggOp)
                out = enc_ints(AggOp.indptr) + ';' + enc_ints(AggOp.indices) + ';' + enc_ints(AggOp.data) + ';' + enc_ints(ce)
                res = (AggOp, ce)
            except ValueError:
                out, res = 'ValueError', None

            def judge_agg(res=res, n=n, ap=ap, aj=aj, sym=sym, maxiter=maxiter):
                if res is None:
                    return 'ValueError for a valid input'
                if not sym:
                    return None     # the property (and the theorem) is about symmetric strength graphs
                e = check_aggop(res[0], res[1], n, 'lloyd')
                if e or maxiter < 1:
                    return e
                D = res[0].toarray()
                seen = _reach(n, ap, aj, res[1])
                for i in range(n):
                    if bool(seen[i]) != (D[i].sum() == 1):
                        return f'node {i} can{"" if seen[i] else "not"} reach a centre but is {"un" if D[i].sum() == 0 else ""}assigned'
                return None
            items.append((line, out, 'lloyd_aggregation', has_edge, judge_agg, case))
            ctx.feat('lloyd_measure:' + measure)
    outs = ctx.lean([it[0] for it in items]) if items else []
    for (line, out, what, nontriv, judge, case), o in zip(items, outs):
        ctx.case(key=_key(line), nontrivial=nontriv,
                 sample={'request': line[:200], 'model': o[:100], 'impl': out[:100]} if ctx.evaluations % 97 == 0 else None)
        ctx.feat('lloyd:' + what)
        if o == 'unmodelled':
            ctx.feat('lloyd:unmodelled')
            continue
        if o != out:
            ctx.corr(what + ' vs ExtLloyd model', case, o, out)
        e = judge()
        if e:
            ctx.violation(f'{what}: {e}', case)


# ---------------------------------------------------------------------------------------------
# part v: the VALUES of the strength matrix. Every public routine x every measure / option on complex
# strength matrices (purely imaginary, purely real of both signs, mixed entries) and on real matrices
# with negative entries; symmetric, conjugate-symmetric and nonsymmetric values on a symmetric pattern;
# CSR and (Lloyd) CSC input. Judged by the partition / reachability specification on the PATTERN (all
# generated values are non-zero, so stored = non-zero), reachable set by BFS on the dense pattern.
# Real-valued Lloyd cases are also compared with the Lean model (`ext_c12_lloyd_agg`, real weights only).

# Two defects of the unchanged tree on complex C (reported; no known: entry yet, so these input classes stay out):
# (1) `np.real(data)` is a strided view of the complex buffer and the kernels read it as contiguous (edge lengths =
#     interleaved real / imaginary parts): lloyd_aggregation(measure=None / 'min') and balanced_lloyd_aggregation (every
#     measure) hang or abort on e.g. C = [[0, 1-2j], [1-2j, 0]];
# (2) balanced_lloyd_aggregation uses real(C.data) whatever the measure, so measure='abs' / 'inv' / 'unit' raise
#     'requires a positive measure' as soon as one entry has a real part <= 0.
COMPLEX_REAL_VIEW_FIXED = True         # (1): lloyd x complex x (None, 'min') and balanced x complex are generated
BALANCED_COMPLEX_ANY_MEASURE = True    # (2): balanced x complex values with a real part <= 0 x measure other than None

_VALS = {
    'c_mixed': [2j, -1j, 0.5j, 1.0, 2.0, -1.0, -0.5, 1 + 1j, -1 + 2j, 0.5 - 1j, -2 - 0.5j],
    'c_imag': [1j, 2j, -1j, -0.5j, 4j],
    'c_real': [1.0, 2.0, -1.0, -0.5, 4.0, -2.0],
    'c_posre': [1.0, 1 + 1j, 0.5 - 2j, 2 + 0.5j, 0.25 - 1j, 4.0],
    'r_neg': [-0.25, -0.5, -1.0, -1.0, -2.0, -4.0],
    'r_mixed': [-2.0, -1.0, -0.5, 0.5, 1.0, 1.0, 2.0, 4.0],
}
_MEASURES = (None, 'unit', 'abs', 'inv', 'min')


def value_matrix(rng, M, cls, symmode):
    """dense matrix with the pattern of the graph M (self loops included) and non-zero values of class `cls`"""
    M = np.array(M)
    n = M.shape[0]
    V = rng.choice(np.array(_VALS[cls], dtype=complex if cls.startswith('c_') else float), size=(n, n))
    if symmode == 'sym':
        V = np.triu(V) + np.triu(V, 1).T
    elif symmode == 'conj':
        V = np.triu(V) + np.conj(np.triu(V, 1)).T
    return V * (M != 0)


def _case_arrays(C):
    return {'n': int(C.shape[0]), 'ap': [int(v) for v in C.indptr], 'aj': [int(v) for v in C.indices],
            're': [float(v) for v in np.real(C.data)],
            'im': [float(v) for v in np.imag(C.data)] if C.dtype.kind == 'c' else None}


def oracle_measure(z, measure):
    """edge lengths by the table in the docstring of lloyd_aggregation (real part for complex values)"""
    z = np.asarray(z)
    if measure is None:
        w = z
    elif measure == 'unit':
        w = np.ones(len(z))
    elif measure == 'abs':
        w = np.abs(z)
    elif measure == 'inv':
        w = 1.0 / np.abs(z)
    else:
        w = z - min(z, key=lambda v: (v.real, v.imag)) if len(z) else z
    return np.real(w)


class _NoReturn(Exception):
    pass


_DEADLINE = 20.0    # seconds; a Lloyd call on these graphs (n <= 60) takes milliseconds


def _with_deadline(fn):
    """fn() in a worker thread (the native kernels release the GIL); raises _NoReturn when it has not returned in time.
    Bellman-Ford with a negative length never terminates: a routine that does not return violates the property, and
    the check must not hang with it (the worker is a daemon thread; the caller stops its part after a _NoReturn)."""
    import threading
    box = []

    def work():
        try:
            box.append((True, fn()))
        except BaseException as ex:
            box.append((False, ex))
    th = threading.Thread(target=work, daemon=True)
    th.start()
    th.join(_DEADLINE)
    if not box:
        raise _NoReturn()
    if not box[0][0]:
        raise box[0][1]
    return box[0][1]


def _bfs_dense(P, sources):
    seen = np.zeros(P.shape[0], dtype=bool)
    stack = [int(s) for s in sources]
    for s in stack:
        seen[s] = True
    while stack:
        i = stack.pop()
        for j in np.nonzero(P[i] & ~seen)[0]:
            seen[j] = True
            stack.append(int(j))
    return seen


def values_case(ctx, c, wrapper_calls=None):
    """run ONE public routine on the matrix stored in the case `c`; {'err': property error or None, 'fkey', 'out'}"""
    from pyamg.aggregation import aggregate as AG
    n = int(c['n'])
    data = np.array(c['re'], dtype=float)
    if c['im'] is not None:
        data = data + 1j * np.array(c['im'], dtype=float)
    ap, aj = np.array(c['ap'], dtype=np.int32), np.array(c['aj'], dtype=np.int32)
    C = sp.csr_array((data, aj, ap), shape=(n, n))
    P = np.zeros((n, n), dtype=bool)
    P[np.repeat(np.arange(n), np.diff(ap)), aj] = True
    P = P | P.T
    off = P & ~np.eye(n, dtype=bool)
    routine = c['routine'].split(':', 1)[1]
    res = {'err': None, 'fkey': None, 'out': None}
    try:
        if routine == 'standard':
            AggOp, roots = AG.standard_aggregation(C)
            e = check_aggop(AggOp, roots, n, routine)
            if e:
                if not off.any() and AggOp.shape == (n, 1) and AggOp.nnz == 0:
                    res['fkey'] = 'std-agg-no-edges'
            else:
                D = sp.csr_array(AggOp).toarray()
                for i in range(n):
                    if (D[i].sum() == 0) != (not off[i].any()):
                        e = (f'node {i} with {int(off[i].sum())} off-diagonal connections is '
                             f'{"un" if D[i].sum() == 0 else ""}aggregated')
                        break
                else:
                    for k in range(D.shape[1]):
                        mem = np.nonzero(D[:, k])[0]
                        if not _bfs_dense(off[np.ix_(mem, mem)], [0]).all():
                            e = f'aggregate {k} = {mem.tolist()} is not connected'
                            break
            res['err'] = e
        elif routine == 'naive':
            AggOp, roots = AG.naive_aggregation(C)
            e = check_aggop(AggOp, roots, n, routine)
            if not e and n and sp.csr_array(AggOp).toarray().sum(1).min() != 1:
                e = 'a node is left unaggregated'
            res['err'] = e
        elif routine == 'pairwise':
            with _PairwiseSpy(AG) as spy:
                T, roots = AG.pairwise_aggregation(C, matchings=c['matchings'], theta=c['theta'], norm=c['norm'])
            if wrapper_calls is not None:
                wrapper_calls.extend(spy.calls)
            e = check_aggop(T, roots, n, routine)
            if not e:
                D = sp.csr_array(T).toarray()
                if D.sum(1).min() != 1:
                    e = 'a node is left unaggregated'
                elif D.sum(0).max() > 2 ** c['matchings']:
                    e = f'an aggregate has {int(D.sum(0).max())} > 2^{c["matchings"]} nodes'
                else:
                    e = composition_error(spy.calls, T, roots, n)
            res['err'] = e
        elif routine in ('lloyd_cluster', 'balanced_lloyd_cluster'):
            # the clustering functions of pyamg/graph.py themselves: a complex G means the lengths |G[i,j]|
            from pyamg import graph as PG
            fn = PG.lloyd_cluster if routine == 'lloyd_cluster' else PG.balanced_lloyd_cluster
            c0 = np.array(c['centers'], dtype=np.int32)
            np.random.seed(int(c['seed']))
            try:
                cl, ce = _with_deadline(lambda: fn(C.copy(), c0.copy(), maxiter=int(c['maxiter'])))
                res['err'] = lloyd_cluster_spec_error(n, ap, aj, cl, ce, len(c0))
            except ValueError as ex:
                w, msg = np.abs(data) if data.dtype.kind == 'c' else data, str(ex)
                if 'positive weights' in msg and ((w < 0).any() or (routine == 'balanced_lloyd_cluster' and (w <= 0).any())):
                    ctx.feat('values:refused:negative_weight')
                elif routine == 'balanced_lloyd_cluster' and 'disconnected' in msg and not _bfs_dense(P, c0).all():
                    ctx.feat('values:refused:disconnected')
                elif routine == 'balanced_lloyd_cluster' and 'maxsize' in msg:
                    ctx.feat('values:refused:maxsize')
                else:
                    res['err'] = f'raised ValueError: {msg}'
        else:
            fn = AG.lloyd_aggregation if routine == 'lloyd' else AG.balanced_lloyd_aggregation
            G = C.copy() if c.get('fmt', 'csr') == 'csr' else sp.csc_array((data.copy(), aj.copy(), ap.copy()), shape=(n, n))
            np.random.seed(int(c['seed']))
            perm = np.random.permutation(n)
            np.random.seed(int(c['seed']))
            try:
                AggOp, centers = _with_deadline(lambda: fn(G, ratio=c['ratio'], measure=c['measure'], maxiter=int(c['maxiter'])))
            except ValueError as ex:
                w, msg = oracle_measure(data, c['measure']), str(ex)
                res['out'] = 'ValueError'
                naggs = int(min(max(c['ratio'] * n, 1), n))
                if 'positive measure' in msg and (w < 0).any():
                    ctx.feat('values:refused:negative_measure')
                elif routine == 'balanced_lloyd' and 'positive weights' in msg and (w <= 0).any():
                    ctx.feat('values:refused:nonpositive_weight')
                elif routine == 'balanced_lloyd' and 'disconnected' in msg and not _bfs_dense(P, perm[:naggs]).all():
                    ctx.feat('values:refused:disconnected')
                elif routine == 'balanced_lloyd' and 'maxsize' in msg:
                    ctx.feat('values:refused:maxsize')
                else:
                    res['err'] = f'raised ValueError: {msg}'
                return res
            AggOp = sp.csr_array(AggOp)
            e = check_aggop(AggOp, centers, n, routine)
            if not e:
                D = AggOp.toarray()
                seen = _bfs_dense(P, centers)
                for i in range(n):
                    if bool(seen[i]) != (D[i].sum() == 1):
                        e = (f'node {i} can{"" if seen[i] else "not"} reach a centre (centres {[int(v) for v in centers]}) '
                             f'but is {"un" if D[i].sum() == 0 else ""}assigned')
                        break
            res['err'] = e
            res['out'] = enc_ints(AggOp.indptr) + ';' + enc_ints(AggOp.indices) + ';' + enc_ints(AggOp.data) + ';' + enc_ints(centers)
    except _NoReturn:
        res['err'], res['hang'] = f'did not return within {_DEADLINE:.0f} s (a few milliseconds are normal)', True
    except Exception as ex:
        res['err'] = f'raised {type(ex).__name__}: {ex}'
    return res


def part_v(ctx, graphs):
    try:
        _part_v(ctx, graphs)
    except _NoReturn:
        ctx.feat('values:stopped_after_hang')       # the kernel is still spinning in its thread: no further cases


def _part_v(ctx, graphs):
    rng = ctx.np_rng
    classes = list(_VALS)
    wrapper_calls, items = [], []
    for t, (M, kind) in enumerate(graphs):
        M = np.array(M)
        n = M.shape[0]
        cls = classes[t % len(classes)]
        symmode = ('sym', 'conj', 'nonsym')[(t // len(classes)) % 3]
        cplx = cls.startswith('c_')
        W = value_matrix(rng, M, cls, symmode)
        has_edge = bool((W - np.diag(np.diag(W))).any())
        base = {**_case_arrays(gen.int32csr(sp.csr_array(W))), 'values': cls + '/' + symmode, 'graph': kind}
        ctx.feat('values:' + cls)
        ctx.feat('values:' + symmode)

        def one(routine, arrays=None, **kw):
            case = {**base, **(arrays or {}), 'routine': 'values:' + routine, **kw}
            ctx.case(key=_key('values', routine, case['ap'], case['aj'], case['re'], case['im'], sorted(kw.items(), key=str)),
                     nontrivial=has_edge, sample={k: v for k, v in case.items() if k not in ('ap', 'aj', 're', 'im')}
                     if ctx.evaluations % 499 == 0 else None)
            ctx.feat('values:' + routine)
            res = values_case(ctx, case, wrapper_calls)
            if res['err']:
                ctx.violation(f'{routine}{"" if "cluster" in routine else "_aggregation"} on {cls} values '
                              f'({ {k: v for k, v in kw.items() if k != "seed"} }): {res["err"]}', case, fkey=res['fkey'])
            if res.get('hang'):
                raise _NoReturn()
            return case, res
        one('standard')
        one('naive')
        # ---- pairwise on a matrix with these off-diagonal values (not an M-matrix) and a non-zero diagonal
        if t % 2 == 0:
            Woff = W - np.diag(np.diag(W))
            dg = (np.abs(Woff).sum(1) + rng.integers(0, 2, size=n) + (np.abs(Woff).sum(1) == 0)) * \
                rng.choice(np.array([1, -1, 1j, 1 + 1j] if cplx else [1.0, 1.0, -1.0]), size=n)
            A = gen.int32csr(sp.csr_array(Woff + np.diag(dg)))
            one('pairwise', arrays=_case_arrays(A), matchings=int(rng.integers(1, 4)), theta=float(rng.choice([0.0, 0.25, 0.5])),
                norm='abs' if cplx else str(rng.choice(['min', 'abs'])))      # norm='min' is not defined for complex matrices
        # ---- Lloyd / balanced Lloyd x every measure
        ratio = float(rng.choice([0.125, 0.25, 0.5, 0.75, 1.0]))
        maxiter = int(rng.integers(1, 5))
        if n >= 1 and t % 3 != 1:
            cen = [int(v) for v in rng.choice(n, size=int(rng.integers(1, min(n, 4) + 1)), replace=False)]
            for routine in ('lloyd_cluster', 'balanced_lloyd_cluster'):
                if 'balanced' in routine and _BAL_UNSAFE:
                    continue        # part e (child process) already reported a crash of the balanced Lloyd code
                one(routine, centers=cen, maxiter=maxiter, seed=int(rng.integers(2**31)))
        fmt = 'csc' if t % 4 == 3 else 'csr'
        for measure in _MEASURES:
            for routine in ('lloyd', 'balanced_lloyd'):
                if 'balanced' in routine and _BAL_UNSAFE:
                    continue
                if cplx and not COMPLEX_REAL_VIEW_FIXED and (routine == 'balanced_lloyd' or measure in (None, 'min')):
                    continue
                if routine == 'balanced_lloyd' and cplx and measure is not None and cls != 'c_posre' and not BALANCED_COMPLEX_ANY_MEASURE:
                    continue
                seed = int(rng.integers(2**31))
                case, res = one(routine, ratio=ratio, measure=measure, maxiter=maxiter, fmt=fmt, seed=seed)
                if routine == 'lloyd' and not cplx and res['out'] is not None:
                    np.random.seed(seed)
                    perm = np.random.permutation(n)
                    line = (f'ext_c12_lloyd_agg {measure} {enc_rat(ratio)} '
                            f'{_hdr(n, case["ap"], case["aj"], case["re"])} {enc_ints(perm)} {maxiter}')
                    items.append((line, res['out'], case))
    compare_pairwise_calls(ctx, wrapper_calls)
    outs = ctx.lean([it[0] for it in items]) if items else []
    for (line, out, case), o in zip(items, outs):
        ctx.feat('values:lloyd_vs_model')
        if o != 'unmodelled' and o != out:
            ctx.corr('lloyd_aggregation (negative real values) vs ExtLloyd model', case, o, out)


# ---------------------------------------------------------------------------------------------
# part e (extension E34): balanced Lloyd clustering / aggregation vs the executable Lean model
# `BalLloyd.cluster` / `BalLloyd.aggregation` / `BalLloyd.centerNodes` (ops `ext_c12_ballloyd`,
# `ext_c12_ballloyd_agg`, `ext_c12_center_nodes`), exact on positive dyadic weights.  NumPy's default
# `argsort` is not stable: the two sort orders of every `_rebalance` call are recorded and replayed
# (the model checks that a recorded order is a sorted permutation).

TOL = 1e-14          # `const double tol` of bellman_ford_balanced / floyd_warshall / center_nodes


_BAL_UNSAFE = []     # set by part_e when the balanced Lloyd code crashed in its child: the in-process callers then skip it


class _Hang(Exception):
    pass


class _cpu_limit:
    """raise _Hang inside the guarded block after `seconds` of CPU time (a Python-level loop such as the
    `while` of `_rebalance` that does not terminate must not stall the check)"""
    def __init__(self, seconds=8.0):
        self.seconds = seconds

    def __enter__(self):
        import signal

        def handler(signum, frame):
            raise _Hang()
        self.saved = signal.signal(signal.SIGVTALRM, handler)
        signal.setitimer(signal.ITIMER_VIRTUAL, self.seconds)

    def __exit__(self, *a):
        import signal
        signal.setitimer(signal.ITIMER_VIRTUAL, 0)
        signal.signal(signal.SIGVTALRM, self.saved)


class _ArgsortSpy:
    """records the results of `np.argsort` inside pyamg.graph (a forwarding proxy for the module's `np`)"""
    def __init__(self, PG):
        self.PG, self.calls = PG, []

    def __enter__(self):
        spy = self

        class Proxy:
            def __getattr__(self, name):
                return getattr(np, name)

            def argsort(self, a, *k, **kw):
                r = np.argsort(a, *k, **kw)
                spy.calls.append([int(v) for v in r])
                return r
        self.saved = self.PG.np
        self.PG.np = Proxy()
        return self

    def __exit__(self, *a):
        self.PG.np = self.saved


def _ords(calls):
    es = [v for c in calls[0::2] for v in c]
    ss = [v for c in calls[1::2] for v in c]
    return enc_ints(es), enc_ints(ss)


def bal_weights(rng, M, t):
    """(ap, aj, ax, kind, sym): positive dyadic weights; symmetric weights (unit / random with ties), nonsymmetric
    weights on a symmetric pattern, nonsymmetric pattern; canonical rows (sorted, no duplicates)"""
    M = np.array(M)
    n = M.shape[0]
    pat = (M != 0) | (M != 0).T
    mode = t % 6
    vals = [0.25, 0.5, 1.0, 1.0, 1.5, 2.0, 3.0]
    sym = True
    if mode == 0:
        W = np.ones((n, n))
    elif mode in (1, 2, 3):
        W = rng.choice(vals, size=(n, n))
        W = np.triu(W) + np.triu(W, 1).T
    elif mode == 4:
        W = rng.choice(vals, size=(n, n))
        sym = False
    else:
        W = rng.choice(vals, size=(n, n))
        pat = pat & (rng.random((n, n)) < 0.8)
        sym = False
    G = gen.int32csr(sp.csr_array(np.where(pat, W, 0.0)))
    kind = ('unit', 'symw', 'symw', 'symw', 'nonsymw', 'nonsympat')[mode]
    return G.indptr.copy(), G.indices.copy(), G.data.astype(np.float64), kind, sym


def bal_cluster_spec_error(n, clusters, centers, k):
    """the clauses of `BalLloyd.cluster_spec` stated independently on a real output"""
    clusters = [int(v) for v in clusters]
    centers = [int(v) for v in centers]
    if len(centers) != k or len(clusters) != n:
        return f'{len(centers)} centres / {len(clusters)} cluster ids for k = {k}, n = {n}'
    if any(not (0 <= v < k) for v in clusters):
        return 'a cluster id lies outside 0..k-1 (unassigned node or invalid id)'
    if any(not (0 <= c < n) for c in centers):
        return 'a centre lies outside 0..n-1'
    for a, c in enumerate(centers):
        if clusters[c] != a:
            return f'centre {c} of cluster {a} carries cluster id {clusters[c]}'
    return None


def _strongly_connected(n, ap, aj):
    if n == 0:
        return True
    G = sp.csr_array((np.ones(len(aj)), aj, ap), shape=(n, n))
    nc, _ = csgraph.connected_components(G, directed=True, connection='strong')
    return nc == 1


def bal_cluster_item(n, ap, aj, ax, centers, maxiter, reb, tb):
    from pyamg import graph as PG
    G = sp.csr_array((ax.copy(), aj.copy(), ap.copy()), shape=(n, n))
    err = None
    with _ArgsortSpy(PG) as spy:
        try:
            with _cpu_limit():
                cl, ce = PG.balanced_lloyd_cluster(G, np.array(centers, dtype=np.int32), maxiter=maxiter,
                                                   rebalance_iters=reb, tiebreaking=tb)
            out = enc_ints(cl) + ';' + enc_ints(ce)
            res = (np.array(cl), np.array(ce))
        except _Hang:
            out, res, err = 'hang', None, 'hang'
        except ValueError as ex:
            msg = str(ex)
            out = ('ValueError:maxsize' if 'maxsize' in msg else 'ValueError:disconnected' if 'disconnected' in msg
                   else 'ValueError:pc' if 'Predecessor' in msg else 'ValueError')
            res, err = None, out
        except RuntimeError:
            out, res, err = 'too-many-iterations', None, 'RuntimeError'
    es, ss = _ords(spy.calls)
    line = (f'ext_c12_ballloyd {_hdr(n, ap, aj, ax)} {enc_rat(TOL)} {int(tb)} {enc_ints(centers)} {maxiter} {reb} '
            f'{es} {ss}')
    return line, out, res, err, len(spy.calls) // 2


def _bal_records(rng, graphs):
    """generator (run in a forked child, see part_e): ('feat', name) | ('start', what, case) before a call of the
    real code | ('item', (line, implementation output, what, nontrivial, property error or None, case))"""
    from pyamg import amg_core
    from pyamg import graph as PG
    from pyamg.aggregation import aggregate as AG
    import warnings
    for t, (M, kind) in enumerate(graphs):
        M = np.array(M)
        n = M.shape[0]
        if n < 1:
            continue
        ap, aj, ax, wk, sym = bal_weights(rng, M, t)
        has_edge = bool(len(aj))
        conn = _strongly_connected(n, ap, aj)
        yield ('feat', 'bal_weights:' + wk + ('+connected' if conn else ''))
        # ---- balanced_lloyd_cluster with explicit centres
        k = int(rng.integers(1, min(n, 5) + 1))
        centers = rng.choice(n, size=k, replace=False).astype(np.int32)
        valid = True
        r = t % 29
        if r == 7:
            centers = np.append(centers, n).astype(np.int32)
            valid = False
        elif r == 9:
            centers = np.append(centers, -1).astype(np.int32)
            valid = False
        elif r == 11:
            centers = np.zeros(0, dtype=np.int32)
            valid = False
        axc = ax
        if r == 13 and len(ax):
            axc = ax.copy()
            axc[int(rng.integers(len(ax)))] = float(rng.choice([0.0, -0.5]))
            valid = False
        maxiter = int(rng.integers(0, 5))
        reb = int(rng.integers(0, 4))
        if maxiter == 0 and len(centers) >= 2:
            reb = 0      # maxiter = 0 with a rebalance round reads uninitialised work arrays (reported finding): not called
        tb = bool(t % 4 != 3)
        c0 = [int(v) for v in centers]
        case = {'routine': 'balanced_lloyd_cluster', 'n': n, 'ap': ap.tolist(), 'aj': aj.tolist(),
                'ax': [float(v) for v in axc], 'centers': c0, 'maxiter': maxiter, 'reb': reb, 'tb': tb}
        yield ('start', 'balanced_lloyd_cluster', case)
        line, out, res, err, nreb = bal_cluster_item(n, ap, aj, axc, centers, maxiter, reb, tb)

        def judge(res=res, err=err, n=n, k=len(c0), sym=sym, conn=conn, valid=valid, maxiter=maxiter):
            if res is None:
                if not valid:
                    return None if err == 'ValueError' else f'{err} instead of the argument ValueError'
                if err == 'ValueError':
                    return 'ValueError for a valid input'
                if err == 'hang':
                    return 'the call does not terminate (CPU limit)'
                if sym and conn and err in ('ValueError:disconnected', 'ValueError:pc', 'RuntimeError'):
                    return f'{err} on a connected symmetric graph'
                return None
            if not valid:
                return 'an invalid input was accepted'
            if sym and maxiter >= 1:
                return bal_cluster_spec_error(n, res[0], res[1], k)
            return None
        yield ('item', (line, out, 'balanced_lloyd_cluster', has_edge, judge(), case))
        yield ('feat', 'bal_cluster:' + ('valid' if valid else 'rejected'))
        yield ('feat', f'bal_rebalance_calls:{min(nreb, 3)}')
        if res is not None and valid and not (res[1] == np.array(c0)).all():
            yield ('feat', 'bal_cluster:centres moved')
        # ---- raw center_nodes kernel on the state one real Bellman-Ford pass leaves
        if valid and t % 2 == 0:
            cs = np.array(c0, dtype=np.int32)
            kk = len(cs)
            maxsize = int(12 * np.ceil(n / kk))
            d = np.full(n, np.inf)
            m = np.full(n, -1, dtype=np.int32)
            p = np.full(n, -1, dtype=np.int32)
            pc = np.zeros(n, dtype=np.int32)
            s = np.ones(kk, dtype=np.int32)
            d[cs] = 0
            m[cs] = np.arange(kk)
            p[cs] = cs
            pc[cs] = 1
            yield ('start', 'center_nodes', {'routine': 'center_nodes', 'n': n, 'ap': ap.tolist(), 'aj': aj.tolist(),
                                             'ax': [float(v) for v in ax], 'centers': c0})
            try:
                amg_core.bellman_ford_balanced(n, ap, aj, ax, cs, d, m, p, pc, s, True)
                ok = m.min() >= 0 and s.max() <= maxsize
            except RuntimeError:
                ok = False
            if ok:
                line = (f'ext_c12_center_nodes {_hdr(n, ap, aj, ax)} {enc_rat(TOL)} {maxsize} {enc_ints(cs)} {_orats(d)} '
                        f'{enc_ints(m)} {enc_ints(p)} {enc_ints(pc)} {enc_ints(s)}')
                case = {'routine': 'center_nodes', 'n': n, 'ap': ap.tolist(), 'aj': aj.tolist(), 'ax': [float(v) for v in ax],
                        'centers': c0}
                Cptr = np.zeros(kk, dtype=np.int32)
                D = np.zeros(maxsize * maxsize)
                P = np.zeros(maxsize * maxsize, dtype=np.int32)
                CC = np.zeros(n, dtype=np.int32)
                L = np.zeros(n, dtype=np.int32)
                q = np.zeros(maxsize)
                m0 = m.copy()
                ch = amg_core.center_nodes(n, ap, aj, ax, Cptr, D, P, CC, L, q, cs, d, m, p, pc, s)
                out = (enc_ints(cs) + ';' + _orats(d) + ';' + enc_ints(p) + ';' + enc_ints(pc) + ';' +
                       ('true' if ch else 'false'))

                def judge_cn(m0=m0, m=m.copy(), cs=cs.copy(), sym=sym):
                    if (m0 != m).any():
                        return 'center_nodes changed the cluster ids'
                    if sym and any(m[c] != a for a, c in enumerate(cs)):
                        return 'center_nodes moved a centre out of its cluster'
                    return None
                yield ('item', (line, out, 'center_nodes', has_edge, judge_cn(), case))
        # ---- balanced_lloyd_aggregation through the public wrapper: the centres are the replayed permutation
        if t % 2 == 1 or n <= 4:
            measure = ['None', 'unit', 'abs', 'inv', 'min'][int(rng.integers(5))]
            if measure == 'inv':
                ax2 = rng.choice([0.25, 0.5, 1.0, 2.0, 4.0], size=len(ax))
            else:
                ax2 = ax
            ratio = float(rng.choice([0.125, 0.25, 0.5, 0.75, 1.0]))
            maxiter = int(rng.integers(1, 5))
            reb = int(rng.integers(0, 4))
            seed = int(rng.integers(2**31))
            np.random.seed(seed)
            perm = np.random.permutation(n)
            C = sp.csr_array((ax2.copy(), aj.copy(), ap.copy()), shape=(n, n))
            kw = {'ratio': ratio, 'measure': None if measure == 'None' else measure, 'maxiter': maxiter,
                  'rebalance_iters': reb}
            case = {'routine': 'balanced_lloyd_aggregation', 'n': n, 'ap': ap.tolist(), 'aj': aj.tolist(),
                    'ax': [float(v) for v in ax2], 'seed': seed, **kw}
            np.random.seed(seed)
            err = None
            yield ('start', 'balanced_lloyd_aggregation', case)
            with _ArgsortSpy(PG) as spy:
                try:
                    with warnings.catch_warnings():
                        warnings.simplefilter('ignore')
                        with _cpu_limit():
                            AggOp, ce = AG.balanced_lloyd_aggregation(C, **kw)
                    AggOp = sp.csr_array(AggOp)
                    out = enc_ints(AggOp.indptr) + ';' + enc_ints(AggOp.indices) + ';' + enc_ints(AggOp.data) + ';' + enc_ints(ce)
                    res = (AggOp, ce)
                except _Hang:
                    out, res, err = 'hang', None, 'hang'
                except ValueError as ex:
                    msg = str(ex)
                    out = ('ValueError:maxsize' if 'maxsize' in msg else 'ValueError:disconnected' if 'disconnected' in msg
                           else 'ValueError:pc' if 'Predecessor' in msg else 'ValueError')
                    res, err = None, out
                except RuntimeError:
                    out, res, err = 'too-many-iterations', None, 'RuntimeError'
            es, ss = _ords(spy.calls)
            line = (f'ext_c12_ballloyd_agg {measure} {enc_rat(ratio)} {_hdr(n, ap, aj, ax2)} {enc_rat(TOL)} {enc_ints(perm)} '
                    f'{maxiter} {reb} {es} {ss}')
            zero_w = measure == 'min' and len(ax2) > 0      # data - min(data) has a zero: rejected as documented

            def judge_agg(res=res, err=err, n=n, sym=sym, conn=conn, zero_w=zero_w):
                if res is None:
                    if err == 'ValueError':
                        return None if zero_w else 'ValueError for a valid input'
                    if err == 'hang':
                        return 'the call does not terminate (CPU limit)'
                    if sym and conn and not zero_w:
                        return f'{err} on a connected symmetric graph'
                    return None
                if zero_w:
                    return 'a zero-length edge was accepted'
                if not sym:
                    return None     # the property is about symmetric strength graphs
                e = check_aggop(res[0], res[1], n, 'balanced_lloyd')
                if e:
                    return e
                if res[0].toarray().sum(1).min() != 1:
                    return 'a node is left unaggregated'
                return None
            yield ('item', (line, out, 'balanced_lloyd_aggregation', has_edge, judge_agg(), case))
            yield ('feat', 'bal_measure:' + measure)


def _stream_child(gen_fn, wall):
    """run the generator gen_fn() in a forked child and yield its records here; the last record is
    ('__end__', status): None (clean exit), ('signal', n), ('exit', code) or ('timeout',).  A crash of the code under
    test (undefined behaviour in a kernel) then ends the child, not the check."""
    import multiprocessing as mp
    import time
    import traceback
    mpc = mp.get_context('fork')
    pr, pw = mpc.Pipe(duplex=False)

    def work():
        try:
            for rec in gen_fn():
                pw.send(rec)
        except BaseException:
            try:
                pw.send(('__error__', traceback.format_exc()[-2000:]))
            except Exception:
                pass
            os._exit(3)
        pw.close()
        os._exit(0)
    proc = mpc.Process(target=work, daemon=True)
    proc.start()
    pw.close()
    t_end = time.time() + wall
    status = None
    while True:
        left = t_end - time.time()
        if left <= 0 or not pr.poll(left):
            proc.kill()
            status = ('timeout',)
            break
        try:
            rec = pr.recv()
        except EOFError:
            break
        yield rec
    proc.join(30)
    if status is None and proc.exitcode != 0:
        status = ('signal', -proc.exitcode) if (proc.exitcode or 0) < 0 else ('exit', proc.exitcode)
    yield ('__end__', status)


def part_e(ctx, graphs):
    """balanced Lloyd vs the Lean model; the real routines run in a forked child (a kernel crash or a call that does
    not return is reported as a violation on the pending case instead of killing the check)"""
    items, pending = [], None
    rng = ctx.np_rng
    for rec in _stream_child(lambda: _bal_records(rng, graphs), wall=ctx.scale(900, 5400)):
        if rec[0] == 'feat':
            ctx.feat(rec[1])
        elif rec[0] == 'start':
            pending = (rec[1], rec[2])
        elif rec[0] == 'item':
            items.append(rec[1])
            pending = None
        elif rec[0] == '__error__':
            raise RuntimeError('part_e child failed:\n' + rec[1])
        elif rec[0] == '__end__' and rec[1] is not None:
            st = rec[1]
            if pending is not None and st[0] in ('signal', 'timeout'):
                how = f'the interpreter died with signal {st[1]}' if st[0] == 'signal' else 'the call did not return'
                ctx.violation(f'{pending[0]}: {how} (crash / hang inside the routine on this input)', pending[1])
                _BAL_UNSAFE.append(st)
            else:
                raise RuntimeError(f'part_e child ended abnormally: {st}')
    outs = ctx.lean([it[0] for it in items]) if items else []
    for (line, out, what, nontriv, e, case), o in zip(items, outs):
        ctx.case(key=_key(line), nontrivial=nontriv,
                 sample={'request': line[:200], 'model': o[:100], 'impl': out[:100]} if ctx.evaluations % 97 == 0 else None)
        ctx.feat('bal:' + what)
        ctx.feat('bal_outcome:' + (o[:32] if o[:1].isalpha() else 'returns'))
        if o.startswith('unmodelled'):
            ctx.feat('bal:' + o[:40])
        elif o != out:
            ctx.corr(what + ' vs BalLloyd model', case, o, out)
        if e:
            ctx.violation(f'{what}: {e}', case)

def run(ctx):
    if ctx.quick:
        part_a(ctx, list(graph_stream(ctx, 4, 300, 40)))
        # balanced Lloyd (E34) in a forked child BEFORE the in-process callers of the same code (parts b, v): a crash
        # is reported on its input and the later parts skip the routine; the fork leaves the parent's stream untouched
        part_e(ctx, list(graph_stream(ctx, 4, 300, 24)))
        part_b(ctx, list(graph_stream(ctx, 4, 200, 30)))
        part_c(ctx, list(graph_stream(ctx, 4, 300, 40)))     # after a, b: leaves the random streams of parts a, b unchanged
        part_d(ctx, list(graph_stream(ctx, 4, 300, 30)))
        part_v(ctx, list(graph_stream(ctx, 4, 200, 30)))     # part v (values): the random streams of the parts above are unchanged
        part_z(ctx, True)                                    # E56 parts (wrapper model, ...) last, for the same reason
        part_y(ctx)                                          # E59 (generated wrappers vs the real ones on mock objects)
    else:
        part_a(ctx, list(graph_stream(ctx, 6, 5000, 60)))
        part_e(ctx, list(graph_stream(ctx, 5, 4000, 40)))
        part_b(ctx, list(graph_stream(ctx, 5, 3000, 60)))
        part_c(ctx, list(graph_stream(ctx, 5, 5000, 60)))
        part_d(ctx, list(graph_stream(ctx, 5, 4000, 50)))
        part_v(ctx, list(graph_stream(ctx, 5, 2500, 50)))
        part_z(ctx, False)
        part_y(ctx)


def part_y(ctx):
    """extension E59: the Python wrappers standard_aggregation / naive_aggregation / lloyd_aggregation /
    balanced_lloyd_aggregation as GENERATED from the working tree (harness/py2lean3_aggstr.py,
    Generated/PyLogic3_aggstr.lean) vs the real functions executed against mock objects (harness/extpy3_aggstr.py):
    result, exception class and the whole trace (measure table, real part, kernel / clustering calls, assembly of AggOp
    with its explicit shape) compared exactly"""
    import extpy3_aggstr
    extpy3_aggstr.part_aggregate(ctx, ctx.scale(80, 3000))


def part_z(ctx, quick, deep=False):
    """extension E56: the pairwise WRAPPER vs the composed Lean model (harness/c12z_wrap.py); lloyd_aggregation on
    complex values / stored zeros under measure=inv vs the Lean model (harness/c12z_meas.py); every Bellman-Ford pass of
    the real balanced_lloyd_cluster vs the conclusion `Final` of the every-pass theorems (harness/c12z_bal.py)"""
    from c12z_wrap import part_w
    from c12z_meas import part_m
    from c12z_bal import part_p
    defer = []
    if deep:
        sizes = ((4, 1500, 30),) * 3
    elif quick:
        sizes = ((3, 50, 14), (3, 60, 14), (3, 60, 16))
    else:
        sizes = ((4, 3000, 40),) * 3
    for fn, sz in zip((part_w, part_m, part_p), sizes):
        fn(ctx, list(graph_stream(ctx, *sz)), defer)
    # one batch through the Lean driver for the three parts
    outs = ctx.lean([ln for lines, _ in defer for ln in lines])
    pos = 0
    for lines, finish in defer:
        finish(outs[pos:pos + len(lines)])
        pos += len(lines)


def search(ctx):
    part_e(ctx, list(graph_stream(ctx, 5, 1500, 40)))
    part_b(ctx, list(graph_stream(ctx, 5, 1500, 40)))
    part_c(ctx, list(graph_stream(ctx, 5, 1500, 40)))
    part_d(ctx, list(graph_stream(ctx, 5, 1500, 40)))
    part_v(ctx, list(graph_stream(ctx, 5, 1500, 40)))
    part_z(ctx, False, deep=True)


def replay_bal(ctx, c):
    def real():
        from pyamg import amg_core
        from pyamg import graph as PG
        from pyamg.aggregation import aggregate as AG
        import warnings
        n = int(c['n'])
        ap, aj = np.array(c['ap'], dtype=np.int32), np.array(c['aj'], dtype=np.int32)
        ax = np.array(c['ax'], dtype=np.float64)
        if c['routine'] == 'balanced_lloyd_cluster':
            line, out, res, err, _ = bal_cluster_item(n, ap, aj, ax, np.array(c['centers'], dtype=np.int32), int(c['maxiter']),
                                                      int(c['reb']), bool(c['tb']))
            if res is not None and int(c['maxiter']) >= 1:
                e = bal_cluster_spec_error(n, res[0], res[1], len(c['centers']))
                if e:
                    print('  specification:', e)
        elif c['routine'] == 'center_nodes':
            cs = np.array(c['centers'], dtype=np.int32)
            kk = len(cs)
            maxsize = int(12 * np.ceil(n / kk))
            d = np.full(n, np.inf)
            m = np.full(n, -1, dtype=np.int32)
            p = np.full(n, -1, dtype=np.int32)
            pc = np.zeros(n, dtype=np.int32)
            s = np.ones(kk, dtype=np.int32)
            d[cs] = 0
            m[cs] = np.arange(kk)
            p[cs] = cs
            pc[cs] = 1
            amg_core.bellman_ford_balanced(n, ap, aj, ax, cs, d, m, p, pc, s, True)
            line = (f'ext_c12_center_nodes {_hdr(n, ap, aj, ax)} {enc_rat(TOL)} {maxsize} {enc_ints(cs)} {_orats(d)} '
                    f'{enc_ints(m)} {enc_ints(p)} {enc_ints(pc)} {enc_ints(s)}')
            ch = amg_core.center_nodes(n, ap, aj, ax, np.zeros(kk, dtype=np.int32), np.zeros(maxsize * maxsize),
                                       np.zeros(maxsize * maxsize, dtype=np.int32), np.zeros(n, dtype=np.int32),
                                       np.zeros(n, dtype=np.int32), np.zeros(maxsize), cs, d, m, p, pc, s)
            out = enc_ints(cs) + ';' + _orats(d) + ';' + enc_ints(p) + ';' + enc_ints(pc) + ';' + ('true' if ch else 'false')
        else:
            np.random.seed(int(c['seed']))
            perm = np.random.permutation(n)
            np.random.seed(int(c['seed']))
            C = sp.csr_array((ax.copy(), aj.copy(), ap.copy()), shape=(n, n))
            ms = 'None' if c['measure'] is None else c['measure']
            with _ArgsortSpy(PG) as spy:
                try:
                    with warnings.catch_warnings():
                        warnings.simplefilter('ignore')
                        with _cpu_limit():
                            AggOp, ce = AG.balanced_lloyd_aggregation(C, ratio=c['ratio'], measure=c['measure'],
                                                                      maxiter=int(c['maxiter']),
                                                                      rebalance_iters=int(c['rebalance_iters']))
                    AggOp = sp.csr_array(AggOp)
                    out = enc_ints(AggOp.indptr) + ';' + enc_ints(AggOp.indices) + ';' + enc_ints(AggOp.data) + ';' + enc_ints(ce)
                    e = check_aggop(AggOp, ce, n, 'balanced_lloyd')
                    if e:
                        print('  specification:', e)
                except ValueError as ex:
                    msg = str(ex)
                    out = ('ValueError:maxsize' if 'maxsize' in msg else 'ValueError:disconnected' if 'disconnected' in msg
                           else 'ValueError:pc' if 'Predecessor' in msg else 'ValueError')
                except RuntimeError:
                    out = 'too-many-iterations'
                except _Hang:
                    out = 'hang'
            es, ss = _ords(spy.calls)
            line = (f'ext_c12_ballloyd_agg {ms} {enc_rat(c["ratio"])} {_hdr(n, ap, aj, ax)} {enc_rat(TOL)} {enc_ints(perm)} '
                    f'{int(c["maxiter"])} {int(c["rebalance_iters"])} {es} {ss}')
        yield ('res', line, out)
    line = out = None
    for rec in _stream_child(real, wall=600):
        if rec[0] == 'res':
            line, out = rec[1], rec[2]
        elif rec[0] == '__error__':
            raise RuntimeError('replay child failed:\n' + rec[1])
        elif rec[0] == '__end__' and rec[1] is not None:
            print('replaying', c['routine'], ': the routine crashed / did not return in the child process:', rec[1])
            ctx.violation(f"{c['routine']}: crash / hang inside the routine ({rec[1]})", c)
            return
    o = ctx.lean([line])[0]
    print('replaying', c['routine'], ': model =', o[:200], '| implementation =', out[:200])
    if o != out and not o.startswith('unmodelled'):
        ctx.corr(c['routine'] + ' vs BalLloyd model', c, o, out)


def replay_lloyd(ctx, c):
    from pyamg import amg_core
    from pyamg.aggregation import aggregate as AG
    n = int(c['n'])
    ap, aj = np.array(c['ap'], dtype=np.int32), np.array(c['aj'], dtype=np.int32)
    ax = np.array(c['ax'], dtype=np.float64)
    if c['routine'] == 'lloyd_cluster':
        line, out, res = lloyd_cluster_item(n, ap, aj, ax, np.array(c['centers'], dtype=np.int32), int(c['maxiter']))
    elif c['routine'] == 'most_interior':
        cc, m, p = (np.array(c[k], dtype=np.int32) for k in ('c', 'm', 'p'))
        d = np.zeros(n)
        line = f'ext_c12_most_interior {_hdr(n, ap, aj, ax)} {enc_ints(cc)} {enc_ints(m)} {enc_ints(p)}'
        ch = amg_core.most_interior_nodes(n, ap, aj, ax, cc, d, m, p)
        out = enc_ints(cc) + ';' + _orats(d) + ';' + enc_ints(m) + ';' + enc_ints(p) + ';' + ('true' if ch else 'false')
    else:
        np.random.seed(int(c['seed']))
        perm = np.random.permutation(n)
        np.random.seed(int(c['seed']))
        C = sp.csr_array((ax.copy(), aj.copy(), ap.copy()), shape=(n, n))
        ms = 'None' if c['measure'] is None else c['measure']
        line = f'ext_c12_lloyd_agg {ms} {enc_rat(c["ratio"])} {_hdr(n, ap, aj, ax)} {enc_ints(perm)} {int(c["maxiter"])}'
        try:
            AggOp, ce = AG.lloyd_aggregation(C, ratio=c['ratio'], measure=c['measure'], maxiter=int(c['maxiter']))
            AggOp = sp.csr_array(AggOp)
            out = enc_ints(AggOp.indptr) + ';' + enc_ints(AggOp.indices) + ';' + enc_ints(AggOp.data) + ';' + enc_ints(ce)
        except ValueError:
            out = 'ValueError'
    o = ctx.lean([line])[0]
    print('replaying', c['routine'], ': model =', o[:200], '| implementation =', out[:200])
    if o != out:
        ctx.corr(c['routine'] + ' vs ExtLloyd model', c, o, out)


def replay(ctx, data):
    c = data['case']
    if c.get('routine') == 'pairwise_kernel':
        from pyamg import amg_core
        n = int(c['n'])
        ap, aj = np.array(c['ap'], dtype=np.int32), np.array(c['aj'], dtype=np.int32)
        ax = np.array(c['ax'], dtype=np.float64)
        x = np.full(n, -77, dtype=np.int32)
        y = np.full(n, -7, dtype=np.int32)
        k = amg_core.pairwise_aggregation(n, ap, aj, ax, x, y)
        print('replaying pairwise kernel: x =', x.tolist(), 'y =', y[:k].tolist(), 'k =', k)
        compare_pairwise_calls(ctx, [(n, ap, aj, ax, x, y, int(k), 'raw')])
        for v in ctx.violations[:5]:
            print('  ', v['what'])
        return
    if c.get('routine') == 'balanced_lloyd_every_pass':
        from c12z_bal import replay_p
        replay_p(ctx, c)
        for v in ctx.violations[:5]:
            print('  ', v['what'])
        return
    if c.get('routine') == 'lloyd_aggregation_values':
        from c12z_meas import replay_m
        replay_m(ctx, c)
        for v in ctx.violations[:5]:
            print('  ', v['what'])
        return
    if c.get('routine') == 'pairwise_wrapper':
        from c12z_wrap import replay_w
        replay_w(ctx, c)
        for v in ctx.violations[:5]:
            print('  ', v['what'])
        return
    if str(c.get('routine', '')).startswith('values:'):
        calls = []
        res = values_case(ctx, c, calls)
        print('replaying', c['routine'], {k: v for k, v in c.items() if k not in ('ap', 'aj', 're', 'im')}, '->', res['err'] or 'holds')
        if res['err']:
            ctx.violation(f'{c["routine"]}: {res["err"]}', c, fkey=res['fkey'])
        compare_pairwise_calls(ctx, calls)
        return
    if c.get('routine') in ('balanced_lloyd_cluster', 'center_nodes', 'balanced_lloyd_aggregation'):
        replay_bal(ctx, c)
        for v in ctx.violations[:5]:
            print('  ', v['what'])
        return
    if c.get('routine') in ('lloyd_cluster', 'most_interior', 'lloyd_aggregation'):
        replay_lloyd(ctx, c)
        for v in ctx.violations[:5]:
            print('  ', v['what'])
        return
    M = np.array(data['case']['M'])
    print('replaying on graph', M.tolist())
    for t in (0, 1, 2, 3):
        part_b(ctx, [(M, 'replay')] * (t + 1))
    for v in ctx.violations[:5]:
        print('  ', v['what'])
