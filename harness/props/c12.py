"""C12 -- aggregation routines return valid partitions of the strength graph.

correspondence : standard_aggregation / naive_aggregation kernels (rebuilt from the working tree) vs
                 both Lean definitions (array model Model/KGraph.lean and the proof-side model the
                 theorems are stated about), exact; pairwise_aggregation kernel vs the executable
                 model `ExtPw.pairwise` (op `ext_pairwise`, the definition the refinement theorem is
                 about) on weighted patterns (ties, isolated nodes, nonsymmetric / unsorted /
                 duplicate entries, explicit zeros) and on every kernel call the public wrapper
                 makes (recorded), exact on x, y[:k], k.
search         : public routines of pyamg/aggregation/aggregate.py (standard, naive, pairwise with
                 1..3 matchings, Lloyd, balanced Lloyd) judged by the partition specification; the
                 pairwise wrapper's T and Cpts must be the composition of its recorded matchings.
"""
import hashlib

import numpy as np
import scipy.sparse as sp
from scipy.sparse import csgraph

import gen
from common import enc_ints, enc_rats

META = {
    'rule': 'graphs: every labelled graph on <= 4 (quick) / <= 6 (thorough) vertices with and without self loops, plus seeded '
            'structured random graphs up to n = 60 (paths, stars, cycles, cliques, isolated pairs, grids, two components); '
            'non-trivial = the graph has an edge; distinct = distinct (routine, graph, parameters)',
    'search_only': ['Lloyd / balanced Lloyd: specification checkers on the real outputs',
                    'pairwise wrapper: strength matrices and Galerkin products between matchings are not modelled; every kernel '
                    'call the wrapper makes is compared with the Lean kernel model, and T / Cpts with the composition of the '
                    'recorded assignment maps (the object of pairwise_matchings_fiber)'],
    'partial': ['lloyd: only "every node that reaches a centre is assigned" is checked'],
    'assumptions': [],
}


def _key(*a):
    return hashlib.sha1(repr(a).encode()).hexdigest()


def _csr(M, dtype=float):
    return gen.int32csr(sp.csr_array(np.array(M, dtype=dtype)))


def graph_stream(ctx, nmax_exh, n_rand, nmax_rand):
    for n in range(1, nmax_exh + 1):
        for loops in (False, True):
            for M in gen.all_graphs(n, self_loops=loops):
                yield M, f'all{n}' + ('L' if loops else '')
    rng = ctx.np_rng
    for t in range(n_rand):
        n = int(rng.integers(1, nmax_rand + 1))
        M, kind = gen.rand_graph(rng, n)
        if t % 3 == 0:
            M = M + np.eye(n, dtype=int)
        yield M, kind


def part_a(ctx, graphs):
    from pyamg import amg_core
    items = []
    for M, kind in graphs:
        M = np.array(M)
        n = M.shape[0]
        G = _csr((M != 0).astype(float))
        ap, aj = G.indptr, G.indices
        hdr = f'{n} {enc_ints(ap)} {enc_ints(aj)}'
        has_edge = bool((M - np.diag(np.diag(M))).any())
        x = np.full(n, -77, dtype=np.int32)
        y = np.full(n, -7, dtype=np.int32)
        k = amg_core.standard_aggregation(n, ap, aj, x, y)
        out = enc_ints(x) + ';' + enc_ints(y[:k]) + ';' + str(k)
        items.append(('std_agg ' + hdr, out, 'standard', kind, has_edge))
        items.append(('p_std_agg ' + hdr, out, 'p_standard', kind, has_edge))
        x = np.full(n, -77, dtype=np.int32)
        y = np.full(n, -7, dtype=np.int32)
        k = amg_core.naive_aggregation(n, ap, aj, x, y)
        out = enc_ints(x) + ';' + enc_ints(y[:k]) + ';' + str(k)
        items.append(('naive_agg ' + hdr, out, 'naive', kind, has_edge))
        items.append(('p_naive_agg ' + hdr, out, 'p_naive', kind, has_edge))
    outs = ctx.lean([it[0] for it in items])
    for (line, out, what, kind, has_edge), o in zip(items, outs):
        ctx.case(key=_key(line), nontrivial=has_edge, sample={'request': line[:200], 'model': o[:100], 'impl': out[:100]})
        ctx.feat('kernel:' + what)
        ctx.feat('graph:' + kind)
        if o != out:
            ctx.corr('kernel ' + what, {'line': line}, o, out)


def pairwise_spec_error(n, x, y, k):
    """independent statement of the matching-type aggregation spec on a raw kernel output"""
    x = [int(v) for v in x]
    y = [int(v) for v in y]
    if k < 0 or k > n or len(y) < k:
        return f'k = {k} aggregates for {n} nodes'
    if any(not (1 <= v <= k) for v in x):
        return f'node {next(i for i, v in enumerate(x) if not (1 <= v <= k))} has id outside 1..{k}'
    for a in range(1, k + 1):
        mem = [i for i, v in enumerate(x) if v == a]
        if not (1 <= len(mem) <= 2):
            return f'aggregate {a} has {len(mem)} nodes'
        if not (0 <= y[a - 1] < n) or x[y[a - 1]] != a:
            return f'root {y[a - 1]} is not in aggregate {a}'
    return None


def weighted_patterns(rng, M, t):
    """CSR triples (ap, aj, ax) on the graph M: symmetric / nonsymmetric weights and patterns, ties,
    explicit zeros and negative weights, unsorted rows with duplicate entries"""
    M = np.array(M)
    n = M.shape[0]
    pat = M != 0
    mode = t % 6
    if mode == 0:       # unit weights: every comparison is a tie
        W = np.ones((n, n))
    elif mode == 1:     # symmetric small weights (many ties)
        W = rng.choice([0.5, 1.0, 1.0, 2.0, 3.0], size=(n, n))
        W = np.triu(W) + np.triu(W, 1).T
    elif mode == 2:     # nonsymmetric weights incl. zero and negative values
        W = rng.choice([-2.0, -1.0, -0.5, 0.0, 0.25, 1.0, 1.0, 3.0], size=(n, n))
    elif mode == 3:     # nonsymmetric pattern: drop entries
        W = rng.choice([1.0, 2.0], size=(n, n))
        pat = pat & (rng.random((n, n)) < 0.7)
    elif mode == 4:     # generic floats (exact dyadic rationals on the Lean side)
        W = rng.standard_normal((n, n))
    else:               # rows of isolated nodes emptied (their columns stay: nonsymmetric)
        W = rng.choice([1.0, 1.0, 4.0], size=(n, n))
        pat = pat & ~(rng.random(n) < 0.3)[:, None]
    ap, aj, ax = [0], [], []
    for i in range(n):
        cols = [int(c) for c in np.nonzero(pat[i])[0]]
        if t % 5 == 3 and n:
            cols += [int(c) for c in rng.integers(0, n, size=int(rng.integers(0, 3)))]
            rng.shuffle(cols)
        for c in cols:
            aj.append(c)
            ax.append(float(W[i, c]))
        ap.append(len(aj))
    return (np.array(ap, dtype=np.int32), np.array(aj, dtype=np.int32), np.array(ax, dtype=np.float64),
            ('unit', 'symw', 'nonsymw', 'nonsympat', 'float', 'emptyrows')[mode] + ('+dup' if t % 5 == 3 else ''))


def compare_pairwise_calls(ctx, calls):
    """calls: (n, ap, aj, ax, x, y, k, origin) of the REAL kernel; compare with the Lean kernel model"""
    lines = [f'ext_pairwise {n} {enc_ints(ap)} {enc_ints(aj)} {enc_rats(ax)}' for (n, ap, aj, ax, x, y, k, o) in calls]
    outs = ctx.lean(lines) if lines else []
    for (n, ap, aj, ax, x, y, k, origin), line, o in zip(calls, lines, outs):
        impl = enc_ints(x) + ';' + enc_ints(y[:max(k, 0)]) + ';' + str(k)
        offd = bool((np.repeat(np.arange(n), np.diff(ap)) != aj).any()) if n else False
        ctx.case(key=_key(line), nontrivial=offd, sample={'request': line[:200], 'model': o[:100], 'impl': impl[:100]})
        ctx.feat('kernel:pairwise:' + origin)
        if o != impl:
            case = {'n': n, 'ap': [int(v) for v in ap], 'aj': [int(v) for v in aj], 'ax': [float(v) for v in ax],
                    'routine': 'pairwise_kernel'}
            ctx.corr('kernel pairwise (' + origin + ')', case, o, impl)
            e = pairwise_spec_error(n, x, y, k)
            if e:
                ctx.violation(f'pairwise_aggregation kernel: {e}', case)


def part_c(ctx, graphs):
    """raw pairwise kernel vs `ext_pairwise`"""
    from pyamg import amg_core
    rng = ctx.np_rng
    calls = []
    for t, (M, kind) in enumerate(graphs):
        n = np.array(M).shape[0]
        for r in range(2):
            ap, aj, ax, wk = weighted_patterns(rng, M, 2 * t + r)
            x = np.full(n, -77, dtype=np.int32)
            y = np.full(n, -7, dtype=np.int32)
            k = amg_core.pairwise_aggregation(n, ap, aj, ax, x, y)
            ctx.feat('weights:' + wk)
            calls.append((n, ap, aj, ax, x, y, int(k), 'raw'))
    compare_pairwise_calls(ctx, calls)


class _PairwiseSpy:
    """records every kernel call made by pyamg.aggregation.aggregate.pairwise_aggregation"""

    def __init__(self, AG):
        self.AG, self.calls = AG, []

    def __enter__(self):
        self.orig = self.AG.amg_core.pairwise_aggregation
        spy = self

        def rec(n, ap, aj, ax, x, y):
            k = spy.orig(n, ap, aj, ax, x, y)
            spy.calls.append((int(n), np.array(ap), np.array(aj), np.array(ax, dtype=np.float64),
                              np.array(x), np.array(y), int(k), 'wrapper'))
            return k
        self.AG.amg_core.pairwise_aggregation = rec
        return self

    def __exit__(self, *a):
        self.AG.amg_core.pairwise_aggregation = self.orig
        return False


def composition_error(calls, T, roots, n):
    """T and Cpts of the wrapper = composition of the recorded assignment maps x-1 / roots"""
    if not calls:
        return 'the wrapper made no kernel call'
    F = np.arange(n)
    R = None
    for (m, ap, aj, ax, x, y, k, _o) in calls:
        if k == 0:
            return None     # degenerate n = 0 level: nothing to compose
        if F.size and F.max() >= m:
            return f'matching on {m} nodes follows a level with {int(F.max()) + 1} aggregates'
        F = (x.astype(int) - 1)[F]
        R = y[:k].astype(int) if R is None else R[y[:k].astype(int)]
    D = sp.csr_array(T).toarray()
    E = np.zeros((n, calls[-1][6]), dtype=int)
    E[np.arange(n), F] = 1
    if D.shape != E.shape or (D != E).any():
        return 'T is not the composition of the matchings computed by the kernel'
    if [int(r) for r in roots] != [int(r) for r in R]:
        return 'Cpts is not the composition of the roots computed by the kernel'
    return None


def check_aggop(AggOp, roots, n, name):
    """common contract: 0/1 matrix, <= 1 aggregate per node, no empty aggregate, distinct roots inside"""
    if sp.issparse(AggOp) and AggOp.format in ('csr', 'bsr', 'csc'):
        idx, ptr = np.asarray(AggOp.indices), np.asarray(AggOp.indptr)
        minor = AggOp.shape[1] if AggOp.format != 'csc' else AggOp.shape[0]
        if AggOp.format == 'bsr':
            minor //= AggOp.blocksize[1]
        if len(ptr) == 0 or ptr[0] != 0 or (np.diff(ptr) < 0).any() or ptr[-1] > len(idx) or \
                (len(idx) and (idx[:ptr[-1]].min() < 0 or idx[:ptr[-1]].max() >= minor)):
            bad = [int(v) for v in idx[:ptr[-1]] if v < 0 or v >= minor][:3]
            return f'AggOp has invalid index arrays (aggregate ids {bad} outside 0..{minor - 1})'
    A = sp.csr_array(AggOp)
    if A.shape[0] != n:
        return f'AggOp has {A.shape[0]} rows for {n} nodes'
    D = A.toarray()
    if not np.isin(D, (0, 1)).all():
        return 'AggOp has entries other than 0/1'
    if (D.sum(1) > 1).any():
        return f'node {int(np.argmax(D.sum(1) > 1))} belongs to several aggregates'
    if (D.sum(0) == 0).any():
        return f'aggregate {int(np.argmax(D.sum(0) == 0))} is empty'
    if roots is not None:
        roots = [int(r) for r in roots]
        if len(roots) != D.shape[1]:
            return f'{len(roots)} roots for {D.shape[1]} aggregates'
        if len(set(roots)) != len(roots):
            return 'root nodes are not distinct'
        for k, r in enumerate(roots):
            if not (0 <= r < n) or D[r, k] != 1:
                return f'root {r} is not in the aggregate {k} it names'
    return None


def part_b(ctx, graphs):
    from pyamg.aggregation import aggregate as AG
    rng = ctx.np_rng
    wrapper_calls = []
    for t, (M, kind) in enumerate(graphs):
        M = np.array(M)
        n = M.shape[0]
        off = (M - np.diag(np.diag(M))) != 0
        has_edge = bool(off.any())
        S = _csr((M != 0).astype(float))
        case0 = {'M': M.tolist()}

        def reg(name, **kw):
            ctx.case(key=_key(name, M.tobytes(), sorted(kw.items())), nontrivial=has_edge,
                     sample={'routine': name, 'n': n, 'graph': kind, **kw} if ctx.evaluations % 499 == 0 else None)
            ctx.feat('api:' + name)

        def viol(what, fkey=None, **extra):
            ctx.violation(what, {**case0, **extra}, fkey=fkey)
        deg = off.sum(1)
        # ---- standard
        reg('standard')
        try:
            AggOp, roots = AG.standard_aggregation(S)
            e = check_aggop(AggOp, roots, n, 'standard')
            if e:
                # finding #13: no off-diagonal entry at all -> (n x 1) zero matrix = one empty aggregate (deliberate API)
                fk = 'std-agg-no-edges' if (not has_edge and AggOp.shape == (n, 1) and AggOp.nnz == 0) else None
                viol(f'standard_aggregation: {e}', fkey=fk, routine='standard')
            else:
                D = sp.csr_array(AggOp).toarray()
                agg_of = np.where(D.sum(1) > 0, D.argmax(1), -1)
                for i in range(n):
                    if (agg_of[i] == -1) != (deg[i] == 0):
                        viol(f'standard_aggregation: node {i} with {int(deg[i])} off-diagonal connections is '
                             f'{"un" if agg_of[i] == -1 else ""}aggregated', routine='standard')
                        break
                else:
                    for k in range(D.shape[1]):
                        mem = np.nonzero(D[:, k])[0]
                        sub = off[np.ix_(mem, mem)]
                        nc, _ = csgraph.connected_components(sp.csr_array(sub.astype(int)), directed=False)
                        if nc != 1:
                            viol(f'standard_aggregation: aggregate {k} = {mem.tolist()} is not connected', routine='standard')
                            break
        except Exception as ex:
            viol(f'standard_aggregation raised {type(ex).__name__}: {ex}', routine='standard')
        # ---- naive
        reg('naive')
        try:
            AggOp, roots = AG.naive_aggregation(S)
            e = check_aggop(AggOp, roots, n, 'naive')
            if not e and sp.csr_array(AggOp).toarray().sum(1).min() != 1:
                e = 'a node is left unaggregated'
            if e:
                viol(f'naive_aggregation: {e}', routine='naive')
        except Exception as ex:
            viol(f'naive_aggregation raised {type(ex).__name__}: {ex}', routine='naive')
        # ---- pairwise on an M-matrix with this graph (sometimes nonsymmetric weights)
        if n >= 1 and t % 2 == 0:
            W = off * rng.integers(1, 5, size=(n, n)).astype(float)
            if t % 4 == 0:
                W = np.triu(W, 1) + np.triu(W, 1).T
            A = np.diag(W.sum(1) + rng.integers(0, 2, size=n) + (W.sum(1) == 0)) - W
            Acsr = _csr(A)
            matchings = int(rng.integers(1, 4))
            theta = float(rng.choice([0.0, 0.25, 0.5]))
            norm = str(rng.choice(['min', 'abs']))
            reg('pairwise', matchings=matchings, theta=theta, norm=norm)
            try:
                with _PairwiseSpy(AG) as spy:
                    T, roots = AG.pairwise_aggregation(Acsr, matchings=matchings, theta=theta, norm=norm)
                wrapper_calls.extend(spy.calls)
                e = check_aggop(T, roots, n, 'pairwise')
                if not e:
                    D = sp.csr_array(T).toarray()
                    if D.sum(1).min() != 1:
                        e = 'a node is left unaggregated'
                    elif D.sum(0).max() > 2 ** matchings:
                        e = f'an aggregate has {int(D.sum(0).max())} > 2^{matchings} nodes'
                if e:
                    viol(f'pairwise_aggregation(matchings={matchings}, theta={theta}, norm={norm}): {e}',
                         routine='pairwise', A=A.tolist(), matchings=matchings, theta=theta, norm=norm)
                else:
                    # the partition itself was judged above; this ties T / Cpts to the composed assignment maps
                    ce = composition_error(spy.calls, T, roots, n)
                    ctx.feat(f'pairwise_levels:{len(spy.calls)}')
                    if ce:
                        ctx.corr('pairwise wrapper composition', {**case0, 'A': A.tolist(), 'matchings': matchings,
                                                                  'theta': theta, 'norm': norm},
                                 'composition of the recorded matchings', ce)
            except Exception as ex:
                viol(f'pairwise_aggregation raised {type(ex).__name__}: {ex}', routine='pairwise', A=A.tolist(),
                     matchings=matchings, theta=theta, norm=norm)
        # ---- Lloyd: every node that can reach a centre is assigned
        if n >= 2 and t % 3 == 0:
            if t % 12 == 0:
                # many isolated nodes (more requested centres than nodes with an edge is then likely)
                iso = rng.random(n) < 0.6
                off = off & ~iso[:, None] & ~iso[None, :]
            W = np.triu(off, 1) * rng.choice([0.5, 1.0, 2.0], size=(n, n))
            W = W + W.T
            C = _csr(W)
            ratio = float(rng.choice([0.1, 0.3, 0.6, 0.9, 1.0]))
            measure = [None, 'unit', 'abs', 'inv', 'min'][int(rng.integers(5))]
            if t % 9 == 0 and C.nnz and measure in (None, 'abs', 'min'):
                C.data[rng.integers(C.nnz)] = 0.0       # an explicitly stored zero-length edge
            maxiter = int(rng.integers(1, 5))
            for nm, fn, kw in (('lloyd', AG.lloyd_aggregation, {'ratio': ratio, 'measure': measure, 'maxiter': maxiter}),
                               ('balanced_lloyd', AG.balanced_lloyd_aggregation, {'ratio': ratio, 'measure': measure, 'maxiter': maxiter})):
                reg(nm, **kw)
                np.random.seed(int(rng.integers(2**31)))
                try:
                    AggOp, centers = fn(C, **kw)
                    e = check_aggop(AggOp, None, n, nm)
                    D = sp.csr_array(AggOp).toarray()
                    if not e:
                        centers = [int(c) for c in centers]
                        if len(set(centers)) != len(centers):
                            e = 'centres are not distinct'
                        elif any(D[c, k] != 1 for k, c in enumerate(centers)):
                            e = 'a centre is not in the aggregate it names'
                        else:
                            _, lab = csgraph.connected_components(sp.csr_array(off.astype(int)), directed=False)
                            ok_comp = {lab[c] for c in centers}
                            for i in range(n):
                                if (lab[i] in ok_comp) != (D[i].sum() == 1):
                                    e = (f'node {i} can{"" if lab[i] in ok_comp else "not"} reach a centre but is '
                                         f'{"un" if D[i].sum() == 0 else ""}assigned')
                                    break
                    if e:
                        viol(f'{nm}_aggregation({kw}): {e}', routine=nm, W=W.tolist(), **kw)
                except ValueError as ex:
                    if nm == 'balanced_lloyd' and ('disconnected' in str(ex) or 'maxsize' in str(ex) or 'positive weights' in str(ex)):
                        ctx.feat('balanced_lloyd_rejects_input')   # explicit ValueError refusal (disconnected graph / maxsize too small), not a wrong partition
                    else:
                        viol(f'{nm}_aggregation({kw}) raised {type(ex).__name__}: {ex}', routine=nm, W=W.tolist(), **kw)
                except Exception as ex:
                    viol(f'{nm}_aggregation({kw}) raised {type(ex).__name__}: {ex}', routine=nm, W=W.tolist(), **kw)
    compare_pairwise_calls(ctx, wrapper_calls)


def run(ctx):
    if ctx.quick:
        part_a(ctx, list(graph_stream(ctx, 4, 300, 40)))
        part_b(ctx, list(graph_stream(ctx, 4, 200, 30)))
        part_c(ctx, list(graph_stream(ctx, 4, 300, 40)))     # last: leaves the random streams of parts a, b unchanged
    else:
        part_a(ctx, list(graph_stream(ctx, 6, 5000, 60)))
        part_b(ctx, list(graph_stream(ctx, 5, 3000, 60)))
        part_c(ctx, list(graph_stream(ctx, 5, 5000, 60)))


def search(ctx):
    part_b(ctx, list(graph_stream(ctx, 5, 1500, 40)))
    part_c(ctx, list(graph_stream(ctx, 5, 1500, 40)))


def replay(ctx, data):
    c = data['case']
    if c.get('routine') == 'pairwise_kernel':
        from pyamg import amg_core
        n = int(c['n'])
        ap, aj = np.array(c['ap'], dtype=np.int32), np.array(c['aj'], dtype=np.int32)
        ax = np.array(c['ax'], dtype=np.float64)
        x = np.full(n, -77, dtype=np.int32)
        y = np.full(n, -7, dtype=np.int32)
        k = amg_core.pairwise_aggregation(n, ap, aj, ax, x, y)
        print('replaying pairwise kernel: x =', x.tolist(), 'y =', y[:k].tolist(), 'k =', k)
        compare_pairwise_calls(ctx, [(n, ap, aj, ax, x, y, int(k), 'raw')])
        for v in ctx.violations[:5]:
            print('  ', v['what'])
        return
    M = np.array(data['case']['M'])
    print('replaying on graph', M.tolist())
    for t in (0, 1, 2, 3):
        part_b(ctx, [(M, 'replay')] * (t + 1))
    for v in ctx.violations[:5]:
        print('  ', v['what'])
