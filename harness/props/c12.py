"""C12 -- aggregation routines return valid partitions of the strength graph.

correspondence : standard_aggregation / naive_aggregation kernels (rebuilt from the working tree) vs
                 both Lean definitions (array model Model/KGraph.lean and the proof-side model the
                 theorems are stated about), exact; pairwise_aggregation kernel vs the executable
                 model `ExtPw.pairwise` (op `ext_pairwise`, the definition the refinement theorem is
                 about) on weighted patterns (ties, isolated nodes, nonsymmetric / unsorted /
                 duplicate entries, explicit zeros) and on every kernel call the public wrapper
                 makes (recorded), exact on x, y[:k], k.
                 Lloyd (part d): `lloyd_cluster` with explicit centres, `lloyd_aggregation` through the public
                 wrapper with the replayed `numpy.random.permutation`, and the raw `most_interior_nodes` kernel vs
                 `ExtLloyd.lloydCluster` / `lloydAggregation` / `mostInterior` (ops `ext_c12_lloyd`, `ext_c12_lloyd_agg`,
                 `ext_c12_most_interior`), exact on clusters, centres, AggOp CSR arrays, ValueError rejections;
                 symmetric and nonsymmetric patterns, ties, zero-length edges, duplicate entries / centres.
search         : public routines of pyamg/aggregation/aggregate.py (standard, naive, pairwise with
                 1..3 matchings, Lloyd, balanced Lloyd) judged by the partition specification; the
                 pairwise wrapper's T and Cpts must be the composition of its recorded matchings.
"""
import hashlib

import numpy as np
import scipy.sparse as sp
from scipy.sparse import csgraph

import gen
from common import enc_ints, enc_rats, enc_rat

META = {
    'rule': 'graphs: every labelled graph on <= 4 (quick) / <= 6 (thorough) vertices with and without self loops, plus seeded '
            'structured random graphs up to n = 60 (paths, stars, cycles, cliques, isolated pairs, grids, two components); '
            'non-trivial = the graph has an edge; distinct = distinct (routine, graph, parameters); Lloyd part: the same graph '
            'streams with small dyadic weights, 1..4 centres, maxiter 0..5, all five measures',
    'search_only': ['balanced Lloyd: specification checkers on the real outputs (no Lean model)',
                    'Lloyd: np.random.permutation itself is replayed, not modelled; complex strength values and measure=inv '
                    'with a stored zero (1/0 = inf) are outside the model (judged by the specification checker only)',
                    'pairwise wrapper: strength matrices and Galerkin products between matchings are not modelled; every kernel '
                    'call the wrapper makes is compared with the Lean kernel model, and T / Cpts with the composition of the '
                    'recorded assignment maps (the object of pairwise_matchings_fiber)'],
    'partial': [],
    'assumptions': ['Lloyd theorems (lloyd_cluster_spec, lloyd_aggregation_spec): symmetric sparsity pattern, column indices in '
                    'range, weights non-negative after the measure, distinct initial centres, maxiter >= 1; Lloyd exact comparison: '
                    'small dyadic weights (path sums exact in binary64), dyadic ratio, powers of two for measure=inv'],
}


def _key(*a):
    return hashlib.sha1(repr(a).encode()).hexdigest()


def _csr(M, dtype=float):
    return gen.int32csr(sp.csr_array(np.array(M, dtype=dtype)))


def graph_stream(ctx, nmax_exh, n_rand, nmax_rand):
    for n in range(1, nmax_exh + 1):
        for loops in (False, True):
            for M in gen.all_graphs(n, self_loops=loops):
                yield M, f'all{n}' + ('L' if loops else '')
    rng = ctx.np_rng
    for t in range(n_rand):
        n = int(rng.integers(1, nmax_rand + 1))
        M, kind = gen.rand_graph(rng, n)
        if t % 3 == 0:
            M = M + np.eye(n, dtype=int)
        yield M, kind


def part_a(ctx, graphs):
    from pyamg import amg_core
    items = []
    for M, kind in graphs:
        M = np.array(M)
        n = M.shape[0]
        G = _csr((M != 0).astype(float))
        ap, aj = G.indptr, G.indices
        hdr = f'{n} {enc_ints(ap)} {enc_ints(aj)}'
        has_edge = bool((M - np.diag(np.diag(M))).any())
        x = np.full(n, -77, dtype=np.int32)
        y = np.full(n, -7, dtype=np.int32)
        k = amg_core.standard_aggregation(n, ap, aj, x, y)
        out = enc_ints(x) + ';' + enc_ints(y[:k]) + ';' + str(k)
        items.append(('std_agg ' + hdr, out, 'standard', kind, has_edge))
        items.append(('p_std_agg ' + hdr, out, 'p_standard', kind, has_edge))
        x = np.full(n, -77, dtype=np.int32)
        y = np.full(n, -7, dtype=np.int32)
        k = amg_core.naive_aggregation(n, ap, aj, x, y)
        out = enc_ints(x) + ';' + enc_ints(y[:k]) + ';' + str(k)
        items.append(('naive_agg ' + hdr, out, 'naive', kind, has_edge))
        items.append(('p_naive_agg ' + hdr, out, 'p_naive', kind, has_edge))
    outs = ctx.lean([it[0] for it in items])
    for (line, out, what, kind, has_edge), o in zip(items, outs):
        ctx.case(key=_key(line), nontrivial=has_edge, sample={'request': line[:200], 'model': o[:100], 'impl': out[:100]})
        ctx.feat('kernel:' + what)
        ctx.feat('graph:' + kind)
        if o != out:
            ctx.corr('kernel ' + what, {'line': line}, o, out)


def pairwise_spec_error(n, x, y, k):
    """independent statement of the matching-type aggregation spec on a raw kernel output"""
    x = [int(v) for v in x]
    y = [int(v) for v in y]
    if k < 0 or k > n or len(y) < k:
        return f'k = {k} aggregates for {n} nodes'
    if any(not (1 <= v <= k) for v in x):
        return f'node {next(i for i, v in enumerate(x) if not (1 <= v <= k))} has id outside 1..{k}'
    for a in range(1, k + 1):
        mem = [i for i, v in enumerate(x) if v == a]
        if not (1 <= len(mem) <= 2):
            return f'aggregate {a} has {len(mem)} nodes'
        if not (0 <= y[a - 1] < n) or x[y[a - 1]] != a:
            return f'root {y[a - 1]} is not in aggregate {a}'
    return None


def weighted_patterns(rng, M, t):
    """CSR triples (ap, aj, ax) on the graph M: symmetric / nonsymmetric weights and patterns, ties,
    explicit zeros and negative weights, unsorted rows with duplicate entries"""
    M = np.array(M)
    n = M.shape[0]
    pat = M != 0
    mode = t % 6
    if mode == 0:       # unit weights: every comparison is a tie
        W = np.ones((n, n))
    elif mode == 1:     # symmetric small weights (many ties)
        W = rng.choice([0.5, 1.0, 1.0, 2.0, 3.0], size=(n, n))
        W = np.triu(W) + np.triu(W, 1).T
    elif mode == 2:     # nonsymmetric weights incl. zero and negative values
        W = rng.choice([-2.0, -1.0, -0.5, 0.0, 0.25, 1.0, 1.0, 3.0], size=(n, n))
    elif mode == 3:     # nonsymmetric pattern: drop entries
        W = rng.choice([1.0, 2.0], size=(n, n))
        pat = pat & (rng.random((n, n)) < 0.7)
    elif mode == 4:     # generic floats (exact dyadic rationals on the Lean side)
        W = rng.standard_normal((n, n))
    else:               # rows of isolated nodes emptied (their columns stay: nonsymmetric)
        W = rng.choice([1.0, 1.0, 4.0], size=(n, n))
        pat = pat & ~(rng.random(n) < 0.3)[:, None]
    ap, aj, ax = [0], [], []
    for i in range(n):
        cols = [int(c) for c in np.nonzero(pat[i])[0]]
        if t % 5 == 3 and n:
            cols += [int(c) for c in rng.integers(0, n, size=int(rng.integers(0, 3)))]
            rng.shuffle(cols)
        for c in cols:
            aj.append(c)
            ax.append(float(W[i, c]))
        ap.append(len(aj))
    return (np.array(ap, dtype=np.int32), np.array(aj, dtype=np.int32), np.array(ax, dtype=np.float64),
            ('unit', 'symw', 'nonsymw', 'nonsympat', 'float', 'emptyrows')[mode] + ('+dup' if t % 5 == 3 else ''))


def compare_pairwise_calls(ctx, calls):
    """calls: (n, ap, aj, ax, x, y, k, origin) of the REAL kernel; compare with the Lean kernel model"""
    lines = [f'ext_pairwise {n} {enc_ints(ap)} {enc_ints(aj)} {enc_rats(ax)}' for (n, ap, aj, ax, x, y, k, o) in calls]
    outs = ctx.lean(lines) if lines else []
    for (n, ap, aj, ax, x, y, k, origin), line, o in zip(calls, lines, outs):
        impl = enc_ints(x) + ';' + enc_ints(y[:max(k, 0)]) + ';' + str(k)
        offd = bool((np.repeat(np.arange(n), np.diff(ap)) != aj).any()) if n else False
        ctx.case(key=_key(line), nontrivial=offd, sample={'request': line[:200], 'model': o[:100], 'impl': impl[:100]})
        ctx.feat('kernel:pairwise:' + origin)
        if o != impl:
            case = {'n': n, 'ap': [int(v) for v in ap], 'aj': [int(v) for v in aj], 'ax': [float(v) for v in ax],
                    'routine': 'pairwise_kernel'}
            ctx.corr('kernel pairwise (' + origin + ')', case, o, impl)
            e = pairwise_spec_error(n, x, y, k)
            if e:
                ctx.violation(f'pairwise_aggregation kernel: {e}', case)


def part_c(ctx, graphs):
    """raw pairwise kernel vs `ext_pairwise`"""
    from pyamg import amg_core
    rng = ctx.np_rng
    calls = []
    for t, (M, kind) in enumerate(graphs):
        n = np.array(M).shape[0]
        for r in range(2):
            ap, aj, ax, wk = weighted_patterns(rng, M, 2 * t + r)
            x = np.full(n, -77, dtype=np.int32)
            y = np.full(n, -7, dtype=np.int32)
            k = amg_core.pairwise_aggregation(n, ap, aj, ax, x, y)
            ctx.feat('weights:' + wk)
            calls.append((n, ap, aj, ax, x, y, int(k), 'raw'))
    compare_pairwise_calls(ctx, calls)


class _PairwiseSpy:
    """records every kernel call made by pyamg.aggregation.aggregate.pairwise_aggregation"""

    def __init__(self, AG):
        self.AG, self.calls = AG, []

    def __enter__(self):
        self.orig = self.AG.amg_core.pairwise_aggregation
        spy = self

        def rec(n, ap, aj, ax, x, y):
            k = spy.orig(n, ap, aj, ax, x, y)
            spy.calls.append((int(n), np.array(ap), np.array(aj), np.array(ax, dtype=np.float64),
                              np.array(x), np.array(y), int(k), 'wrapper'))
            return k
        self.AG.amg_core.pairwise_aggregation = rec
        return self

    def __exit__(self, *a):
        self.AG.amg_core.pairwise_aggregation = self.orig
        return False


def composition_error(calls, T, roots, n):
    """T and Cpts of the wrapper = composition of the recorded assignment maps x-1 / roots"""
    if not calls:
        return 'the wrapper made no kernel call'
    F = np.arange(n)
    R = None
    for (m, ap, aj, ax, x, y, k, _o) in calls:
        if k == 0:
            return None     # degenerate n = 0 level: nothing to compose
        if F.size and F.max() >= m:
            return f'matching on {m} nodes follows a level with {int(F.max()) + 1} aggregates'
        F = (x.astype(int) - 1)[F]
        R = y[:k].astype(int) if R is None else R[y[:k].astype(int)]
    D = sp.csr_array(T).toarray()
    E = np.zeros((n, calls[-1][6]), dtype=int)
    E[np.arange(n), F] = 1
    if D.shape != E.shape or (D != E).any():
        return 'T is not the composition of the matchings computed by the kernel'
    if [int(r) for r in roots] != [int(r) for r in R]:
        return 'Cpts is not the composition of the roots computed by the kernel'
    return None


def check_aggop(AggOp, roots, n, name):
    """common contract: 0/1 matrix, <= 1 aggregate per node, no empty aggregate, distinct roots inside"""
    if sp.issparse(AggOp) and AggOp.format in ('csr', 'bsr', 'csc'):
        idx, ptr = np.asarray(AggOp.indices), np.asarray(AggOp.indptr)
        minor = AggOp.shape[1] if AggOp.format != 'csc' else AggOp.shape[0]
        if AggOp.format == 'bsr':
            minor //= AggOp.blocksize[1]
        if len(ptr) == 0 or ptr[0] != 0 or (np.diff(ptr) < 0).any() or ptr[-1] > len(idx) or \
                (len(idx) and (idx[:ptr[-1]].min() < 0 or idx[:ptr[-1]].max() >= minor)):
            bad = [int(v) for v in idx[:ptr[-1]] if v < 0 or v >= minor][:3]
            return f'AggOp has invalid index arrays (aggregate ids {bad} outside 0..{minor - 1})'
    A = sp.csr_array(AggOp)
    if A.shape[0] != n:
        return f'AggOp has {A.shape[0]} rows for {n} nodes'
    D = A.toarray()
    if not np.isin(D, (0, 1)).all():
        return 'AggOp has entries other than 0/1'
    if (D.sum(1) > 1).any():
        return f'node {int(np.argmax(D.sum(1) > 1))} belongs to several aggregates'
    if (D.sum(0) == 0).any():
        return f'aggregate {int(np.argmax(D.sum(0) == 0))} is empty'
    if roots is not None:
        roots = [int(r) for r in roots]
        if len(roots) != D.shape[1]:
            return f'{len(roots)} roots for {D.shape[1]} aggregates'
        if len(set(roots)) != len(roots):
            return 'root nodes are not distinct'
        for k, r in enumerate(roots):
            if not (0 <= r < n) or D[r, k] != 1:
                return f'root {r} is not in the aggregate {k} it names'
    return None


def part_b(ctx, graphs):
    from pyamg.aggregation import aggregate as AG
    rng = ctx.np_rng
    wrapper_calls = []
    for t, (M, kind) in enumerate(graphs):
        M = np.array(M)
        n = M.shape[0]
        off = (M - np.diag(np.diag(M))) != 0
        has_edge = bool(off.any())
        S = _csr((M != 0).astype(float))
        case0 = {'M': M.tolist()}

        def reg(name, **kw):
            ctx.case(key=_key(name, M.tobytes(), sorted(kw.items())), nontrivial=has_edge,
                     sample={'routine': name, 'n': n, 'graph': kind, **kw} if ctx.evaluations % 499 == 0 else None)
            ctx.feat('api:' + name)

        def viol(what, fkey=None, **extra):
            ctx.violation(what, {**case0, **extra}, fkey=fkey)
        deg = off.sum(1)
        # ---- standard
        reg('standard')
        try:
            AggOp, roots = AG.standard_aggregation(S)
            e = check_aggop(AggOp, roots, n, 'standard')
            if e:
                # finding #13: no off-diagonal entry at all -> (n x 1) zero matrix = one empty aggregate (deliberate API)
                fk = 'std-agg-no-edges' if (not has_edge and AggOp.shape == (n, 1) and AggOp.nnz == 0) else None
                viol(f'standard_aggregation: {e}', fkey=fk, routine='standard')
            else:
                D = sp.csr_array(AggOp).toarray()
                agg_of = np.where(D.sum(1) > 0, D.argmax(1), -1)
                for i in range(n):
                    if (agg_of[i] == -1) != (deg[i] == 0):
                        viol(f'standard_aggregation: node {i} with {int(deg[i])} off-diagonal connections is '
                             f'{"un" if agg_of[i] == -1 else ""}aggregated', routine='standard')
                        break
                else:
                    for k in range(D.shape[1]):
                        mem = np.nonzero(D[:, k])[0]
                        sub = off[np.ix_(mem, mem)]
                        nc, _ = csgraph.connected_components(sp.csr_array(sub.astype(int)), directed=False)
                        if nc != 1:
                            viol(f'standard_aggregation: aggregate {k} = {mem.tolist()} is not connected', routine='standard')
                            break
        except Exception as ex:
            viol(f'standard_aggregation raised {type(ex).__name__}: {ex}', routine='standard')
        # ---- naive
        reg('naive')
        try:
            AggOp, roots = AG.naive_aggregation(S)
            e = check_aggop(AggOp, roots, n, 'naive')
            if not e and sp.csr_array(AggOp).toarray().sum(1).min() != 1:
                e = 'a node is left unaggregated'
            if e:
                viol(f'naive_aggregation: {e}', routine='naive')
        except Exception as ex:
            viol(f'naive_aggregation raised {type(ex).__name__}: {ex}', routine='naive')
        # ---- pairwise on an M-matrix with this graph (sometimes nonsymmetric weights)
        if n >= 1 and t % 2 == 0:
            W = off * rng.integers(1, 5, size=(n, n)).astype(float)
            if t % 4 == 0:
                W = np.triu(W, 1) + np.triu(W, 1).T
            A = np.diag(W.sum(1) + rng.integers(0, 2, size=n) + (W.sum(1) == 0)) - W
            Acsr = _csr(A)
            matchings = int(rng.integers(1, 4))
            theta = float(rng.choice([0.0, 0.25, 0.5]))
            norm = str(rng.choice(['min', 'abs']))
            reg('pairwise', matchings=matchings, theta=theta, norm=norm)
            try:
                with _PairwiseSpy(AG) as spy:
                    T, roots = AG.pairwise_aggregation(Acsr, matchings=matchings, theta=theta, norm=norm)
                wrapper_calls.extend(spy.calls)
                e = check_aggop(T, roots, n, 'pairwise')
                if not e:
                    D = sp.csr_array(T).toarray()
                    if D.sum(1).min() != 1:
                        e = 'a node is left unaggregated'
                    elif D.sum(0).max() > 2 ** matchings:
                        e = f'an aggregate has {int(D.sum(0).max())} > 2^{matchings} nodes'
                if e:
                    viol(f'pairwise_aggregation(matchings={matchings}, theta={theta}, norm={norm}): {e}',
                         routine='pairwise', A=A.tolist(), matchings=matchings, theta=theta, norm=norm)
                else:
                    # the partition itself was judged above; this ties T / Cpts to the composed assignment maps
                    ce = composition_error(spy.calls, T, roots, n)
                    ctx.feat(f'pairwise_levels:{len(spy.calls)}')
                    if ce:
                        ctx.corr('pairwise wrapper composition', {**case0, 'A': A.tolist(), 'matchings': matchings,
                                                                  'theta': theta, 'norm': norm},
                                 'composition of the recorded matchings', ce)
            except Exception as ex:
                viol(f'pairwise_aggregation raised {type(ex).__name__}: {ex}', routine='pairwise', A=A.tolist(),
                     matchings=matchings, theta=theta, norm=norm)
        # ---- Lloyd: every node that can reach a centre is assigned
        if n >= 2 and t % 3 == 0:
            if t % 12 == 0:
                # many isolated nodes (more requested centres than nodes with an edge is then likely)
                iso = rng.random(n) < 0.6
                off = off & ~iso[:, None] & ~iso[None, :]
            W = np.triu(off, 1) * rng.choice([0.5, 1.0, 2.0], size=(n, n))
            W = W + W.T
            C = _csr(W)
            ratio = float(rng.choice([0.1, 0.3, 0.6, 0.9, 1.0]))
            measure = [None, 'unit', 'abs', 'inv', 'min'][int(rng.integers(5))]
            if t % 9 == 0 and C.nnz and measure in (None, 'abs', 'min'):
                C.data[rng.integers(C.nnz)] = 0.0       # an explicitly stored zero-length edge
            maxiter = int(rng.integers(1, 5))
            for nm, fn, kw in (('lloyd', AG.lloyd_aggregation, {'ratio': ratio, 'measure': measure, 'maxiter': maxiter}),
                               ('balanced_lloyd', AG.balanced_lloyd_aggregation, {'ratio': ratio, 'measure': measure, 'maxiter': maxiter})):
                reg(nm, **kw)
                np.random.seed(int(rng.integers(2**31)))
                try:
                    AggOp, centers = fn(C, **kw)
                    e = check_aggop(AggOp, None, n, nm)
                    D = sp.csr_array(AggOp).toarray()
                    if not e:
                        centers = [int(c) for c in centers]
                        if len(set(centers)) != len(centers):
                            e = 'centres are not distinct'
                        elif any(D[c, k] != 1 for k, c in enumerate(centers)):
                            e = 'a centre is not in the aggregate it names'
                        else:
                            _, lab = csgraph.connected_components(sp.csr_array(off.astype(int)), directed=False)
                            ok_comp = {lab[c] for c in centers}
                            for i in range(n):
                                if (lab[i] in ok_comp) != (D[i].sum() == 1):
                                    e = (f'node {i} can{"" if lab[i] in ok_comp else "not"} reach a centre but is '
                                         f'{"un" if D[i].sum() == 0 else ""}assigned')
                                    break
                    if e:
                        viol(f'{nm}_aggregation({kw}): {e}', routine=nm, W=W.tolist(), **kw)
                except ValueError as ex:
                    if nm == 'balanced_lloyd' and ('disconnected' in str(ex) or 'maxsize' in str(ex) or 'positive weights' in str(ex)):
                        ctx.feat('balanced_lloyd_rejects_input')   # explicit ValueError refusal (disconnected graph / maxsize too small), not a wrong partition
                    else:
                        viol(f'{nm}_aggregation({kw}) raised {type(ex).__name__}: {ex}', routine=nm, W=W.tolist(), **kw)
                except Exception as ex:
                    viol(f'{nm}_aggregation({kw}) raised {type(ex).__name__}: {ex}', routine=nm, W=W.tolist(), **kw)
    compare_pairwise_calls(ctx, wrapper_calls)


# ---------------------------------------------------------------------------------------------
# part d (extension E18): Lloyd clustering / aggregation vs the executable Lean model
# `ExtLloyd.lloydCluster` / `ExtLloyd.lloydAggregation` (ops `ext_c12_lloyd`, `ext_c12_lloyd_agg`,
# `ext_c12_most_interior`), exact on dyadic weights whose path sums are exact in binary64.

def lloyd_weights(rng, M, t, pow2=False):
    """(ap, aj, ax, kind): small dyadic non-negative weights (ties, zero-length edges), symmetric and
    nonsymmetric weights / patterns, unsorted rows with duplicate entries, self loops"""
    M = np.array(M)
    n = M.shape[0]
    pat = M != 0
    mode = t % 5
    vals = [0.25, 0.5, 1.0, 1.0, 2.0, 4.0] if pow2 else [0.0, 0.25, 0.5, 1.0, 1.0, 1.5, 2.0, 3.0]
    sym = True
    if mode == 0:       # unit weights: every comparison is a tie
        W = np.ones((n, n))
    elif mode in (1, 2):     # symmetric weights, many ties
        W = rng.choice(vals, size=(n, n))
        W = np.triu(W) + np.triu(W, 1).T
    elif mode == 3:     # nonsymmetric weights on a symmetric pattern
        W = rng.choice(vals, size=(n, n))
    else:               # nonsymmetric pattern
        W = rng.choice(vals, size=(n, n))
        pat = pat & (rng.random((n, n)) < 0.7)
        sym = False
    dup = t % 7 == 3
    ap, aj, ax = [0], [], []
    for i in range(n):
        cols = [int(c) for c in np.nonzero(pat[i])[0]]
        if dup and n:
            extra = [int(c) for c in rng.integers(0, n, size=int(rng.integers(0, 3)))]
            sym = sym and not extra
            cols += extra
            rng.shuffle(cols)
        for c in cols:
            aj.append(c)
            ax.append(float(W[i, c]))
        ap.append(len(aj))
    kind = ('unit', 'symw', 'symw', 'nonsymw', 'nonsympat')[mode] + ('+dup' if dup else '')
    return (np.array(ap, dtype=np.int32), np.array(aj, dtype=np.int32), np.array(ax, dtype=np.float64), kind, sym)


def _reach(n, ap, aj, sources):
    seen = np.zeros(n, dtype=bool)
    stack = [int(s) for s in sources if 0 <= int(s) < n]
    for s in stack:
        seen[s] = True
    while stack:
        i = stack.pop()
        for jj in range(ap[i], ap[i + 1]):
            j = int(aj[jj])
            if not seen[j]:
                seen[j] = True
                stack.append(j)
    return seen


def lloyd_cluster_spec_error(n, ap, aj, clusters, centers, k):
    """the clauses of `ExtLloyd.lloydCluster_spec` stated independently on a real output (symmetric pattern,
    distinct initial centres, maxiter >= 1)"""
    clusters = [int(v) for v in clusters]
    centers = [int(v) for v in centers]
    if len(centers) != k or len(clusters) != n:
        return f'{len(centers)} centres / {len(clusters)} cluster ids for k = {k}, n = {n}'
    if any(not (-1 <= v < k) for v in clusters):
        return 'a cluster id lies outside -1..k-1'
    if any(not (0 <= c < n) for c in centers):
        return 'a centre lies outside 0..n-1'
    for a, c in enumerate(centers):
        if clusters[c] != a:
            return f'centre {c} of cluster {a} carries cluster id {clusters[c]} (cluster {a} has no root inside)'
    seen = _reach(n, ap, aj, centers)
    for i in range(n):
        if bool(seen[i]) != (clusters[i] >= 0):
            return f'node {i} can{"" if seen[i] else "not"} be reached from a centre but has cluster id {clusters[i]}'
    return None


def _hdr(n, ap, aj, ax):
    return f'{n} {enc_ints(ap)} {enc_ints(aj)} {enc_rats(ax)}'


def _orats(d):
    return ','.join('inf' if not np.isfinite(v) else enc_rat(v) for v in d) if len(d) else '-'


def lloyd_cluster_item(n, ap, aj, ax, centers, maxiter):
    """run the real `lloyd_cluster`; return (request line, implementation output)"""
    from pyamg import graph as PG
    G = sp.csr_array((ax.copy(), aj.copy(), ap.copy()), shape=(n, n))
    line = f'ext_c12_lloyd {_hdr(n, ap, aj, ax)} {enc_ints(centers)} {maxiter}'
    try:
        cl, ce = PG.lloyd_cluster(G, np.array(centers, dtype=np.int32), maxiter=maxiter)
        out = enc_ints(cl) + ';' + enc_ints(ce)
        res = (np.array(cl), np.array(ce))
    except ValueError:
        out, res = 'ValueError', None
    return line, out, res


def part_d(ctx, graphs):
    from pyamg import amg_core
    from pyamg.aggregation import aggregate as AG
    rng = ctx.np_rng
    items = []      # (line, impl output, what, nontrivial, judge) ; judge() -> error string of the property or None
    for t, (M, kind) in enumerate(graphs):
        M = np.array(M)
        n = M.shape[0]
        if n < 1:
            continue
        ap, aj, ax, wk, sym = lloyd_weights(rng, M, t)
        has_edge = bool(len(aj))
        ctx.feat('lloyd_weights:' + wk)
        # ---- lloyd_cluster with explicit centres
        k = int(rng.integers(1, min(n, 4) + 1))
        centers = rng.choice(n, size=k, replace=False).astype(np.int32)
        distinct, valid = True, True
        r = t % 23
        if r == 5 and n >= 2:
            centers = np.append(centers, centers[0]).astype(np.int32)      # duplicate centre: the last one wins
            distinct = False
        elif r == 7:
            centers = np.append(centers, n).astype(np.int32)
            valid = False
        elif r == 9:
            centers = np.append(centers, -1).astype(np.int32)
            valid = False
        elif r == 11:
            centers = np.zeros(0, dtype=np.int32)
            valid = False
        axc = ax
        if r == 13 and len(ax):
            axc = ax.copy()
            axc[int(rng.integers(len(ax)))] = -0.5
            valid = False
        maxiter = int(rng.integers(0, 6))
        c0 = [int(v) for v in centers]
        line, out, res = lloyd_cluster_item(n, ap, aj, axc, centers, maxiter)
        case = {'routine': 'lloyd_cluster', 'n': n, 'ap': ap.tolist(), 'aj': aj.tolist(), 'ax': [float(v) for v in axc],
                'centers': c0, 'maxiter': maxiter}

        def judge(res=res, n=n, ap=ap, aj=aj, k=len(c0), sym=sym, distinct=distinct, valid=valid, maxiter=maxiter):
            if res is None:
                return None if not valid else 'ValueError for a valid input'
            if not valid:
                return 'an invalid input was accepted'
            if sym and distinct and maxiter >= 1:
                return lloyd_cluster_spec_error(n, ap, aj, res[0], res[1], k)
            return None
        items.append((line, out, 'lloyd_cluster', has_edge, judge, case))
        ctx.feat('lloyd_cluster:' + ('valid' if valid else 'rejected') + ('' if distinct else '+dupcentre'))
        # ---- raw most_interior_nodes kernel on an arbitrary state
        if t % 2 == 0:
            kk = int(rng.integers(1, min(n, 4) + 1))
            c = rng.integers(0, n, size=kk).astype(np.int32)
            m = rng.integers(-1, kk, size=n).astype(np.int32)
            p = rng.integers(-1, n, size=n).astype(np.int32)
            d = rng.choice([0.0, 1.0, np.inf], size=n)
            line = f'ext_c12_most_interior {_hdr(n, ap, aj, ax)} {enc_ints(c)} {enc_ints(m)} {enc_ints(p)}'
            case = {'routine': 'most_interior', 'n': n, 'ap': ap.tolist(), 'aj': aj.tolist(), 'ax': [float(v) for v in ax],
                    'c': c.tolist(), 'm': m.tolist(), 'p': p.tolist()}
            ch = amg_core.most_interior_nodes(n, ap, aj, ax, c, d, m, p)
            out = enc_ints(c) + ';' + _orats(d) + ';' + enc_ints(m) + ';' + enc_ints(p) + ';' + ('true' if ch else 'false')
            items.append((line, out, 'most_interior_nodes', has_edge, lambda: None, case))
        # ---- lloyd_aggregation through the public wrapper: the centres are the replayed permutation
        if t % 2 == 1 or n <= 4:
            measure = ['None', 'unit', 'abs', 'inv', 'min'][int(rng.integers(5))]
            if measure == 'inv':
                ap, aj, ax, wk, sym = lloyd_weights(rng, M, t, pow2=True)
            ratio = float(rng.choice([0.125, 0.25, 0.5, 0.75, 1.0]))
            maxiter = int(rng.integers(0, 5))
            seed = int(rng.integers(2**31))
            np.random.seed(seed)
            perm = np.random.permutation(n)
            C = sp.csr_array((ax.copy(), aj.copy(), ap.copy()), shape=(n, n))
            kw = {'ratio': ratio, 'measure': None if measure == 'None' else measure, 'maxiter': maxiter}
            line = f'ext_c12_lloyd_agg {measure} {enc_rat(ratio)} {_hdr(n, ap, aj, ax)} {enc_ints(perm)} {maxiter}'
            case = {'routine': 'lloyd_aggregation', 'n': n, 'ap': ap.tolist(), 'aj': aj.tolist(), 'ax': [float(v) for v in ax],
                    'seed': seed, **kw}
            np.random.seed(seed)
            import warnings
            try:
                with warnings.catch_warnings():
                    warnings.simplefilter('ignore')
                    AggOp, ce = AG.lloyd_aggregation(C, **kw)
                AggOp = sp.csr_array(AggOp)
                out = enc_ints(AggOp.indptr) + ';' + enc_ints(AggOp.indices) + ';' + enc_ints(AggOp.data) + ';' + enc_ints(ce)
                res = (AggOp, ce)
            except ValueError:
                out, res = 'ValueError', None

            def judge_agg(res=res, n=n, ap=ap, aj=aj, sym=sym, maxiter=maxiter):
                if res is None:
                    return 'ValueError for a valid input'
                if not sym:
                    return None     # the property (and the theorem) is about symmetric strength graphs
                e = check_aggop(res[0], res[1], n, 'lloyd')
                if e or maxiter < 1:
                    return e
                D = res[0].toarray()
                seen = _reach(n, ap, aj, res[1])
                for i in range(n):
                    if bool(seen[i]) != (D[i].sum() == 1):
                        return f'node {i} can{"" if seen[i] else "not"} reach a centre but is {"un" if D[i].sum() == 0 else ""}assigned'
                return None
            items.append((line, out, 'lloyd_aggregation', has_edge, judge_agg, case))
            ctx.feat('lloyd_measure:' + measure)
    outs = ctx.lean([it[0] for it in items]) if items else []
    for (line, out, what, nontriv, judge, case), o in zip(items, outs):
        ctx.case(key=_key(line), nontrivial=nontriv,
                 sample={'request': line[:200], 'model': o[:100], 'impl': out[:100]} if ctx.evaluations % 97 == 0 else None)
        ctx.feat('lloyd:' + what)
        if o == 'unmodelled':
            ctx.feat('lloyd:unmodelled')
            continue
        if o != out:
            ctx.corr(what + ' vs ExtLloyd model', case, o, out)
        e = judge()
        if e:
            ctx.violation(f'{what}: {e}', case)


def run(ctx):
    if ctx.quick:
        part_a(ctx, list(graph_stream(ctx, 4, 300, 40)))
        part_b(ctx, list(graph_stream(ctx, 4, 200, 30)))
        part_c(ctx, list(graph_stream(ctx, 4, 300, 40)))     # after a, b: leaves the random streams of parts a, b unchanged
        part_d(ctx, list(graph_stream(ctx, 4, 300, 30)))
    else:
        part_a(ctx, list(graph_stream(ctx, 6, 5000, 60)))
        part_b(ctx, list(graph_stream(ctx, 5, 3000, 60)))
        part_c(ctx, list(graph_stream(ctx, 5, 5000, 60)))
        part_d(ctx, list(graph_stream(ctx, 5, 4000, 50)))


def search(ctx):
    part_b(ctx, list(graph_stream(ctx, 5, 1500, 40)))
    part_c(ctx, list(graph_stream(ctx, 5, 1500, 40)))
    part_d(ctx, list(graph_stream(ctx, 5, 1500, 40)))


def replay_lloyd(ctx, c):
    from pyamg import amg_core
    from pyamg.aggregation import aggregate as AG
    n = int(c['n'])
    ap, aj = np.array(c['ap'], dtype=np.int32), np.array(c['aj'], dtype=np.int32)
    ax = np.array(c['ax'], dtype=np.float64)
    if c['routine'] == 'lloyd_cluster':
        line, out, res = lloyd_cluster_item(n, ap, aj, ax, np.array(c['centers'], dtype=np.int32), int(c['maxiter']))
    elif c['routine'] == 'most_interior':
        cc, m, p = (np.array(c[k], dtype=np.int32) for k in ('c', 'm', 'p'))
        d = np.zeros(n)
        line = f'ext_c12_most_interior {_hdr(n, ap, aj, ax)} {enc_ints(cc)} {enc_ints(m)} {enc_ints(p)}'
        ch = amg_core.most_interior_nodes(n, ap, aj, ax, cc, d, m, p)
        out = enc_ints(cc) + ';' + _orats(d) + ';' + enc_ints(m) + ';' + enc_ints(p) + ';' + ('true' if ch else 'false')
    else:
        np.random.seed(int(c['seed']))
        perm = np.random.permutation(n)
        np.random.seed(int(c['seed']))
        C = sp.csr_array((ax.copy(), aj.copy(), ap.copy()), shape=(n, n))
        ms = 'None' if c['measure'] is None else c['measure']
        line = f'ext_c12_lloyd_agg {ms} {enc_rat(c["ratio"])} {_hdr(n, ap, aj, ax)} {enc_ints(perm)} {int(c["maxiter"])}'
        try:
            AggOp, ce = AG.lloyd_aggregation(C, ratio=c['ratio'], measure=c['measure'], maxiter=int(c['maxiter']))
            AggOp = sp.csr_array(AggOp)
            out = enc_ints(AggOp.indptr) + ';' + enc_ints(AggOp.indices) + ';' + enc_ints(AggOp.data) + ';' + enc_ints(ce)
        except ValueError:
            out = 'ValueError'
    o = ctx.lean([line])[0]
    print('replaying', c['routine'], ': model =', o[:200], '| implementation =', out[:200])
    if o != out:
        ctx.corr(c['routine'] + ' vs ExtLloyd model', c, o, out)


def replay(ctx, data):
    c = data['case']
    if c.get('routine') == 'pairwise_kernel':
        from pyamg import amg_core
        n = int(c['n'])
        ap, aj = np.array(c['ap'], dtype=np.int32), np.array(c['aj'], dtype=np.int32)
        ax = np.array(c['ax'], dtype=np.float64)
        x = np.full(n, -77, dtype=np.int32)
        y = np.full(n, -7, dtype=np.int32)
        k = amg_core.pairwise_aggregation(n, ap, aj, ax, x, y)
        print('replaying pairwise kernel: x =', x.tolist(), 'y =', y[:k].tolist(), 'k =', k)
        compare_pairwise_calls(ctx, [(n, ap, aj, ax, x, y, int(k), 'raw')])
        for v in ctx.violations[:5]:
            print('  ', v['what'])
        return
    if c.get('routine') in ('lloyd_cluster', 'most_interior', 'lloyd_aggregation'):
        replay_lloyd(ctx, c)
        for v in ctx.violations[:5]:
            print('  ', v['what'])
        return
    M = np.array(data['case']['M'])
    print('replaying on graph', M.tolist())
    for t in (0, 1, 2, 3):
        part_b(ctx, [(M, 'replay')] * (t + 1))
    for v in ctx.violations[:5]:
        print('  ', v['what'])
