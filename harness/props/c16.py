"""C16 -- coarse-grid solvers return the (least-squares) solution in the caller's shape.

correspondence : `coarse_grid_solver(spec)` objects of pyamg/multilevel.py driven through whole call
                 histories vs the Lean model `C16.coarseGridSolver` (Model/C16Coarse.lean: dispatch chain,
                 lazily cached factorisation, splu zero-row/column compression, nnz == 0 shortcut, reshape,
                 relaxation from the zero guess) on Rat / Gaussian rationals; every relaxation name except schwarz
                 vs `C16R.relaxCallR` (Model/ExtC16Relax.lean, op ext_c16_relax) run on the inputs recorded from the
                 real setup (spectral-radius estimate, inverted diagonal blocks, Chebyshev coefficients, block
                 storage).  Values are compared with a
                 condition-scaled tolerance (LAPACK / SuperLU round), shapes, raised-or-not and the number
                 of factorisation calls exactly.
search         : the real objects judged by exact oracles that do not use that model: the exact
                 Moore-Penrose inverse (Lean `c16_pinv`, certified by the four Penrose equations; cross-checked
                 with the Gauss-Jordan solve `c16_solve`) for the direct solvers / pinv on singular matrices /
                 splu with zero rows+columns; exact energy functionals (`c16_quad`) of the real outputs for the
                 relaxation solvers; the zero guess observed at the smoother's entry; zero result on matrices
                 without stored entries; callables / None / Krylov names: shape and pass-through.
"""
import hashlib
from fractions import Fraction

import numpy as np
import scipy.sparse as sp

import gen
from common import enc_ints, enc_rat, enc_crat, frac

DIRECT = ['pinv', 'lu', 'cholesky', 'splu']
KRYLOV = ['bicg', 'bicgstab', 'cg', 'cgs', 'gmres', 'qmr', 'minres']
SCIPY_KRYLOV = ['bicg', 'cgs', 'qmr', 'minres']          # not in pyamg.krylov: taken from scipy.sparse.linalg
RELAX = ['gauss_seidel', 'jacobi', 'block_gauss_seidel', 'schwarz', 'block_jacobi', 'richardson', 'sor',
         'chebyshev', 'jacobi_ne', 'gauss_seidel_ne', 'gauss_seidel_nr']
NE_NR = ['jacobi_ne', 'gauss_seidel_ne', 'gauss_seidel_nr']
# extension E29: relaxation setups with an exact model (Model/ExtC16Relax.lean, op ext_c16_relax) and the keyword
# arguments that model interprets (degree / bounds of chebyshev only enter through the recorded coefficients)
XOPTS = {'jacobi': {'iterations', 'omega', 'withrho'}, 'block_jacobi': {'iterations', 'omega', 'withrho'},
         'block_gauss_seidel': {'iterations', 'sweep'}, 'richardson': {'iterations', 'omega'},
         'chebyshev': {'iterations', 'degree', 'lower_bound', 'upper_bound'},
         'jacobi_ne': {'iterations', 'omega', 'withrho'}, 'gauss_seidel_ne': {'iterations', 'sweep', 'omega'},
         'gauss_seidel_nr': {'iterations', 'sweep', 'omega'}, 'gauss_seidel': {'iterations', 'sweep'},
         'sor': {'iterations', 'sweep', 'omega'},
         'schwarz': {'iterations', 'sweep'}}          # extension E51 (op c16y_relax; default subdomains / blocks of the setup)
# which recorded spectral-radius estimate a setup divides by (block_jacobi: by block size)
XRHO = {'jacobi': 'rho_D_inv_A', 'jacobi_ne': 'rho_D_inv_A', 'richardson': 'approximate_spectral_radius',
        'chebyshev': 'approximate_spectral_radius'}
BAD_NAMES = ['LU', 'Pinv', 'foo', 'cgnr', 'cr', 'fgmres', 'pinv3', 'spsolve', 'gauss-seidel', 'none', 'None', 'jacobi_',
             'cf_jacobi', 'steepest_descent', 'PINV', 'splu2', 'cholesky_', 'gauss_seidel_indexed']

META = {
    'rule': 'case = (matrix, solver spec, call history).  Matrices (n = 1..8, exact dyadic entries): SPD (Poisson 1-D/2-D, '
            'B B^T + D, diagonally dominant, badly scaled D K D with cond up to 1e5), nonsymmetric nonsingular (dominant, triangular, scaled permutations), '
            'singular (low rank, Neumann Laplacians), zero rows+columns embedded in a nonsingular core (with and without '
            'explicitly stored zeros), zero column only / zero row only, 1x1, complex Hermitian PD / nonsymmetric / '
            'singular, matrices without stored entries, matrices of stored zeros, coarsest matrices of real SA / RS '
            'hierarchies; CSR / CSC / BSR (1x1 and 2x2 blocks) / COO storage (CSR / BSR only for relaxation and Krylov names).  Specs: every name of the dispatch chain, (name, kwargs) tuples, '
            'callables with and without kwargs, None, unknown names.  Histories: 1..4 calls on one object, shapes (n,) and '
            '(n,1) mixed, ndarray or (nested) list, new / repeated / zero right-hand sides, sometimes a second matrix (stale-cache behaviour of the '
            'model).  non-trivial = the matrix has a stored entry, n >= 2 and the history has >= 2 calls; distinct = distinct '
            '(matrix, spec, history).',
    'search_only': [
        'accuracy "to rounding" of LAPACK (gesdd/getrf/potrf) and SuperLU: the model represents them by their exact '
        'contracts; the real outputs are compared with the exact rational oracle within 1e-10 * cond(A) (relative)',
        'relaxation names (extension E29): schwarz has no Lean model (zero guess observed at the smoother entry + exact energy '
        'functional of the real output only); block_jacobi / block_gauss_seidel on block storage (bs >= 2) and chebyshev are '
        'modelled exactly (C16R.relaxSolveR on the recorded block inverses / Chebyshev coefficients, compared with the real '
        'output) but their energy non-increase is judged on the real output only (no energy theorem for them)',
        'the recorded inputs of C16R.Rec themselves: the accuracy of the spectral-radius estimates (Arnoldi from a random start '
        'vector), of get_block_diag(inv_flag=True) and of chebyshev_polynomial_coefficients is not modelled; the interval / degree '
        'handed to chebyshev_polynomial_coefficients is compared with rho * bounds of the options',
        'complex matrices with the relaxation names of E29: the exact model is run over Gaussian rationals and compared with the '
        'real output; the energy / 2-norm theorems are proved over ordered fields (real scalars) only',
        'Krylov names: shape of b, zero on empty matrices, residual reduced to 1e-6 on small SPD matrices',
    ],
    'partial': [],
    'assumptions': [
        'relax_jacobi_energy / relax_richardson_energy / relax_jacobi_ne_error: the damping bound omega_eff * lambda_max <= 2 for '
        'the damping actually used (omega / recorded rho); evaluated in floating point per instance for jacobi / block_jacobi on '
        'point storage / richardson (feature thm-hyp:damping-bound-holds|fails); the exact energy functional of the real '
        'output is judged on every Hermitian positive definite instance regardless',
        'relax_gs_ne_error / relax_gs_nr_residual_csr: canonical CSR rows (indices in range, no duplicates: what m.csr() '
        'produces), 0 <= omega <= 2, real scalars; the setup-side format conversions (tocsr of BSR input, tocsc) are SciPy '
        'routines: the model computes the CSC arrays itself (C16R.cscOf, proved to be the same operator)',
        'complex matrices: the certificates isPinv / isInv / isHPD (conj = CRat.conj, isPos = posC) are evaluated by the '
        'driver over Gaussian rationals per instance; what they mean over C is proved (isPinv_sound_complex, '
        'isInv_sound_complex, isHPD_sound_complex; clauses pinv_call_min_norm_complex, direct_call_solves_complex, '
        'splu_call_spec_conj: minimisation / uniqueness over all complex vectors)',
        'external contracts (checked per instance against exact oracles, not proved): scipy.linalg.pinv = Moore-Penrose '
        'inverse, lu_factor/lu_solve, cho_factor/cho_solve (Hermitian positive definite input only: `cholesky` is judged '
        'on HPD matrices, cho_factor reads one triangle), SuperLU splu/solve = solution for nonsingular input',
        '"a matrix without nonzeros" is read as A.nnz == 0 (no stored entries); matrices holding only explicit zeros are '
        'judged for pinv / splu / None (zero result) and skipped for lu / cholesky (singular: nan / LinAlgError)',
        'splu "tolerates identically zero rows and columns": judged when the index sets of zero rows and zero columns '
        'coincide and the remaining principal submatrix is nonsingular (then x = A^+ b: zero there, exact on the rest)',
        'right-hand sides also come with a dtype different from the matrix (complex A with float64 / float32 / int b, real A with '
        'complex128 / complex64 / float32 / int b; every solver name, both shapes, fixed + random histories): every value that is '
        'returned must be the solution in a wide-enough dtype; an explicit TypeError / ValueError for the dtype combination '
        '(relaxation kernels, SuperLU with a real factor and complex b; any exception of a Krylov routine) counts as a rejected input, not as a wrong '
        'answer; ill-conditioned instances (cond > 1e6) are skipped and counted',
    ],
}

TOL = 1e-10


def lean(ctx, lines):
    """ctx.lean with a few retries: the driver is interpreted from the shared .lake tree and fails transiently
    while another property's files are being rebuilt"""
    import time
    import common
    for attempt in range(8):
        try:
            return ctx.lean(lines)
        except common.InfraError:
            if attempt == 7:
                raise
            time.sleep(8 + 4 * attempt)


def _key(*a):
    return hashlib.sha1(repr(a).encode()).hexdigest()


# ----------------------------------------------------------------------------------------------
# matrices
# ----------------------------------------------------------------------------------------------

class Mat:
    """dense values + the set of explicitly stored zeros + storage format -> SciPy matrix"""

    def __init__(self, M, cls, explicit=(), fmt='csr'):
        self.M = np.array(M)
        self.cplx = np.iscomplexobj(self.M)
        self.M = self.M.astype(complex if self.cplx else float)
        self.cls, self.explicit, self.fmt = cls, [tuple(int(v) for v in e) for e in explicit], fmt
        self.n = self.M.shape[0]

    def sparse(self):
        n = self.n
        rows, cols = np.nonzero(self.M)
        data = self.M[rows, cols]
        ex = sorted({(i, j) for (i, j) in self.explicit if self.M[i, j] == 0})     # canonical CSR: no duplicate entries
        if ex:
            rows = np.concatenate([rows, [e[0] for e in ex]])
            cols = np.concatenate([cols, [e[1] for e in ex]])
            data = np.concatenate([data, np.zeros(len(ex), dtype=self.M.dtype)])
        order = np.lexsort((cols, rows))
        rows, cols, data = rows[order], cols[order], data[order]
        indptr = np.zeros(n + 1, dtype=np.int32)
        np.add.at(indptr, rows + 1, 1)
        indptr = np.cumsum(indptr).astype(np.int32)
        A = sp.csr_array((data.astype(self.M.dtype), cols.astype(np.int32), indptr), shape=(n, n))
        A.indptr = A.indptr.astype(np.int32)
        A.indices = A.indices.astype(np.int32)
        if self.fmt == 'csr':
            return A
        if self.fmt == 'bsr':
            B = A.tobsr(blocksize=(1, 1))
        elif self.fmt == 'bsr2':
            B = A.tobsr(blocksize=(2, 2)) if n % 2 == 0 and n > 0 else A.tobsr(blocksize=(1, 1))
        else:
            B = A.asformat(self.fmt)
        for nm in ('indptr', 'indices', 'row', 'col'):
            if hasattr(B, nm):
                try:
                    setattr(B, nm, getattr(B, nm).astype(np.int32))
                except Exception:
                    pass
        return B

    def csr(self):
        f, self.fmt = self.fmt, 'csr'
        try:
            return self.sparse()
        finally:
            self.fmt = f

    def to_case(self):
        if self.cplx:
            M = [[[float(v.real), float(v.imag)] for v in r] for r in self.M]
        else:
            M = [[float(v) for v in r] for r in self.M]
        return {'M': M, 'cplx': bool(self.cplx), 'cls': self.cls, 'explicit': [list(e) for e in self.explicit], 'fmt': self.fmt}

    @staticmethod
    def from_case(d):
        if d['cplx']:
            M = np.array([[complex(v[0], v[1]) for v in r] for r in d['M']], dtype=complex).reshape(len(d['M']), -1)
        else:
            M = np.array(d['M'], dtype=float).reshape(len(d['M']), -1)
        return Mat(M, d['cls'], d.get('explicit', ()), d.get('fmt', 'csr'))


def _spd(rng, n=None):
    kind = rng.choice(['p1', 'p2', 'bbt', 'dd', 'dd'])
    if kind == 'p1':
        n = n or int(rng.integers(1, 8))
        return 2 * np.eye(n) - np.eye(n, k=1) - np.eye(n, k=-1)
    if kind == 'p2':
        import pyamg
        shp = [(2, 2), (2, 3), (3, 2), (2, 4)][int(rng.integers(4))]
        return pyamg.gallery.poisson(shp, format='csr').toarray()
    n = n or int(rng.integers(1, 7))
    if kind == 'bbt':
        B = rng.integers(-2, 3, size=(n, n)).astype(float)
        return B @ B.T + np.diag(rng.integers(1, 4, size=n)).astype(float)
    W = np.triu((rng.random((n, n)) < 0.5) * rng.integers(1, 4, size=(n, n)), 1).astype(float)
    W = W + W.T
    sgn = np.triu(rng.choice([-1.0, 1.0], size=(n, n), p=[0.8, 0.2]), 1)
    sgn = sgn + sgn.T
    return np.diag(W.sum(1) + rng.integers(1, 3, size=n)) + sgn * W


def _nonsym(rng, n=None):
    n = n or int(rng.integers(2, 7))
    kind = rng.choice(['dom', 'tri', 'perm', 'rand'])
    if kind == 'dom':
        M = ((rng.random((n, n)) < 0.6) * rng.integers(-3, 4, size=(n, n))).astype(float)
        np.fill_diagonal(M, 0)
        return M + np.diag(np.abs(M).sum(1) + rng.integers(1, 3, size=n)) * rng.choice([-1.0, 1.0])
    if kind == 'tri':
        M = np.triu(rng.integers(-2, 3, size=(n, n)), 1).astype(float)
        M = M + np.diag(rng.choice([-2.0, -1.0, 1.0, 2.0, 4.0], size=n))
        return M if rng.random() < 0.5 else M.T
    if kind == 'perm':
        p = rng.permutation(n)
        M = np.zeros((n, n))
        M[np.arange(n), p] = rng.choice([-2.0, 1.0, 2.0, 4.0], size=n)
        return M + np.triu((rng.random((n, n)) < 0.2) * 1.0, 2)
    for _ in range(20):
        M = rng.integers(-3, 4, size=(n, n)).astype(float)
        if abs(np.linalg.det(M)) > 0.5 and np.linalg.cond(M) < 1e3:
            return M
    return np.eye(n) * 2 + np.eye(n, k=1)


def _singular(rng, n=None):
    n = n or int(rng.integers(2, 7))
    kind = rng.choice(['lowrank', 'neumann', 'duprow', 'lowrank_sym'])
    if kind == 'neumann':
        W = np.triu((rng.random((n, n)) < 0.6) * rng.integers(1, 3, size=(n, n)), 1).astype(float)
        W = W + W.T
        return np.diag(W.sum(1)) - W
    r = int(rng.integers(1, n))
    if kind == 'lowrank':
        return (rng.integers(-2, 3, size=(n, r)) @ rng.integers(-2, 3, size=(r, n))).astype(float)
    if kind == 'lowrank_sym':
        B = rng.integers(-2, 3, size=(n, r)).astype(float)
        return B @ B.T
    M = _nonsym(rng, n)
    M[int(rng.integers(n))] = M[int(rng.integers(n))] * 2
    i, j = rng.choice(n, size=2, replace=False)
    M[i] = M[j]
    return M


def _embed(rng, K, nzero):
    """zero rows and columns inserted at the same random positions"""
    m = K.shape[0]
    n = m + nzero
    keep = np.sort(rng.choice(n, size=m, replace=False))
    M = np.zeros((n, n), dtype=K.dtype)
    M[np.ix_(keep, keep)] = K
    zero = [i for i in range(n) if i not in set(keep.tolist())]
    return M, zero


def _phases(rng, n):
    return rng.choice(np.array([1, 1j, -1, -1j]), size=n)


def gen_matrix(rng, cls=None):
    classes = ['spd'] * 4 + ['nonsym'] * 3 + ['singular'] * 3 + ['zrc'] * 3 + ['zrc_explicit'] * 2 + ['one'] * 2 + \
              ['hpd_c'] * 3 + ['nonsym_c'] * 2 + ['singular_c', 'zrc_c', 'empty', 'empty', 'stored_zero', 'hier', 'hier',
                                                  'zcol_only', 'zrow_only', 'spd_explicit', 'graded', 'graded']
    cls = cls or classes[int(rng.integers(len(classes)))]
    fmt = 'csr' if rng.random() < 0.65 else ['csc', 'bsr', 'coo', 'bsr2'][int(rng.integers(4))]
    explicit = ()
    if cls == 'spd':
        M = _spd(rng)
    elif cls == 'spd_explicit':
        M = _spd(rng)
        n = M.shape[0]
        explicit = [(int(rng.integers(n)), int(rng.integers(n))) for _ in range(3)]
    elif cls == 'nonsym':
        M = _nonsym(rng)
    elif cls == 'graded':
        # badly scaled but exactly representable: D K D with D = diag(2^-k), condition up to ~1e5
        K = _spd(rng) if rng.random() < 0.6 else _nonsym(rng)
        n = K.shape[0]
        d = 2.0 ** (-rng.integers(0, 4, size=n).cumsum() % 9)
        M = (d[:, None] * K) * (d[None, :] if rng.random() < 0.7 else 1.0)
    elif cls == 'singular':
        M = _singular(rng)
    elif cls in ('zrc', 'zrc_explicit', 'zrc_c'):
        K = _spd(rng, int(rng.integers(1, 5))) if rng.random() < 0.5 else _nonsym(rng, int(rng.integers(2, 5)))
        if cls == 'zrc_c':
            ph = _phases(rng, K.shape[0])
            K = (ph[:, None] * K.astype(complex)) * ph.conj()[None, :]
        M, zero = _embed(rng, K, int(rng.integers(1, 4)))
        if cls == 'zrc_explicit':
            n = M.shape[0]
            explicit = [(z, int(rng.integers(n))) for z in zero] + [(int(rng.integers(n)), z) for z in zero] + [(z, z) for z in zero]
    elif cls == 'one':
        M = np.array([[rng.choice([-2.0, -1.0, 0.5, 1.0, 2.0, 3.0, 4.0])]])
        if rng.random() < 0.3:
            M = M.astype(complex) * rng.choice(np.array([1, 1j, 1 + 1j]))
    elif cls == 'hpd_c':
        K = _spd(rng)
        n = K.shape[0]
        ph = _phases(rng, n)
        M = (ph[:, None] * K.astype(complex)) * ph.conj()[None, :]
        if rng.random() < 0.5 and n > 1:
            S = np.triu(rng.integers(-1, 2, size=(n, n)), 1).astype(float)
            H = 1j * (S - S.T)
            M = M + H + np.diag(np.abs(H).sum(1))
    elif cls == 'nonsym_c':
        n = int(rng.integers(2, 6))
        M = ((rng.random((n, n)) < 0.6) * (rng.integers(-2, 3, size=(n, n)) + 1j * rng.integers(-2, 3, size=(n, n))))
        np.fill_diagonal(M, 0)
        M = M + np.diag(np.abs(M.real).sum(1) + np.abs(M.imag).sum(1) + 1) * rng.choice(np.array([1, 1j, -1]))
    elif cls == 'singular_c':
        n = int(rng.integers(2, 6))
        r = int(rng.integers(1, n))
        U = rng.integers(-2, 3, size=(n, r)) + 1j * rng.integers(-1, 2, size=(n, r))
        V = rng.integers(-2, 3, size=(r, n)) + 1j * rng.integers(-1, 2, size=(r, n))
        M = U @ V
    elif cls == 'empty':
        n = int(rng.integers(1, 6))
        M = np.zeros((n, n), dtype=complex if rng.random() < 0.3 else float)
    elif cls == 'stored_zero':
        n = int(rng.integers(1, 5))
        M = np.zeros((n, n))
        explicit = [(i, i) for i in range(n)] + [(int(rng.integers(n)), int(rng.integers(n)))]
    elif cls == 'hier':
        M = _hierarchy_coarse(rng)
    elif cls == 'zcol_only':
        M = _nonsym(rng)
        M[:, int(rng.integers(M.shape[0]))] = 0
    elif cls == 'zrow_only':
        M = _nonsym(rng)
        M[int(rng.integers(M.shape[0]))] = 0
    else:
        raise ValueError(cls)
    return Mat(M, cls, explicit, fmt)


_HIER_CACHE = {}


def _hierarchy_coarse(rng):
    """coarsest matrix of a real hierarchy (float entries, exact dyadic rationals for the oracle)"""
    import pyamg
    k = int(rng.integers(6))
    if k not in _HIER_CACHE:
        st = np.random.get_state()
        np.random.seed(7 + k)
        try:
            if k == 0:
                ml = pyamg.smoothed_aggregation_solver(pyamg.gallery.poisson((12,), format='csr'), max_coarse=4)
            elif k == 1:
                ml = pyamg.ruge_stuben_solver(pyamg.gallery.poisson((5, 5), format='csr'), max_coarse=6)
            elif k == 2:
                ml = pyamg.smoothed_aggregation_solver(pyamg.gallery.poisson((6, 6), format='csr'), max_coarse=5)
            elif k == 3:
                ml = pyamg.ruge_stuben_solver(pyamg.gallery.poisson((15,), format='csr'), max_coarse=3)
            elif k == 4:
                A = pyamg.gallery.poisson((10,), format='csr')
                B = np.ones((10, 2))
                B[:, 1] = np.arange(10)
                ml = pyamg.smoothed_aggregation_solver(A, B=B, max_coarse=6)
            else:
                A = pyamg.gallery.poisson((4, 4), format='csr')
                ml = pyamg.pairwise_solver(A, max_coarse=4)
            M = ml.levels[-1].A.toarray()
        finally:
            np.random.set_state(st)
        if M.shape[0] > 8:
            M = M[:8, :8]
        _HIER_CACHE[k] = M
    return _HIER_CACHE[k].copy()


# ----------------------------------------------------------------------------------------------
# solver specs
# ----------------------------------------------------------------------------------------------

def _cb_scale(A, b, q=1.0):
    return q * b


def _cb_flat(A, b, q=1.0):
    return (q * np.asarray(b)).ravel()


def _cb_short(A, b):
    return np.asarray(b).ravel()[:-1]


def _cb_spsolve(A, b):
    return sp.linalg.spsolve(sp.csc_array(A), np.asarray(b).ravel())


CALLABLES = {'scale': _cb_scale, 'flat': _cb_flat, 'short': _cb_short, 'spsolve': _cb_spsolve}


def make_solver(spec):
    """spec = {'arg': name | None | 'cb:<which>' | 'other', 'opts': {...}, 'tuple': bool}"""
    from pyamg import coarse_grid_solver
    arg = spec['arg']
    if isinstance(arg, str) and arg.startswith('cb:'):
        a = CALLABLES[arg[3:]]
    elif arg == 'other':
        a = 5
    else:
        a = arg
    opts = dict(spec.get('opts') or {})
    if spec.get('tuple') or opts:
        return coarse_grid_solver((a, opts))
    return coarse_grid_solver(a)


def lean_tokens(spec):
    arg = spec['arg']
    opts = spec.get('opts') or {}
    cb = 'short'
    if arg is None:
        a = 'none'
    elif arg == 'other':
        a = 'other'
    elif arg.startswith('cb:'):
        a = 'callable'
        which = arg[3:]
        cb = 'short' if which == 'short' else f'{which}:{enc_rat(opts.get("q", 1.0))}'
        opts = {}
    else:
        a = 's:' + arg
    toks = []
    for k, v in opts.items():
        if k == 'iterations':
            toks.append(f'it={int(v)}')
        elif k == 'sweep':
            toks.append(f'sw={v}')
        elif k == 'omega':
            toks.append(f'om={enc_rat(v)}')
        elif k == 'withrho':
            toks.append(f'rho={1 if v else 0}')
    return a, (','.join(toks) if toks else '-'), cb


def modelled(spec):
    """does the Lean model interpret every option of this spec?"""
    arg, opts = spec['arg'], spec.get('opts') or {}
    if arg is None or arg == 'other':
        return not opts
    if arg.startswith('cb:'):
        return arg[3:] in ('scale', 'flat', 'short')
    if arg in DIRECT or arg == 'pinv2':
        return True          # extra kwargs of the direct solvers do not change the contract
    if arg in ('gauss_seidel', 'sor'):
        return set(opts) <= {'iterations', 'sweep', 'omega'}
    if arg == 'jacobi':
        return opts.get('withrho') is False and set(opts) <= {'iterations', 'omega', 'withrho'}
    return arg not in RELAX and arg not in KRYLOV      # unknown names: dispatch only


def modelled_x(spec):
    """does the extended relaxation model (C16R.relaxSolveR) interpret every option of this spec?"""
    arg, opts = spec['arg'], spec.get('opts') or {}
    return isinstance(arg, str) and arg in XOPTS and set(opts) <= XOPTS[arg]


def gen_specs(rng, mat, quick=True):
    """the specs tried on one matrix"""
    specs = []
    for nm in DIRECT:
        specs.append({'arg': nm})
    # option variants that must not change the answer (every matrix; cheap)
    specs.append({'arg': 'cholesky', 'opts': {'lower': bool(rng.random() < 0.7)}})
    specs.append({'arg': 'splu', 'opts': {'permc_spec': str(rng.choice(['NATURAL', 'MMD_ATA', 'MMD_AT_PLUS_A', 'COLAMD']))}})
    specs.append([{'arg': 'lu', 'opts': {'overwrite_a': True}}, {'arg': 'lu', 'opts': {'check_finite': False}},
                  {'arg': 'pinv', 'opts': {'atol': 0.0}}, {'arg': 'pinv', 'opts': {'rtol': 1e-13}},
                  {'arg': 'cholesky', 'opts': {'overwrite_a': True, 'lower': True}},
                  {'arg': 'splu', 'opts': {'options': {'Equil': False}}}][int(rng.integers(6))])
    extra = [
        {'arg': 'pinv2'}, {'arg': 'pinv', 'opts': {'rtol': 1e-12}}, {'arg': 'lu', 'opts': {'check_finite': False}},
        {'arg': 'lu', 'tuple': True}, {'arg': 'cholesky', 'opts': {'lower': True}}, {'arg': 'cholesky', 'opts': {'lower': False}},
        {'arg': 'splu', 'opts': {'permc_spec': 'NATURAL'}}, {'arg': 'splu', 'opts': {'permc_spec': 'COLAMD'}},
        {'arg': None}, {'arg': None, 'tuple': True},
        {'arg': 'cb:scale'}, {'arg': 'cb:scale', 'opts': {'q': 3.0}}, {'arg': 'cb:flat', 'opts': {'q': -2.0}}, {'arg': 'cb:flat'},
        {'arg': 'cb:short'}, {'arg': 'cb:spsolve'},
    ]
    relax = [
        {'arg': 'gauss_seidel'}, {'arg': 'gauss_seidel', 'opts': {'iterations': int(rng.integers(1, 5))}},
        {'arg': 'gauss_seidel', 'opts': {'sweep': str(rng.choice(['backward', 'symmetric', 'forward']))}},
        {'arg': 'gauss_seidel', 'opts': {'iterations': int(rng.integers(1, 4)), 'sweep': str(rng.choice(['backward', 'symmetric']))}},
        {'arg': 'sor'}, {'arg': 'sor', 'opts': {'omega': float(rng.choice([0.25, 0.75, 1.0, 1.5])), 'sweep': str(rng.choice(['forward', 'backward', 'symmetric']))}},
        {'arg': 'sor', 'opts': {'iterations': int(rng.integers(1, 4)), 'omega': float(rng.choice([0.5, 1.25, 1.75]))}},
        {'arg': 'jacobi', 'opts': {'withrho': False, 'omega': float(rng.choice([0.125, 0.25, 0.5]))}},
        {'arg': 'jacobi', 'opts': {'withrho': False, 'omega': 0.25, 'iterations': int(rng.integers(1, 4))}},
        {'arg': 'jacobi'}, {'arg': 'block_gauss_seidel'}, {'arg': 'schwarz'}, {'arg': 'block_jacobi'}, {'arg': 'richardson'},
        {'arg': 'chebyshev'}, {'arg': 'jacobi_ne'}, {'arg': 'gauss_seidel_ne'}, {'arg': 'gauss_seidel_nr'},
        {'arg': 'gauss_seidel_ne', 'opts': {'sweep': 'symmetric', 'iterations': int(rng.integers(1, 4))}},
        {'arg': 'gauss_seidel_nr', 'opts': {'sweep': 'backward', 'iterations': int(rng.integers(1, 4))}},
        {'arg': 'jacobi', 'opts': {'iterations': int(rng.integers(1, 4))}},
        {'arg': 'richardson', 'opts': {'iterations': 1}}, {'arg': 'chebyshev', 'opts': {'iterations': 1, 'degree': 2}},
        {'arg': 'block_gauss_seidel', 'opts': {'sweep': 'symmetric', 'iterations': 2}},
        {'arg': 'schwarz', 'opts': {'iterations': 1, 'sweep': 'symmetric'}},
    ]
    kry = [{'arg': nm} for nm in KRYLOV] + [{'arg': 'cg', 'opts': {'maxiter': 30}}, {'arg': 'gmres', 'opts': {'tol': 1e-10}}]
    k = 3 if quick else 5
    # relaxation / Krylov clauses apply to Hermitian positive definite matrices: spend the budget there
    M = mat.M
    is_hpd = bool(mat.n > 0 and np.array_equal(M, M.conj().T) and np.linalg.eigvalsh(M).min() > 1e-9)
    for pool, kk in ((extra, k), (relax, k + 2 if is_hpd else 1), (kry, k if is_hpd else 1)):
        idx = rng.choice(len(pool), size=min(kk, len(pool)), replace=False)
        specs += [pool[int(i)] for i in idx]
    return specs


def gen_specs_x(rng, mat, quick=True):
    """extension E29: option grids of the relaxation setups modelled by C16R.relaxSolveR, drawn from a generator of their own
    (the stream of the other cases is left as it was)"""
    pool = [
        # damping chosen so that the energy clause applies on every SPD matrix with n <= 8: omega * lambda_max(D^-1 A) <= 2
        {'arg': 'jacobi', 'opts': {'omega': float(rng.choice([0.5, 1.0, 1.5])), 'iterations': int(rng.integers(1, 4))}},
        {'arg': 'jacobi', 'opts': {'withrho': True, 'omega': float(rng.choice([0.75, 1.25]))}},
        {'arg': 'block_jacobi', 'opts': {'omega': float(rng.choice([0.5, 1.0, 1.5])), 'iterations': int(rng.integers(1, 4))}},
        {'arg': 'block_jacobi', 'opts': {'withrho': False, 'omega': float(rng.choice([0.125, 0.25]))}},
        {'arg': 'block_jacobi', 'opts': {'withrho': True, 'iterations': int(rng.integers(1, 3))}},
        {'arg': 'block_gauss_seidel', 'opts': {'sweep': str(rng.choice(['backward', 'forward', 'symmetric'])), 'iterations': int(rng.integers(1, 4))}},
        {'arg': 'block_gauss_seidel', 'opts': {'sweep': 'backward'}},
        {'arg': 'richardson', 'opts': {'omega': float(rng.choice([0.5, 1.5])), 'iterations': int(rng.integers(1, 4))}},
        {'arg': 'richardson', 'opts': {'omega': 1.0}},
        {'arg': 'chebyshev', 'opts': {'degree': int(rng.integers(1, 5)), 'iterations': int(rng.integers(1, 4))}},
        {'arg': 'chebyshev', 'opts': {'lower_bound': float(rng.choice([0.0625, 0.125])), 'upper_bound': float(rng.choice([1.125, 1.25]))}},
        {'arg': 'jacobi_ne', 'opts': {'omega': float(rng.choice([0.5, 1.0])), 'iterations': int(rng.integers(1, 4))}},
        {'arg': 'jacobi_ne', 'opts': {'withrho': False, 'omega': float(rng.choice([0.125, 0.25])), 'iterations': int(rng.integers(1, 4))}},
        {'arg': 'gauss_seidel_ne', 'opts': {'omega': float(rng.choice([0.5, 1.5])), 'sweep': str(rng.choice(['backward', 'forward', 'symmetric']))}},
        {'arg': 'gauss_seidel_ne', 'opts': {'sweep': 'backward', 'iterations': int(rng.integers(1, 4))}},
        {'arg': 'gauss_seidel_nr', 'opts': {'omega': float(rng.choice([0.5, 1.5])), 'sweep': str(rng.choice(['backward', 'forward', 'symmetric']))}},
        {'arg': 'gauss_seidel_nr', 'opts': {'sweep': 'symmetric', 'iterations': int(rng.integers(1, 4))}},
    ]
    M = mat.M
    is_hpd = bool(mat.n > 0 and np.array_equal(M, M.conj().T) and np.linalg.eigvalsh(M).min() > 1e-9)
    kk = (3 if quick else 4) if is_hpd else 1
    idx = rng.choice(len(pool), size=min(kk, len(pool)), replace=False)
    return [pool[int(i)] for i in idx]


def gen_history(rng, mat, spec):
    n = mat.n
    k = int(rng.choice([1, 2, 2, 3, 3, 4]))
    calls = []
    D = mat.M
    for t in range(k):
        shape = 'v' if rng.random() < 0.5 else 'c'
        mode = rng.random()
        if t > 0 and mode < 0.1:
            b = calls[int(rng.integers(len(calls)))]['b'].copy()       # repeated right-hand side
        elif mode < 0.2:
            b = np.zeros(n, dtype=D.dtype)
        elif mode < 0.55:
            x = rng.integers(-3, 4, size=n).astype(D.dtype)
            if mat.cplx:
                x = x + 1j * rng.integers(-2, 3, size=n)
            b = D @ x                                                   # consistent
        else:
            b = rng.integers(-4, 5, size=n).astype(D.dtype)
            if mat.cplx:
                b = b + 1j * rng.integers(-3, 4, size=n)
        b = np.asarray(b, dtype=D.dtype)
        bdt = None
        if rng.random() < 0.22:
            # a right-hand side whose dtype differs from the matrix (direct use of the solver object)
            if mat.cplx:
                bdt = str(rng.choice(['float64', 'float32', 'int64']))
                b = b.real.astype(bdt)
            else:
                bdt = str(rng.choice(['complex128', 'complex64', 'float32', 'int64', 'int32']))
                if bdt.startswith('complex'):
                    b = (b + 1j * rng.integers(-3, 4, size=n)).astype(bdt)
                else:
                    b = np.round(b).astype(bdt) if np.all(np.abs(b) < 2 ** 20) else b
                    bdt = str(b.dtype)
        calls.append({'shape': shape, 'b': b, 'k': 0, 'aslist': bool(rng.random() < 0.08), 'bdtype': bdt})
    return calls


# ----------------------------------------------------------------------------------------------
# encoding / decoding
# ----------------------------------------------------------------------------------------------

def enc_vec(v, cplx):
    v = np.asarray(v).ravel()
    if v.size == 0:
        return '-'
    return ','.join((enc_crat(z) if cplx else enc_rat(z)) for z in v)


def enc_csr(A, cplx):
    return f'{A.shape[0]} {enc_ints(A.indptr)} {enc_ints(A.indices)} {enc_vec(A.data, cplx)}'


def enc_dense(M, cplx):
    return ';'.join(enc_vec(r, cplx) for r in M) if M.shape[0] else '-'


def dec_num(t):
    if '|' in t:
        a, b = t.split('|')
        return complex(float(Fraction(a)), float(Fraction(b)))
    return float(Fraction(t))


def dec_vec(s):
    return np.array([] if s in ('-', '') else [dec_num(t) for t in s.split(',')])


def dec_fvec(s):
    """exact: list of Fraction or (Fraction, Fraction)"""
    out = []
    for t in ([] if s in ('-', '') else s.split(',')):
        if '|' in t:
            a, b = t.split('|')
            out.append((Fraction(a), Fraction(b)))
        else:
            out.append(Fraction(t))
    return out


# ----------------------------------------------------------------------------------------------
# running the real code
# ----------------------------------------------------------------------------------------------

class FactorCounter:
    """counts calls of the factorisation routines the direct branches use"""

    def __enter__(self):
        import scipy.linalg
        import scipy.sparse.linalg
        import pyamg.multilevel as mlv
        self.count = 0
        self.kwargs = []
        self.saved = []

        def wrap(obj, name):
            orig = getattr(obj, name)

            def f(*a, **k):
                self.count += 1
                self.kwargs.append(dict(k))
                return orig(*a, **k)
            self.saved.append((obj, name, orig))
            setattr(obj, name, f)
        if hasattr(mlv, 'pinv'):
            wrap(mlv, 'pinv')
        wrap(scipy.linalg, 'lu_factor')
        wrap(scipy.linalg, 'cho_factor')
        wrap(scipy.sparse.linalg, 'splu')
        return self

    def __exit__(self, *exc):
        for obj, name, orig in reversed(self.saved):
            setattr(obj, name, orig)
        return False


class GuessSpy:
    """records the iterate handed to the smoother a relaxation-based coarse solver installs"""

    def __init__(self, name):
        self.name, self.seen = name, []

    def __enter__(self):
        from pyamg.relaxation import smoothing
        self.mod = smoothing
        self.attr = 'setup_' + str(self.name)
        self.orig = getattr(smoothing, self.attr, None)
        if self.orig is not None:
            orig, seen = self.orig, self.seen

            def spy(lvl, *a, **k):
                relax = orig(lvl, *a, **k)

                def wrapped(A, x, b):
                    seen.append(np.array(x, copy=True))
                    return relax(A, x, b)
                return wrapped
            setattr(smoothing, self.attr, spy)
        return self

    def __exit__(self, *exc):
        if self.orig is not None:
            setattr(self.mod, self.attr, self.orig)
        return False


class RecSpy:
    """records what the setup functions of pyamg.relaxation.smoothing obtain from routines outside the Lean model
    (spectral-radius estimates, inverted diagonal blocks, Chebyshev coefficients): the recorded inputs of C16R.Rec"""
    NAMES = ['rho_D_inv_A', 'rho_block_D_inv_A', 'approximate_spectral_radius', 'get_block_diag',
             'chebyshev_polynomial_coefficients']

    def __enter__(self):
        from pyamg.relaxation import smoothing
        self.mod, self.saved, self.last = smoothing, {}, {}

        def mk(nm, orig):
            def f(*a, **k):
                r = orig(*a, **k)
                self.last[nm] = {'value': np.array(r, copy=True), 'args': [v for v in a if np.isscalar(v)], 'kwargs': {kk: vv for kk, vv in k.items() if np.isscalar(vv)}}
                return r
            return f
        for nm in self.NAMES:
            orig = getattr(smoothing, nm, None)
            if orig is not None:
                self.saved[nm] = orig
                setattr(smoothing, nm, mk(nm, orig))
        # extension E51: the tuple relaxation.schwarz_parameters hands to setup_schwarz (and to relaxation.schwarz)
        from pyamg.relaxation import relaxation as _rl
        self.rl, self.sp_orig = _rl, _rl.schwarz_parameters

        def sp(*a, **k):
            r = self.sp_orig(*a, **k)
            self.last['schwarz_parameters'] = {'value': tuple(np.array(v, copy=True) for v in r), 'args': [], 'kwargs': {}}
            return r
        _rl.schwarz_parameters = sp
        return self

    def take(self):
        d, self.last = self.last, {}
        return d

    def __exit__(self, *exc):
        for nm, orig in self.saved.items():
            setattr(self.mod, nm, orig)
        self.rl.schwarz_parameters = self.sp_orig
        return False


def run_impl(mats, spec, calls, seed):
    """-> dict(ctor_error, results=[{'x','shape','exc'}], nfact, guesses)"""
    out = {'ctor_error': None, 'results': [], 'nfact': None, 'guesses': []}
    try:
        solver = make_solver(spec)
    except Exception as e:
        out['ctor_error'] = f'{type(e).__name__}: {e}'
        return out
    As = [m.sparse() for m in mats]
    name = spec['arg'] if isinstance(spec['arg'], str) else None
    import warnings
    with FactorCounter() as fc, GuessSpy(name if name in RELAX else '__none__') as spy, RecSpy() as rs, warnings.catch_warnings(), \
            np.errstate(all='ignore'):
        warnings.simplefilter('ignore')
        warnings.showwarning = lambda *a, **k: None      # pyamg.krylov re-enables its own warnings ('always')
        for c in calls:
            b = np.array(c['b'], copy=True)
            if c['shape'] == 'c':
                b = b.reshape(-1, 1)
            np.random.seed(seed)
            arg_b = b.tolist() if c.get('aslist') else b
            rs.take()
            try:
                x = solver(As[c['k']], arg_b)
                out['results'].append({'x': np.asarray(x), 'exc': None, 'bshape': b.shape, 'rec': rs.take()})
            except Exception as e:
                out['results'].append({'x': None, 'exc': f'{type(e).__name__}: {e}', 'bshape': b.shape, 'rec': rs.take()})
            if name in XOPTS and out['results'][-1]['exc'] is None and b.dtype == As[c['k']].dtype and b.size:
                # stability probe for the comparison with the exact relaxation model: the same object on a slightly perturbed
                # right-hand side (same cached spectral-radius estimate) measures how much the iteration amplifies a perturbation
                nb = float(np.linalg.norm(b)) or 1.0
                d = np.random.RandomState(20260930).standard_normal(b.size).reshape(b.shape)
                d = (d / np.linalg.norm(d) * 1e-9 * nb).astype(b.dtype)
                try:
                    x2 = np.asarray(solver(As[c['k']], b + d))
                    out['results'][-1]['amp'] = float(np.linalg.norm(x2.ravel() - out['results'][-1]['x'].ravel()) / (1e-9 * nb))
                except Exception:
                    pass
                rs.take()
        out['nfact'] = fc.count
        out['fact_kwargs'] = fc.kwargs
        out['guesses'] = spy.seen
    return out


# ----------------------------------------------------------------------------------------------
# one batch of cases: model, oracle, judgement
# ----------------------------------------------------------------------------------------------

def case_dict(mats, spec, calls):
    return {'mats': [m.to_case() for m in mats], 'spec': {'arg': spec['arg'], 'opts': spec.get('opts') or {}, 'tuple': bool(spec.get('tuple'))},
            'calls': [{'shape': c['shape'], 'k': c['k'], 'aslist': bool(c.get('aslist')), 'bdtype': str(np.asarray(c['b']).dtype),
                       'b': ([[float(z.real), float(z.imag)] for z in c['b']] if np.iscomplexobj(c['b']) else [float(z) for z in c['b']])}
                      for c in calls]}


def case_from_dict(d):
    mats = [Mat.from_case(m) for m in d['mats']]
    calls = []
    for c in d['calls']:
        b = c['b']
        if len(b) and isinstance(b[0], (list, tuple)):
            b = np.array([complex(z[0], z[1]) for z in b], dtype=complex)
        else:
            b = np.array(b, dtype=complex if mats[0].cplx else float)
        if c.get('bdtype'):
            b = b.real.astype(c['bdtype']) if (np.iscomplexobj(b) and not c['bdtype'].startswith('complex')) else b.astype(c['bdtype'])
        calls.append({'shape': c['shape'], 'k': c.get('k', 0), 'b': b, 'aslist': bool(c.get('aslist'))})
    spec = {'arg': d['spec']['arg'], 'opts': d['spec'].get('opts') or {}, 'tuple': d['spec'].get('tuple', False)}
    return mats, spec, calls


def matrix_facts(mat):
    """float-side classification used to choose the applicable clauses (the exact flags come from Lean)"""
    M = mat.M
    n = mat.n
    f = {'n': n}
    A = mat.csr()
    f['nnz'] = int(A.nnz)
    s = np.linalg.svd(M, compute_uv=False) if n else np.array([])
    smax = s.max() if s.size else 0.0
    pos = s[s > 1e-9 * max(smax, 1e-300)] if s.size else s
    f['rank'] = int(pos.size)
    f['cond'] = float(smax / pos.min()) if pos.size else 1.0
    f['sminp'] = float(pos.min()) if pos.size else 1.0
    zr = [i for i in range(n) if not M[i].any()]
    zc = [j for j in range(n) if not M[:, j].any()]
    f['zero_rows'], f['zero_cols'] = zr, zc
    f['herm'] = bool(np.array_equal(M, M.conj().T))
    return f


def case_cplx(mats, calls):
    """the scalar field of the model run: Gaussian rationals as soon as a matrix or a right-hand side is complex"""
    return bool(any(m.cplx for m in mats) or any(np.iscomplexobj(c['b']) for c in calls))


def judge_batch(ctx, items, seed=0):
    """items: list of (mats, spec, calls).  Runs model + oracle (Lean) and the real code; records
    correspondence failures and violations."""
    # ---- batch 1: model runs + exact oracles (the oracles once per distinct matrix)
    lines, index = [], []
    seen = {}
    for it, (mats, spec, calls) in enumerate(items):
        cplx = case_cplx(mats, calls)
        f = 'c' if cplx else 'r'
        a, o, cb = lean_tokens(spec)
        callstr = ';'.join(f'{c["k"]}:{c["shape"]}:{enc_vec(c["b"], cplx)}' for c in calls)
        matstr = ' '.join(enc_csr(m.csr(), cplx) for m in mats)
        lines.append(f'c16_run {f} {a} {o} {cb} {callstr} {matstr}')
        index.append((it, 'run'))
        mk = (mats[0].M.tobytes(), mats[0].M.shape, cplx)
        if mk not in seen:
            seen[mk] = it
            dm = enc_dense(mats[0].M, cplx)
            lines.append(f'c16_pinv {f} {mats[0].n} {dm}')
            index.append((it, 'pinv'))
            lines.append(f'c16_hpd {f} {mats[0].n} {dm}')
            index.append((it, 'hpd'))
            lines.append(f'c16_solve {f} {mats[0].n} {dm} {enc_vec(calls[0]["b"], cplx)}')
            index.append((it, 'solve'))
    replies = lean(ctx, lines)
    info = [dict() for _ in items]
    for (it, what), r in zip(index, replies):
        info[it][what] = r
    for it, (mats, spec, calls) in enumerate(items):
        src = seen[(mats[0].M.tobytes(), mats[0].M.shape, case_cplx(mats, calls))]
        if src != it:
            for w in ('pinv', 'hpd'):
                info[it][w] = info[src][w]
        else:
            info[it]['solve_b'] = calls[0]['b']
    # ---- real code + judgement
    quad_lines, quad_index = [], []
    pending = []
    for it, (mats, spec, calls) in enumerate(items):
        res = _judge_one(ctx, mats, spec, calls, info[it], seed)
        pending.append(res)
        for (ci, line) in res.get('quad', []):
            quad_lines.append(line)
            quad_index.append((it, ci, 'quad'))
        for (ci, line) in res.get('xrelax', []):
            quad_lines.append(line)
            quad_index.append((it, ci, 'xrelax'))
        for (ci, kind, line) in res.get('xhyp', []):
            quad_lines.append(line)
            quad_index.append((it, ci, 'xhyp:' + kind))
    if quad_lines:
        qr = lean(ctx, quad_lines)
        for (it, ci, what), r in zip(quad_index, qr):
            mats, spec, calls = items[it]
            if what == 'quad':
                _judge_energy(ctx, mats, spec, calls, ci, pending[it], r)
            elif what.startswith('xhyp:'):
                _judge_xhyp(ctx, mats, spec, calls, ci, pending[it], r, what[5:])
            else:
                _judge_xrelax(ctx, mats, spec, calls, ci, pending[it], r)


def _exact_matvec(X, b):
    """X: list of rows of Fractions / pairs; b: ndarray -> float ndarray of the exact product"""
    cplx = bool(X) and isinstance(X[0][0], tuple)
    bb = [(frac(z.real), frac(z.imag)) if cplx else frac(z.real if np.iscomplexobj(b) else z) for z in np.asarray(b).ravel()]
    out = []
    for row in X:
        if cplx:
            re = sum((a[0] * c[0] - a[1] * c[1] for a, c in zip(row, bb)), Fraction(0))
            im = sum((a[0] * c[1] + a[1] * c[0] for a, c in zip(row, bb)), Fraction(0))
            out.append(complex(float(re), float(im)))
        else:
            out.append(float(sum((a * c for a, c in zip(row, bb)), Fraction(0))))
    return np.array(out)


def _parse_run(reply):
    if reply == 'ValueError':
        return 'ValueError', None
    body, cnt = reply.rsplit('#', 1)
    outs = []
    for tok in body.split(';'):
        if tok.startswith('ok:'):
            _, sh, xs = tok.split(':', 2)
            outs.append(('ok', sh, dec_vec(xs)))
        else:
            outs.append(('err', tok[4:], None))
    return outs, int(cnt)


def _judge_one(ctx, mats, spec, calls, inf, seed):
    mat = mats[0]
    cplx = mat.cplx
    arg = spec['arg']
    name = arg if isinstance(arg, str) else None
    case = case_dict(mats, spec, calls)
    facts = matrix_facts(mat)
    n = mat.n
    multi = len(mats) > 1 and any(c['k'] != 0 for c in calls)
    key = _key(mat.M.tobytes(), mat.explicit, mat.fmt, repr(spec), [(c['shape'], c['k'], str(c['b'].dtype), c['b'].tobytes()) for c in calls])
    ctx.case(key=key, nontrivial=(facts['nnz'] > 0 and n >= 2 and len(calls) >= 2),
             sample={'spec': repr(spec), 'class': mat.cls, 'n': n, 'calls': len(calls), 'model': inf['run'][:120]} if ctx.evaluations % 211 == 0 else None)
    ctx.feat('class:' + mat.cls)
    ctx.feat('fmt:' + mat.fmt)
    ctx.feat('solver:' + (name if name else repr(arg)))
    ctx.feat('calls:%d' % len(calls))
    for c in calls:
        ctx.feat('bshape:' + c['shape'] + ('-list' if c.get('aslist') else ''))
    if multi:
        ctx.feat('hist:matrix-changes')
    if spec.get('opts'):
        ctx.feat('spec:tuple-with-options')

    def viol(what, fkey=None, **extra):
        ctx.violation(what, {**case, **extra}, fkey=fkey)

    # ---- exact oracles for matrix 0
    pinv_s, pen_ok, inv_ok = inf['pinv'].split('#')
    pen_ok, inv_ok = pen_ok == 'true', inv_ok == 'true'
    hpd = inf['hpd'] == 'true'
    if not pen_ok and n > 0:
        ctx.corr('oracle: pinvD does not satisfy the Penrose equations', {'M': case['mats'][0]}, inf['pinv'][:200], '')
    X = [dec_fvec(r) for r in pinv_s.split(';')] if pinv_s not in ('-', '') else []
    # cross-check of the two exact engines on the first right-hand side
    if 'solve' not in inf:
        pass
    elif inv_ok:
        if inf['solve'] == 'singular':
            ctx.corr('oracle: gaussSolve says singular, pinvD gives an inverse', {'M': case['mats'][0]}, inf['solve'], inf['pinv'][:200])
        else:
            x1 = dec_vec(inf['solve'])
            x2 = _exact_matvec(X, inf['solve_b'])
            if x1.shape != x2.shape or not np.allclose(x1, x2, rtol=1e-12, atol=1e-300):
                ctx.corr('oracle: gaussSolve and pinvD disagree', {'M': case['mats'][0]}, inf['solve'][:200], str(x2)[:200])
    elif inf.get('solve', 'singular') != 'singular' and n > 0:
        ctx.corr('oracle: gaussSolve finds a solution for every pivot, pinvD is not an inverse', {'M': case['mats'][0]}, inf['solve'], inf['pinv'][:200])

    model, mcount = _parse_run(inf['run'])
    impl = run_impl(mats, spec, calls, seed)
    out = {'impl': impl, 'quad': [], 'xrelax': [], 'xhyp': [], 'facts': facts, 'case': case, 'hpd': hpd}

    # ---- constructor
    if model == 'ValueError':
        ctx.feat('dispatch:unknown')
        if impl['ctor_error'] is None:
            ctx.corr('dispatch: the model rejects this solver argument, coarse_grid_solver accepts it', case, 'ValueError', 'constructed')
        elif not impl['ctor_error'].startswith('ValueError'):
            ctx.corr('dispatch: constructor raised another exception', case, 'ValueError', impl['ctor_error'])
        return out
    if impl['ctor_error'] is not None:
        ctx.corr('dispatch: coarse_grid_solver raised at construction', case, inf['run'][:200], impl['ctor_error'])
        viol(f'coarse_grid_solver({spec["arg"]!r}, {spec.get("opts") or {}}) raised {impl["ctor_error"]}')
        return out

    any_model_err = False
    undefined = False         # a contract-undefined factorisation happened: the cache states may differ from here on
    for ci, (c, r) in enumerate(zip(calls, impl['results'])):
        m = model[ci]
        Ak = mats[c['k']]
        fk = facts if c['k'] == 0 else matrix_facts(Ak)
        bshape = r['bshape']
        b = c['b']
        stale = multi and any(cc['k'] != calls[0]['k'] for cc in calls[:ci + 1])
        mixed = np.asarray(b).dtype != Ak.M.dtype
        if mixed:
            ctx.feat(f'mixed-dtype:A-{Ak.M.dtype}:b-{np.asarray(b).dtype}')
            if r['exc'] is not None and (r['exc'].startswith(('TypeError', 'ValueError')) or name in KRYLOV):
                if m[0] == 'err':
                    any_model_err = True
                    if m[1] in ('singular', 'not-hpd'):
                        undefined = True
                # the code refuses the dtype combination (relaxation kernels, SuperLU, SciPy minres): an explicit
                # rejection, not a wrong answer; what is judged for mixed dtypes is every value that IS returned
                ctx.feat('mixed-dtype-rejected:' + str(name))
                continue
        # ---------- correspondence with the extended relaxation model (second Lean batch: it needs the recorded inputs)
        if name in XOPTS and modelled_x(spec) and not mixed and fk['nnz'] > 0:
            out['xrelax'].append((ci, xrelax_line(Ak, spec, c, r.get('rec') or {})))
            if c['k'] == 0 and hpd and not Ak.cplx and not np.iscomplexobj(c['b']) and r['exc'] is None:
                # extension E51: the per-instance hypotheses of the energy theorems for schwarz / block storage / chebyshev
                for kind, line in xhyp_lines(Ak, spec, r.get('rec') or {}):
                    out['xhyp'].append((ci, kind, line))
        # ---------- correspondence with the model
        if undefined and multi:
            pass
        elif m[0] == 'ok':
            if r['exc'] is not None:
                ctx.corr(f'call {ci}: the model returns a vector, the code raised', case, m[2], r['exc'])
            else:
                x = r['x']
                msh = (n,) if m[1] == 'v' else (n, 1)
                if Ak.n != n:
                    msh = (Ak.n,) if m[1] == 'v' else (Ak.n, 1)
                if tuple(x.shape) != msh:
                    ctx.corr(f'call {ci}: shape', case, msh, tuple(x.shape))
                elif not np.all(np.isfinite(x)):
                    ctx.corr(f'call {ci}: non-finite result', case, m[2], x)
                else:
                    scale = max(1.0, float(np.abs(m[2]).max()) if m[2].size else 1.0)
                    tol = TOL * max(fk['cond'], 1.0) * scale * 10
                    if name in RELAX:
                        tol = 1e-9 * scale
                    if x.dtype in (np.float32, np.complex64):
                        tol = max(tol, 1e-5 * scale)       # a single-precision result (callable / None on a float32 b)
                    if fk['cond'] > 1e6:
                        ctx.near_skipped += 1
                    else:
                        err = float(np.abs(x.ravel() - m[2]).max()) if m[2].size else 0.0
                        ctx.rel_err(err / scale)
                        if err > tol:
                            ctx.corr(f'call {ci}: values (max abs difference {err:.3e} > {tol:.1e})', case, m[2], x.ravel())
        else:
            any_model_err = True
            why = m[1]
            ctx.feat('model-err:' + why)
            if why in ('singular', 'not-hpd'):
                undefined = True
            if why in ('shape', 'reshape', 'TypeError') and r['exc'] is None:
                ctx.corr(f'call {ci}: the model raises ({why}), the code returned', case, why, r['x'])
        # ---------- the property on the real output
        if stale:
            continue                      # a different matrix after the first call: outside the property
        _judge_call(ctx, out, ci, Ak, fk, spec, c, r, X if c['k'] == 0 else None, inv_ok if c['k'] == 0 else None,
                    hpd if c['k'] == 0 else None, viol)
    # ---------- number of factorisation calls (model fidelity: "reusing the factorisation")
    if name in DIRECT + ['pinv2'] and not any_model_err and all(r['exc'] is None for r in impl['results']):
        if impl['nfact'] != mcount:
            ctx.corr('number of factorisation calls over the history', case, mcount, impl['nfact'])
        want_kw = dict(spec.get('opts') or {})
        if impl['fact_kwargs'] and impl['fact_kwargs'][0] != want_kw:
            ctx.corr('the options of the (name, options) tuple do not reach the factorisation routine', case, want_kw, impl['fact_kwargs'][0])
    # ---------- zero guess observed
    if name in RELAX and impl['guesses']:
        for g in impl['guesses']:
            if np.any(g != 0):
                viol(f'coarse_grid_solver({spec["arg"]!r}, {spec.get("opts") or {}}): the relaxation starts from a non-zero guess {g.ravel()[:6]}')
                break
        ctx.feat('guess-observed')
    return out


def _judge_call(ctx, out, ci, Ak, fk, spec, c, r, X, inv_ok, hpd, viol):
    arg = spec['arg']
    name = arg if isinstance(arg, str) else None
    n = Ak.n
    b = c['b']
    bshape = r['bshape']
    D = Ak.M
    tag = f'coarse_grid_solver({arg!r}{", " + repr(spec["opts"]) if spec.get("opts") else ""}) call {ci} (n={n}, class {Ak.cls}, b.shape={bshape})'
    x = r['x']
    exc = r['exc']

    def raised_is_violation():
        viol(f'{tag}: raised {exc}')

    # matrices without stored entries: zero correction, every solver
    if fk['nnz'] == 0:
        ctx.feat('clause:empty-matrix')
        if exc is not None:
            raised_is_violation()
        elif tuple(x.shape) != tuple(bshape) or np.any(x != 0):
            viol(f'{tag}: matrix without stored entries, result {x.ravel()[:6]} with shape {x.shape} instead of zeros{bshape}')
        return
    # shape of b, whenever something is returned
    if exc is None and tuple(x.shape) != tuple(bshape):
        viol(f'{tag}: result has shape {x.shape}')
        return
    allzero = not D.any()
    kind = 'pinv' if name in ('pinv', 'pinv2') else name
    if kind in DIRECT:
        applicable = None
        if kind == 'pinv':
            applicable = 'pinv-singular' if fk['rank'] < n else 'nonsingular'
        elif kind == 'lu':
            applicable = 'nonsingular' if inv_ok else None
        elif kind == 'cholesky':
            applicable = 'nonsingular' if (inv_ok and hpd) else None
        elif kind == 'splu':
            if inv_ok:
                applicable = 'nonsingular'
            elif fk['zero_rows'] == fk['zero_cols'] and fk['zero_rows']:
                keep = [i for i in range(n) if i not in fk['zero_rows']]
                core = D[np.ix_(keep, keep)]
                if not keep or (np.linalg.matrix_rank(core) == len(keep) and np.linalg.cond(core) < 1e6):
                    applicable = 'splu-zero-rows-cols'
        if inv_ok is None or X is None:
            applicable = None
        if applicable is None:
            ctx.feat(f'outside-clause:{kind}')
            return
        ctx.feat(f'clause:{kind}:{applicable}')
        if fk['cond'] > 1e6:
            ctx.near_skipped += 1
            return
        if exc is not None:
            raised_is_violation()
            return
        xs = _exact_matvec(X, b)
        if not np.all(np.isfinite(x)):
            viol(f'{tag}: non-finite result {x.ravel()[:6]}; exact {"minimum-norm least-squares " if applicable != "nonsingular" else ""}solution {xs[:6]}')
            return
        scale = max(float(np.linalg.norm(b)) / fk['sminp'], float(np.linalg.norm(xs)), 1e-300)
        err = float(np.linalg.norm(x.ravel() - xs))
        ctx.rel_err(err / scale)
        if err > TOL * max(fk['cond'], 1.0) * scale:
            what = {'nonsingular': 'the solution of A x = b', 'pinv-singular': 'the minimum-norm least-squares solution',
                    'splu-zero-rows-cols': 'the solution on the non-zero rows/columns (zero elsewhere)'}[applicable]
            viol(f'{tag}: returned {x.ravel()[:6]}, {what} is {xs[:6]} (error {err:.3e}, cond {fk["cond"]:.2e})')
        return
    if arg is None:
        if exc is not None:          # (the value `0 * b` is compared with the model only: the property does not fix it)
            raised_is_violation()
        return
    if name is not None and name.startswith('cb:'):
        which = name[3:]
        if which == 'short':
            if exc is None:
                viol(f'{tag}: a callable returning n-1 values was reshaped to {x.shape}')
            return
        kw = dict(spec.get('opts') or {})
        bb = b.reshape(bshape)
        try:
            want = np.asarray(CALLABLES[which](Ak.sparse(), bb, **kw)).ravel()
        except Exception:
            ctx.feat('callable-raises-itself')
            return
        if exc is not None:
            raised_is_violation()
            return
        rt = 1e-5 if (x.dtype in (np.float32, np.complex64) or np.asarray(b).dtype in (np.float32, np.complex64)) else 1e-12
        if not np.allclose(x.ravel(), want, rtol=rt, atol=1e-13, equal_nan=True):
            viol(f'{tag}: returned {x.ravel()[:6]}, the callable (with its keyword arguments) gives {want[:6]}')
        return
    if name in KRYLOV:
        if not hpd:
            ctx.feat('outside-clause:krylov-not-hpd')
            return
        if exc is not None:
            raised_is_violation()
            return
        if fk['cond'] < 1e3 and np.linalg.norm(b) > 0 and not (spec.get('opts') or {}).get('maxiter'):
            ctx.feat('clause:krylov-spd')
            res = float(np.linalg.norm(b - D @ x.ravel()) / np.linalg.norm(b))
            if not np.isfinite(res) or res > 1e-6:
                bv = np.asarray(b).ravel()
                # SciPy's minres forms b^T b without conjugation: a complex right-hand side with b^T b = 0 "has converged" at once
                null_bilinear = (name == 'minres' and np.iscomplexobj(bv)
                                 and abs(bv @ bv) <= 1e-12 * float(np.linalg.norm(bv)) ** 2)
                viol(f'{tag}: relative residual {res:.3e} on an SPD matrix with cond {fk["cond"]:.1f}',
                     fkey='minres-complex-rhs-zero-bilinear-form' if null_bilinear else None)
        return
    if name in RELAX:
        if not hpd:
            ctx.feat('outside-clause:relax-not-hpd')
            return
        if exc is not None:
            raised_is_violation()
            return
        if not np.all(np.isfinite(x)):
            viol(f'{tag}: non-finite result {x.ravel()[:6]}')
            return
        if not np.any(b != 0) and np.any(x != 0):
            viol(f'{tag}: b = 0 but the result is {x.ravel()[:6]} (not started from the zero guess)')
            return
        ctx.feat('clause:relax-energy')
        qc = bool(Ak.cplx or np.iscomplexobj(b) or np.iscomplexobj(x))
        f = 'c' if qc else 'r'
        out['quad'].append((ci, f'c16_quad {f} {enc_csr(Ak.csr(), qc)} {enc_vec(b, qc)} {enc_vec(x, qc)}'))
        out.setdefault('xs', {})[ci] = (_exact_matvec(X, b) if X is not None else None, x, tag)
        return


def _xrelax_bs(S):
    return int(S.blocksize[0]) if S.format == 'bsr' else 1


def xrelax_line(Ak, spec, c, rec):
    """one call of a relaxation-based coarse solver for the model C16R.relaxCallR: options, recorded inputs, b, CSR and BSR arrays"""
    name = spec['arg']
    cplx = bool(Ak.cplx or np.iscomplexobj(c['b']))
    f = 'c' if cplx else 'r'
    S = Ak.sparse()
    bs = _xrelax_bs(S)
    _, o, _ = lean_tokens(spec)
    rho_key = XRHO.get(name)
    if name == 'block_jacobi':
        rho_key = 'rho_block_D_inv_A' if bs > 1 else 'rho_D_inv_A'
    rho = '-'
    if rho_key and rho_key in rec:
        rho = enc_vec([complex(rec[rho_key]['value']) if cplx else float(rec[rho_key]['value'])], cplx)
    dinv = enc_vec(rec['get_block_diag']['value'].ravel(), cplx) if 'get_block_diag' in rec else '-'
    cheb = enc_vec(rec['chebyshev_polynomial_coefficients']['value'], cplx) if 'chebyshev_polynomial_coefficients' in rec else '-'
    if bs > 1:
        bsr = f'{S.shape[0] // bs} {enc_ints(S.indptr)} {enc_ints(S.indices)} {enc_vec(S.data.ravel(), cplx)}'
    else:
        bsr = '0 - - -'
    if name == 'schwarz':
        # extension E51: the recorded Schwarz parameters (subdomain, subdomain_ptr, inv_subblock, inv_subblock_ptr)
        if 'schwarz_parameters' in rec:
            sj, sp_, tx, tp = rec['schwarz_parameters']['value']
            spar = f'{enc_ints(sj)} {enc_ints(sp_)} {enc_vec(tx, cplx)} {enc_ints(tp)}'
        else:
            spar = '- - - -'
        return (f'c16y_relax {f} {name} {o} {rho} {bs} {dinv} {cheb} {spar} {c["shape"]} {enc_vec(c["b"], cplx)} '
                f'{enc_csr(Ak.csr(), cplx)} {bsr}')
    return (f'ext_c16_relax {f} {name} {o} {rho} {bs} {dinv} {cheb} {c["shape"]} {enc_vec(c["b"], cplx)} '
            f'{enc_csr(Ak.csr(), cplx)} {bsr}')


def xhyp_lines(Ak, spec, rec):
    """extension E51: Lean lines evaluating, exactly on the recorded inputs, the hypotheses of relax_schwarz_energy
    (`A|_d T_d = I`), relax_block_gauss_seidel_energy / relax_block_jacobi_energy (`A_ii Dinv_i = I`) and relax_chebyshev_energy
    (`|1 - lambda p(lambda)| <= 1` at the floating-point eigenvalues of A); real symmetric positive definite instances only"""
    name = spec['arg']
    S = Ak.sparse()
    bs = _xrelax_bs(S)
    out = []
    if name == 'schwarz' and 'schwarz_parameters' in rec:
        sj, sp_, tx, tp = rec['schwarz_parameters']['value']
        out.append(('schwarz', f'c16y_hyp_schwarz {enc_csr(Ak.csr(), False)} {enc_ints(sj)} {enc_ints(sp_)} {enc_vec(tx, False)} {enc_ints(tp)}'))
    if name in ('block_jacobi', 'block_gauss_seidel') and bs > 1 and 'get_block_diag' in rec:
        out.append(('block', f'c16y_hyp_block {S.shape[0] // bs} {bs} {enc_ints(S.indptr)} {enc_ints(S.indices)} '
                             f'{enc_vec(S.data.ravel(), False)} {enc_vec(rec["get_block_diag"]["value"].ravel(), False)}'))
    if name == 'chebyshev' and 'chebyshev_polynomial_coefficients' in rec and Ak.n > 0:
        lam = np.linalg.eigvalsh(Ak.M)
        out.append(('cheb', f'c16y_poly {enc_vec(rec["chebyshev_polynomial_coefficients"]["value"], False)} {enc_vec(lam, False)}'))
    return out


def _judge_xhyp(ctx, mats, spec, calls, ci, res, reply, kind):
    """features only: does the energy theorem of E51 apply to this instance? (the energy functional of the real output is
    judged on every Hermitian positive definite instance regardless, by _judge_energy)"""
    name = spec['arg']
    opts = spec.get('opts') or {}
    Ak = mats[calls[ci]['k']]
    rec = res['impl']['results'][ci].get('rec') or {}
    if kind == 'schwarz':
        ok, defect = reply.split('#')
        good = ok == 'true' and Fraction(defect) <= Fraction(1, 10 ** 8)
        ctx.feat('thm-hyp:schwarz-exact-blocks-' + ('holds' if good else 'fails'))
    elif kind == 'block':
        good = Fraction(reply) <= Fraction(1, 10 ** 8)
        if name == 'block_jacobi' and good:
            S = Ak.sparse()
            bs = _xrelax_bs(S)
            om = float(opts.get('omega', 1.0))
            if opts.get('withrho', True):
                om = om / float(rec['rho_block_D_inv_A']['value']) if 'rho_block_D_inv_A' in rec else float('nan')
            M = Ak.M
            n = Ak.n
            Db = np.zeros_like(M)
            for i in range(0, n, bs):
                Db[i:i + bs, i:i + bs] = M[i:i + bs, i:i + bs]
            L = np.linalg.cholesky(Db)
            lam = float(np.linalg.eigvalsh(np.linalg.solve(L, np.linalg.solve(L, M).T)).max())
            good = bool(np.isfinite(om) and 0 <= om and om * lam <= 2 * (1 - 1e-9))
            ctx.feat('thm-hyp:block-damping-bound-' + ('holds' if good else 'fails'))
        else:
            ctx.feat(f'thm-hyp:block-inverse-exact-{"holds" if good else "fails"}:{name}')
    elif kind == 'cheb':
        q = dec_fvec(reply)
        good = bool(q) and all(abs(v) <= 1 + Fraction(1, 10 ** 9) for v in q)
        ctx.feat('thm-hyp:chebyshev-spectral-condition-' + ('holds' if good else 'fails'))


def _judge_xrelax(ctx, mats, spec, calls, ci, res, reply):
    """correspondence of one real call with C16R.relaxCallR (exact model run on the recorded inputs)"""
    name = spec['arg']
    r = res['impl']['results'][ci]
    case = res['case']
    Ak = mats[calls[ci]['k']]
    n = Ak.n
    rec = r.get('rec') or {}
    ctx.feat('xrelax:' + name)
    if reply.startswith('err:'):
        why = reply[4:]
        ctx.feat('xrelax-model-err:' + why)
        if r['exc'] is None and np.all(np.isfinite(r['x'])):
            ctx.corr(f'relaxation model, call {ci}: the model raises ({why}), the code returned', case, reply, r['x'].ravel())
        return
    if r['exc'] is not None:
        ctx.corr(f'relaxation model, call {ci}: the model returns a vector, the code raised', case, reply[:200], r['exc'])
        return
    _, sh, xs = reply.split(':', 2)
    m = dec_vec(xs)
    x = r['x']
    msh = (n,) if sh == 'v' else (n, 1)
    if tuple(x.shape) != msh:
        ctx.corr(f'relaxation model, call {ci}: shape', case, msh, tuple(x.shape))
        return
    if not np.all(np.isfinite(x)):
        ctx.feat('xrelax:non-finite-output')          # (judged by the property part on Hermitian positive definite matrices)
        return
    scale = max(1.0, float(np.abs(m).max()) if m.size else 1.0)
    if scale > 1e12:
        ctx.near_skipped += 1                         # a diverging iteration: rounding errors are amplified as well
        return
    err = float(np.abs(x.ravel() - m).max()) if m.size else 0.0
    tol = 1e-8 * scale
    amp = r.get('amp')
    nb = float(np.linalg.norm(np.asarray(calls[ci]['b']))) or 1.0
    if amp is not None and (not np.isfinite(amp) or 1e-14 * amp * nb > 0.1 * tol):
        # an unstable iteration (non-normal / indefinite matrix): rounding errors of the float run are amplified beyond the
        # tolerance although the exact run may not excite the growing mode at all -- no exact comparison possible
        ctx.near_skipped += 1
        ctx.feat('xrelax:unstable-iteration-skipped')
        return
    ctx.rel_err(err / scale)
    if err > tol:
        ctx.corr(f'relaxation model, call {ci}: values (max abs difference {err:.3e} > {tol:.1e})', case, m, x.ravel())
        return
    ctx.feat('xrelax-agrees:' + name)
    if _xrelax_bs(Ak.sparse()) > 1:
        ctx.feat('xrelax-agrees-block-storage:' + name)
    if Ak.cplx and res['hpd'] and calls[ci]['k'] == 0 and name in ('gauss_seidel', 'sor', 'jacobi'):
        ctx.feat('thm:complex-energy-clause:' + name)      # relax_gs/sor/jacobi_energy_complex (E51) cover this run
    # what the recorded calls were asked for (the arguments the model cannot see)
    opts = spec.get('opts') or {}
    if name == 'chebyshev' and 'chebyshev_polynomial_coefficients' in rec and 'approximate_spectral_radius' in rec:
        a = rec['chebyshev_polynomial_coefficients']['args']
        rho = float(rec['approximate_spectral_radius']['value'])
        want = [rho * opts.get('lower_bound', 1.0 / 30.0), rho * opts.get('upper_bound', 1.1), opts.get('degree', 3)]
        if len(a) == 3 and not np.allclose(np.array(a, dtype=float), np.array(want, dtype=float), rtol=1e-12, atol=0):
            ctx.corr(f'chebyshev: interval / degree handed to chebyshev_polynomial_coefficients', case, want, a)
    # the hypotheses of the energy theorems (relax_jacobi_energy / relax_richardson_energy), evaluated in floating point
    if res['hpd'] and not Ak.cplx and name in ('jacobi', 'block_jacobi', 'richardson') and _xrelax_bs(Ak.sparse()) == 1:
        om = float(opts.get('omega', 1.0))
        key = XRHO.get(name, 'rho_D_inv_A')
        if name == 'richardson' or opts.get('withrho', True):
            om = om / float(rec[key]['value']) if key in rec else float('nan')
        M = Ak.M
        d = np.diag(M) if name != 'richardson' else np.ones(n)
        lam = float(np.linalg.eigvalsh(M / np.sqrt(np.outer(d, d))).max())
        if np.isfinite(om) and 0 <= om and om * lam <= 2 * (1 - 1e-9):
            ctx.feat('thm-hyp:damping-bound-holds:' + name)
        else:
            ctx.feat('thm-hyp:damping-bound-fails:' + name)
    # relax_jacobi_ne_error: under omega_eff * lambda_max(A^T D^-1 A) <= 2 the 2-norm of the error does not increase
    if name == 'jacobi_ne' and not Ak.cplx and ci in res.get('xs', {}) and res['xs'][ci][0] is not None:
        om = float(opts.get('omega', 1.0))
        if opts.get('withrho', True):
            om = om / float(rec['rho_D_inv_A']['value']) ** 2 if 'rho_D_inv_A' in rec else float('nan')
        M = Ak.M
        d = (M * M).sum(axis=1)
        if np.all(d > 0) and np.isfinite(om) and om >= 0:
            lam = float(np.linalg.eigvalsh(M.T @ (M / d[:, None])).max())
            if om * lam <= 2 * (1 - 1e-9):
                ctx.feat('clause:jacobi-ne-2norm-error')
                xs = res['xs'][ci][0]
                e1, e0 = float(np.linalg.norm(xs - x.ravel())), float(np.linalg.norm(xs))
                if e1 > e0 * (1 + 1e-9) + 1e-300:
                    ctx.violation(f'{res["xs"][ci][2]}: jacobi_ne under its damping bound (omega_eff*lambda_max = {om * lam:.3f} <= 2): '
                                  f'the 2-norm of the error increased from {e0:.6e} to {e1:.6e}', case)
            else:
                ctx.feat('thm-hyp:damping-bound-fails:jacobi_ne')


def _judge_energy(ctx, mats, spec, calls, ci, res, reply):
    """J(x) = x^H A x - 2 Re x^H b = ||x* - x||_A^2 - ||x*||_A^2 must be <= 0 (exact on the float output)"""
    name = spec['arg']
    xax, xb, xx, rr = [Fraction(t) for t in reply.split('#')]
    J = xax - 2 * xb
    xs, x, tag = res['xs'][ci]
    case = res['case']
    b = calls[ci]['b']
    margin = Fraction(1, 10 ** 11) * (abs(xax) + 2 * abs(xb))
    if J > margin:
        e0 = float(xs.conj() @ mats[calls[ci]['k']].M @ xs).real if xs is not None else float('nan')
        what = (f'{tag}: the energy norm of the error increased from the zero guess: ||x*-x||_A^2 - ||x*||_A^2 = {float(J):.6e} > 0 '
                f'(||x*||_A^2 = {e0:.6e}, x = {x.ravel()[:6]})')
        ctx.violation(what, case, fkey='ne-nr-relaxation-energy-norm' if name in NE_NR else None)
    if name == 'gauss_seidel_ne' and xs is not None:
        ctx.feat('clause:ne-2norm-error')
        e1 = float(np.linalg.norm(xs - x.ravel()))
        e0 = float(np.linalg.norm(xs))
        if e1 > e0 * (1 + 1e-9) + 1e-300:
            ctx.violation(f'{tag}: the 2-norm of the error increased from {e0:.6e} to {e1:.6e}', case)
    if name == 'gauss_seidel_nr':
        ctx.feat('clause:nr-2norm-residual')
        b2 = sum((frac(z.real) ** 2 + frac(z.imag) ** 2) for z in np.asarray(b, dtype=complex).ravel())
        if rr > b2 * (1 + Fraction(1, 10 ** 9)):
            ctx.violation(f'{tag}: the 2-norm of the residual increased from {float(b2) ** 0.5:.6e} to {float(rr) ** 0.5:.6e}', case)


# ----------------------------------------------------------------------------------------------
# dispatch table
# ----------------------------------------------------------------------------------------------

def part_dispatch(ctx):
    from pyamg import coarse_grid_solver
    args = [('s:' + nm, nm) for nm in DIRECT + ['pinv2'] + KRYLOV + RELAX + BAD_NAMES] + [('none', None), ('callable', _cb_scale), ('other', 5),
                                                                                    ('other', 2.5), ('other', ['lu'])]
    replies = lean(ctx, [f'c16_dispatch {a}' for a, _ in args])
    for (a, py), r in zip(args, replies):
        ctx.case(key='dispatch:' + a + repr(py)[:20], nontrivial=True)
        ctx.feat('dispatch')
        for form in ('plain', 'tuple'):
            try:
                s = coarse_grid_solver(py if form == 'plain' else (py, {}))
                got = 'ok'
                rep = repr(s)
            except ValueError as e:
                got, rep = 'ValueError', str(e)
            except Exception as e:
                got, rep = type(e).__name__, str(e)
            want = 'ValueError' if r == 'ValueError' else 'ok'
            if got != want:
                ctx.corr(f'dispatch of {py!r} ({form})', {'arg': repr(py), 'form': form}, r, got + ': ' + rep)
                if want == 'ok':
                    ctx.violation(f'coarse_grid_solver({py!r}) ({form}) raised {got}: {rep}', {'dispatch': repr(py), 'form': form})


# ----------------------------------------------------------------------------------------------
# entry points
# ----------------------------------------------------------------------------------------------

def build_items(ctx, nmat, quick):
    rng = ctx.np_rng
    items = []
    for t in range(nmat):
        mat = gen_matrix(rng)
        mat_x = mat
        for spec in gen_specs(rng, mat, quick=quick):
            calls = gen_history(rng, mat, spec)
            name = spec['arg'] if isinstance(spec['arg'], str) else None
            if name in RELAX + KRYLOV and mat.fmt not in ('csr', 'bsr', 'bsr2'):
                # hierarchies store their levels as CSR or BSR; the setup of the block relaxations accepts nothing else
                mat = Mat(mat.M, mat.cls, mat.explicit, 'csr')
            mats = [mat]
            if name in DIRECT and rng.random() < 0.12 and mat.n >= 1:
                # a second matrix of the same size in the middle of the history (stale factorisation, model fidelity only)
                other = Mat(_nonsym(rng, mat.n) if mat.n >= 2 else np.array([[3.0]]), 'nonsym', (), 'csr')
                if mat.cplx:
                    other = Mat(other.M.astype(complex), 'nonsym_c', (), 'csr')
                if other.M.shape == mat.M.shape and len(calls) >= 2:
                    mats = [mat, other]
                    calls[-1]['k'] = 1
                    if len(calls) >= 3:
                        calls[-2]['k'] = 1
                        calls[-1]['k'] = 0
            items.append((mats, spec, calls))
        # extension E29: more relaxation setups on the same matrix, from a generator of their own
        h = hashlib.sha1(mat_x.M.tobytes() + repr((ctx.seed, t, mat_x.M.shape)).encode()).digest()
        rx = np.random.default_rng(int.from_bytes(h[:8], 'little'))
        for spec in gen_specs_x(rx, mat_x, quick=quick):
            calls = [c for c in gen_history(rx, mat_x, spec)]
            fmt = mat_x.fmt if mat_x.fmt in ('csr', 'bsr', 'bsr2') else 'csr'
            if spec['arg'] in ('block_jacobi', 'block_gauss_seidel') and mat_x.n >= 2 and mat_x.n % 2 == 0 and rx.random() < 0.6:
                fmt = 'bsr2'                                    # the block kernels proper (2x2 blocks)
            items.append(([Mat(mat_x.M, mat_x.cls, mat_x.explicit, fmt)], spec, calls))
        # extension E51: schwarz as coarse solver (model C16R.relaxSolveR on the recorded Schwarz parameters), own stream
        h = hashlib.sha1(b'E51' + mat_x.M.tobytes() + repr((ctx.seed, t, mat_x.M.shape)).encode()).digest()
        ry = np.random.default_rng(int.from_bytes(h[:8], 'little'))
        if ry.random() < (0.5 if quick else 0.8):
            spec = {'arg': 'schwarz', 'opts': {'sweep': str(ry.choice(['forward', 'backward', 'symmetric'])), 'iterations': int(ry.integers(1, 4))}}
            if ry.random() < 0.25:
                spec = {'arg': 'schwarz', 'opts': {'sweep': str(ry.choice(['backward', 'symmetric']))}}
            fmt = mat_x.fmt if mat_x.fmt in ('csr', 'bsr', 'bsr2') else 'csr'
            items.append(([Mat(mat_x.M, mat_x.cls, mat_x.explicit, fmt)], spec, [c for c in gen_history(ry, mat_x, spec)]))
    return items


def fixed_items():
    """a few hand-picked histories that every run contains"""
    out = []
    P = 2 * np.eye(4) - np.eye(4, k=1) - np.eye(4, k=-1)
    for nm in DIRECT + ['gauss_seidel', 'sor', 'cg', None]:
        calls = [{'shape': 'v', 'k': 0, 'b': np.array([1.0, 0, 0, 1])}, {'shape': 'c', 'k': 0, 'b': np.array([0.0, 2, -1, 3])},
                 {'shape': 'v', 'k': 0, 'b': np.array([4.0, -4, 4, -4])}]
        out.append(([Mat(P, 'spd')], {'arg': nm}, calls))
    Z = np.array([[2.0, 0, -1], [0, 0, 0], [-1, 0, 2]])
    for nm in ('splu', 'pinv'):
        out.append(([Mat(Z, 'zrc')], {'arg': nm}, [{'shape': 'c', 'k': 0, 'b': np.array([1.0, 5, 1])}, {'shape': 'v', 'k': 0, 'b': np.array([3.0, 0, 0])}]))
        out.append(([Mat(Z, 'zrc_explicit', [(1, 1), (1, 0), (2, 1)])], {'arg': nm}, [{'shape': 'v', 'k': 0, 'b': np.array([1.0, 0, 1])}]))
    S = np.array([[1.0, 1], [1, 1]])
    out.append(([Mat(S, 'singular')], {'arg': 'pinv'}, [{'shape': 'v', 'k': 0, 'b': np.array([1.0, 3])}, {'shape': 'c', 'k': 0, 'b': np.array([2.0, 2])}]))
    H = np.array([[2, 1j], [-1j, 2]])
    for nm in DIRECT + ['gauss_seidel', 'jacobi']:
        out.append(([Mat(H, 'hpd_c')], {'arg': nm}, [{'shape': 'v', 'k': 0, 'b': np.array([1 + 0j, 1j])}, {'shape': 'c', 'k': 0, 'b': np.array([2j, 1 - 1j])}]))
    # Kaczmarz-type relaxations are not energy-norm contractions (known finding ne-nr-relaxation-energy-norm)
    out.append(([Mat(np.array([[1.0, -3], [-3, 11]]), 'spd')], {'arg': 'gauss_seidel_nr'}, [{'shape': 'v', 'k': 0, 'b': np.array([0.0, 3])}]))
    out.append(([Mat(np.array([[7.0, -12, -1], [-12, 27, 3], [-1, 3, 1]]), 'spd')], {'arg': 'gauss_seidel_ne'}, [{'shape': 'c', 'k': 0, 'b': np.array([-2.0, 0, 2])}]))
    out.append(([Mat(np.array([[9.0, 0, 0, -8], [0, 27, -2, 2], [0, -2, 1, -1], [-8, 2, -1, 20]]), 'spd')], {'arg': 'jacobi_ne'},
                [{'shape': 'v', 'k': 0, 'b': np.array([1.0, -2, 3, 1])}]))
    # extension E29: every modelled relaxation setup on the 4x4 Poisson matrix (point and 2x2 block storage) and a nonsymmetric matrix
    N4 = np.array([[4.0, 1, 0, 0], [-1, 3, 1, 0], [0, 0, 2, -1], [1, 0, 1, 5]])
    xcalls = [{'shape': 'v', 'k': 0, 'b': np.array([1.0, 0, 0, 1])}, {'shape': 'c', 'k': 0, 'b': np.array([0.0, 2, -1, 3])}]
    for sp in ({'arg': 'jacobi'}, {'arg': 'jacobi', 'opts': {'omega': 1.5, 'iterations': 2}}, {'arg': 'block_jacobi'},
               {'arg': 'block_jacobi', 'opts': {'withrho': False, 'omega': 0.5, 'iterations': 3}},
               {'arg': 'block_gauss_seidel'}, {'arg': 'block_gauss_seidel', 'opts': {'sweep': 'backward', 'iterations': 2}},
               {'arg': 'block_gauss_seidel', 'opts': {'sweep': 'symmetric', 'iterations': 1}},
               {'arg': 'richardson'}, {'arg': 'richardson', 'opts': {'omega': 1.5, 'iterations': 3}},
               {'arg': 'chebyshev'}, {'arg': 'chebyshev', 'opts': {'degree': 4, 'iterations': 2, 'lower_bound': 0.125, 'upper_bound': 1.25}},
               {'arg': 'jacobi_ne'}, {'arg': 'jacobi_ne', 'opts': {'withrho': False, 'omega': 0.25, 'iterations': 3}},
               {'arg': 'gauss_seidel_ne', 'opts': {'omega': 1.5, 'sweep': 'symmetric', 'iterations': 2}},
               {'arg': 'gauss_seidel_ne', 'opts': {'sweep': 'backward'}},
               {'arg': 'gauss_seidel_nr', 'opts': {'omega': 0.5, 'sweep': 'symmetric', 'iterations': 2}},
               {'arg': 'gauss_seidel_nr', 'opts': {'sweep': 'backward', 'iterations': 3}},
               {'arg': 'schwarz'}, {'arg': 'schwarz', 'opts': {'sweep': 'backward', 'iterations': 2}},
               {'arg': 'schwarz', 'opts': {'sweep': 'symmetric', 'iterations': 1}}):
        for fmt in ('csr', 'bsr2'):
            out.append(([Mat(P, 'spd', (), fmt)], sp, [dict(c) for c in xcalls]))
        out.append(([Mat(N4, 'nonsym', (), 'csr')], sp, [dict(c) for c in xcalls]))
    # mixed dtypes, every solver name, both shapes: complex matrix with real right-hand sides, real matrix with complex ones
    Hc = np.array([[3, 1j, 0], [-1j, 3, 1], [0, 1, 2]], dtype=complex)
    Nc = np.array([[3, 1j, 1], [0, 2 - 1j, 0], [1, 0, 4j]], dtype=complex)
    Sr = np.array([[3.0, -1, 0], [-1, 3, 1], [0, 1, 2]])
    Nr = np.array([[3.0, 1, 0], [0, 2, -1], [1, 0, 4]])
    for nm in DIRECT + RELAX + KRYLOV + [None, 'cb:scale', 'cb:flat']:
        for M, cls in ((Hc, 'hpd_c'), (Nc, 'nonsym_c')):
            out.append(([Mat(M, cls)], {'arg': nm}, [
                {'shape': 'v', 'k': 0, 'b': np.array([1.0, 2, 3])}, {'shape': 'c', 'k': 0, 'b': np.array([2, -1, 1], dtype=np.float32)},
                {'shape': 'c', 'k': 0, 'b': np.array([1, 0, -2], dtype=np.int64)}, {'shape': 'v', 'k': 0, 'b': np.array([1j, 2, 1 - 1j])},
                {'shape': 'v', 'k': 0, 'b': np.array([3, 1, 1], dtype=np.int32)}, {'shape': 'c', 'k': 0, 'b': np.array([0.5, 2, -3])}]))
        for M, cls in ((Sr, 'spd'), (Nr, 'nonsym')):
            out.append(([Mat(M, cls)], {'arg': nm}, [
                {'shape': 'v', 'k': 0, 'b': np.array([1 + 1j, 2, 3 - 1j])}, {'shape': 'c', 'k': 0, 'b': np.array([2j, -1, 1], dtype=np.complex64)},
                {'shape': 'c', 'k': 0, 'b': np.array([1, 0, -2], dtype=np.float32)}, {'shape': 'v', 'k': 0, 'b': np.array([1, 4, -2], dtype=np.int64)},
                {'shape': 'v', 'k': 0, 'b': np.array([1.0, 2, 3])}, {'shape': 'c', 'k': 0, 'b': np.array([1 - 2j, 0, 1j])}]))
    E = np.zeros((3, 3))
    for nm in DIRECT + KRYLOV + RELAX + [None, 'cb:scale']:
        out.append(([Mat(E, 'empty')], {'arg': nm}, [{'shape': 'c', 'k': 0, 'b': np.array([1.0, 2, 3])}, {'shape': 'v', 'k': 0, 'b': np.array([1.0, 2, 3])}]))
    return out


def run(ctx):
    part_dispatch(ctx)
    items = fixed_items() + build_items(ctx, ctx.scale(80, 1700), ctx.quick)
    step = 400
    for i in range(0, len(items), step):
        judge_batch(ctx, items[i:i + step], seed=ctx.seed)


def search(ctx):
    items = build_items(ctx, 100 if ctx.quick else 1500, False)
    step = 400
    for i in range(0, len(items), step):
        judge_batch(ctx, items[i:i + step], seed=ctx.seed)


def replay(ctx, data):
    case = data['case']
    if 'dispatch' in case:
        part_dispatch(ctx)
    else:
        mats, spec, calls = case_from_dict(case)
        print('replaying', repr(spec), 'on', mats[0].cls, 'n =', mats[0].n, 'with', len(calls), 'calls')
        judge_batch(ctx, [(mats, spec, calls)], seed=data.get('seed', 0))
    for v in ctx.violations[:5]:
        print('  ', v['what'])
