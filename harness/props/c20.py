"""C20 -- gallery operators equal the discretisations they document.

correspondence : public functions of pyamg/gallery/{stencil,laplacian,diffusion,elasticity}.py vs the Lean models
                 (Model/Stencil.lean, Model/C20Gallery.lean): stencil_grid and poisson exactly (integer / dyadic stencil
                 entries make every float operation exact), diffusion stencils and the Q1 elasticity operator + rigid-body
                 modes with a stated tolerance against the exact rational model value.
search         : the clauses of the property judged on the real outputs by independent oracles: direct definition of the
                 truncated stencil operator, format / dtype, symmetry, Z-pattern + positive spectrum + closed-form
                 tensor-product spectrum of the Poisson matrices (numerically; exactly on the rational Chebyshev roots:
                 A v = lambda v, x^T A x > 0, in rational arithmetic -- extension E21; completeness of that spectrum is a
                 theorem since extension E45 and cross-checked numerically / exactly on the all-rational grids), zero sum of the diffusion stencils, symmetry / positive
                 definiteness of the stiffness matrix, A_free @ B_free = 0, Dirichlet system = interior principal part of the
                 free system, (A @ B)[rows not coupled to the boundary] = 0, B = the three rigid-body fields.
"""
import hashlib
import itertools
import math
from fractions import Fraction

import numpy as np

from common import enc_ints, enc_rats, enc_rat, frac

META = {
    'rule': 'stencil_grid: seeded random odd-shaped stencils (extents 1,3,5,7; integer or quarter entries, ~40% zeros; real, '
            'complex, single, integer dtypes) on grids of 1-4 dimensions (extents 1..9 incl. 1-wide, non-square, stencil '
            'wider than the grid) x 8 formats; plus stencils of widths 1..11 on grids of 1-3 dimensions with extents 1..4 (reach '
            'width//2 below the extent, between extent and 2 extent, beyond 2 extent; wide in every dimension / in one '
            'dimension with narrow others / independently; dense, sparse, one-to-three-entry) and, for every grid up to 4 / '
            '4x4 / 3x3x3, all-nonzero pairwise-distinct stencils coupling every pair of grid points; poisson: every grid shape up to 6 / 4x4 / 3x3x3 / 2^4 (quick) resp. 12 / 6x6 / '
            '4x4x4 / 3^4 (thorough) x FD/FE x dtype x format; diffusion stencils: eps in 1e-4..1e4 (incl. 0, 1), rotation by '
            'Pythagorean (exactly rational cos/sin) and arbitrary angles; elasticity: every grid X x Y <= 4x4 (quick) / 6x6 '
            '(thorough) plus seeded larger non-square ones, x spacing x (E, nu) x format. A case is non-trivial when the '
            'operator has an off-diagonal entry (stencil/poisson), eps != 1 and a rotation is present (diffusion), always '
            '(elasticity); distinct = distinct (function, arguments). Extension E21: x^T A x and A x of poisson (every grid '
            'up to 8 / 4x4 / 3x3x3 quick, 16 / 6x6 / 4x4x4 / 2^4 thorough, FD/FE) and of the Dirichlet elasticity matrix on '
            'seeded integer vectors (random, constant, one-hot); closed-form eigenpairs on grids with extents in '
            '{1,2,3,5,8,11} (the extents whose U_g has the rational roots 0, +-1/2) and the 1-D Chebyshev residual identity for '
            'c = k/4, all in exact rational arithmetic on the real integer matrices; non-trivial = nonzero vector, n >= 2. '
            'Extension E45 (completeness of the closed-form spectrum, now theorems): every grid in {1,2}^N, N <= 3 (+ three '
            '4-D ones) quick / N <= 4 thorough, FD/FE: exact kernel dimensions of the real matrix against the number of index '
            'tuples per closed-form value, exact spectral reconstruction and completeness relation from the driver; the index '
            'tuples of the theorems (tuplesQ) on every grid up to 7 / 4x4 / 3x3x3 / 2^4 (quick) resp. 14 / 6x6 / 4x4x4 / 3^4 '
            'against itertools.product, and the closed form on them against numpy eigvalsh of the real matrices; '
            'non-trivial = matrix size >= 2',
    'search_only': ['format / dtype of the returned sparse arrays (SciPy conversions are outside the model)',
                    'float evaluation of cos/sin and of the Lame parameters: the model is exact on (C, S, E, nu); the real '
                    'outputs are compared with it within 1e-12 / 1e-10 relative'],
    'partial': [],
    'assumptions': ['exact-field models: stencil_grid / poisson are compared on integer and dyadic entries where binary '
                    'arithmetic is exact; diffusion and elasticity outputs are compared with the exact rational model value '
                    'within 1e-12 resp. 1e-10 relative to the largest entry (rounding is outside the model)',
                    'hypotheses of the elasticity theorems checked per instance by the generator: spacings > 0, E > 0, '
                    '-1 < nu < 1/2 (then mu >= 0 and lame + mu >= 0 by theorem q12d_lame_ok; mu > 0 and lame + mu > 0 by '
                    'q12d_lame_pos, the hypotheses of q12d_dirichlet_definite)',
                    'diffusion2d_fd_sum_zero needs C^2 + S^2 = 1: exact for the Pythagorean angles; for arbitrary angles the '
                    'float pair satisfies it to 1 ulp and the real stencil sum is judged with tolerance 64 eps * sum |entries|',
                    'the matrix denoted by a triple list adds duplicates (proof-side readings entry / rowdot / rowsum / qform are run by '
                    'the driver and compared with the real matrices); SciPy COO->CSR duplicate summation, BSR products '
                    'P.T @ A @ P, dia_array semantics and LAPACK eigvalsh are trusted',
                    'completeness of the closed-form Poisson spectrum (every eigenvalue is a closed-form value, the prod g_i '
                    'product vectors are an orthogonal basis, characteristic polynomial = prod over the index tuples, '
                    'multiplicity = number of tuples; 1-D: simple spectrum) is PROVED for the model matrices over the reals '
                    '(extension E45: poisson_fd/fe_eigenvalue_complete, poisson_tensor_span/_linindep, poisson_fd/fe_eigenspace, '
                    'poisson_fd/fe_charpoly, poisson_fd/fe_multiplicity, poisson_1d_*); the comparison of the sorted float spectrum '
                    'of the real matrices with the formula (1e-9 relative) remains as a cross-check, and on grids with extents 1, 2 '
                    '(all roots rational) kernel dimensions and the spectral reconstruction are compared exactly'],
}

FORMATS = [None, 'csr', 'csc', 'coo', 'bsr', 'dia', 'lil', 'dok']
TOL = 1e-10


def _key(*a):
    return hashlib.sha1(repr(a).encode()).hexdigest()


def _lean(ctx, lines):
    """one batch through the Lean driver; a driver start that fails while the library is being rebuilt is retried"""
    import time
    from common import InfraError
    for attempt in range(3):
        try:
            return ctx.lean(lines)
        except InfraError:
            if attempt == 2:
                raise
            time.sleep(10)


def _lin(idx, dims):
    k = 0
    for i, d in zip(idx, dims):
        k = k * d + i
    return k


def _np_dtype(name):
    return None if name is None else np.dtype(name)


# ---------------------------------------------------------------- stencil_grid

def stencil_oracle(S, grid):
    """direct definition: row of grid point p holds S[idx] at column p + (idx - shape//2) when that neighbour exists"""
    S = np.asarray(S)
    grid = tuple(int(g) for g in grid)
    n = int(np.prod(grid))
    M = np.zeros((n, n), dtype=complex if np.iscomplexobj(S) else float)
    nz = [(idx, S[idx]) for idx in np.ndindex(*S.shape) if S[idx] != 0]
    for p in np.ndindex(*grid):
        r = _lin(p, grid)
        for idx, v in nz:
            q = tuple(pi + ii - s // 2 for pi, ii, s in zip(p, idx, S.shape))
            if all(0 <= qi < g for qi, g in zip(q, grid)):
                M[r, _lin(q, grid)] += v
    return M


def triples_dense(s, n, exact_float=True):
    """model reply `r,c,v|...` -> dense float matrix (values are dyadic here: float() is exact)"""
    M = np.zeros((n, n))
    if s != '-':
        for e in s.split('|'):
            r, c, v = e.split(',')
            M[int(r), int(c)] += float(Fraction(v))
    return M


def gen_stencil(rng, t):
    nd = int(rng.choice([1, 2, 3, 4], p=[0.3, 0.4, 0.25, 0.05]))
    gmax = {1: 9, 2: 5, 3: 4, 4: 2}[nd]
    grid = [int(g) for g in rng.integers(1, gmax + 1, size=nd)]
    if t % 7 == 0:
        grid[int(rng.integers(nd))] = 1
    if t % 31 == 0:
        grid = [1] * nd
    ext = {1: [1, 3, 5, 7], 2: [1, 3, 5], 3: [1, 3, 3, 5], 4: [1, 3]}[nd]
    shape = [int(rng.choice(ext)) for _ in range(nd)]
    dtype = str(rng.choice(['float64', 'float64', 'float32', 'complex128', 'complex64', 'int64', 'int32', 'none']))
    size = int(np.prod(shape))
    vals = rng.integers(-3, 4, size=size) * (rng.random(size) < 0.6)
    if t % 13 == 5:
        vals = np.zeros(size, dtype=int)                       # the zero stencil
    if dtype.startswith('float') and t % 3 == 0:
        vals = vals / 4.0
    if dtype.startswith('complex'):
        vals = vals + 1j * (rng.integers(-2, 3, size=size) * (rng.random(size) < 0.5))
    fmt = FORMATS[int(rng.integers(len(FORMATS)))]
    return {'part': 'stencil', 'shape': shape, 'grid': grid, 'dtype': None if dtype == 'none' else dtype, 'format': fmt,
            'vals': [[float(v.real), float(v.imag)] for v in np.asarray(vals, dtype=complex)]}


WIDTHS = [1, 3, 5, 7, 9, 11]


def gen_stencil_wide(rng, t):
    """stencils (much) wider than the grid: widths 1..11 against grid extents 1..4 in 1-3 dimensions. The reach
    h = width // 2 of a dimension of extent g is drawn from all three regimes h <= g (ordinary), g < h < 2 g (the
    boundary slices start beyond the far end of the axis) and h >= 2 g; wide in every dimension, wide in one and
    narrow in the others, or independent per dimension"""
    nd = int(rng.choice([1, 2, 3], p=[0.15, 0.5, 0.35]))
    grid = [int(g) for g in rng.integers(1, 5, size=nd)]
    if t % 6 == 0:
        grid[int(rng.integers(nd))] = int(rng.choice([2, 3]))          # extents for which g < h < 2 g has a solution <= 5
    mode = t % 4

    def between(g):          # a width whose reach lies strictly between g and 2 g when there is one (g >= 2)
        ws = [w for w in WIDTHS if g < w // 2 < 2 * g]
        return int(rng.choice(ws)) if ws else int(rng.choice([w for w in WIDTHS if w // 2 >= g]))

    def wider(g):
        return int(rng.choice([w for w in WIDTHS if w // 2 > g] or [11]))

    if mode == 0:
        shape = [wider(g) for g in grid]
    elif mode == 1:
        shape = [int(rng.choice([1, 3])) for _ in grid]
        ax = int(rng.integers(nd))
        shape[ax] = wider(grid[ax])
    elif mode == 2:
        shape = [int(rng.choice(WIDTHS)) for _ in grid]
    else:
        shape = [int(rng.choice(WIDTHS)) for _ in grid]
        ax = int(rng.integers(nd))
        shape[ax] = between(grid[ax])
    while int(np.prod(shape)) > 539:                          # 7 x 7 x 11 is the largest stencil
        ax = int(np.argmax(shape))
        shape[ax] -= 2
    dtype = str(rng.choice(['float64', 'float64', 'float32', 'complex128', 'complex64', 'int64', 'int32', 'none']))
    size = int(np.prod(shape))
    dens = float(rng.choice([0.15, 0.6, 1.0]))
    vals = rng.integers(-3, 4, size=size) * (rng.random(size) < dens)
    if t % 5 == 1:                                            # one to three entries: single diagonals, nothing can cancel
        vals = np.zeros(size, dtype=int)
        vals[rng.integers(size, size=int(rng.integers(1, 4)))] = rng.integers(1, 4)
    if dtype.startswith('float') and t % 3 == 0:
        vals = vals / 4.0
    if dtype.startswith('complex'):
        vals = vals + 1j * (rng.integers(-2, 3, size=size) * (rng.random(size) < 0.5 * dens))
    fmt = FORMATS[int(rng.integers(len(FORMATS)))]
    return {'part': 'stencil', 'shape': shape, 'grid': grid, 'dtype': None if dtype == 'none' else dtype, 'format': fmt,
            'vals': [[float(v.real), float(v.imag)] for v in np.asarray(vals, dtype=complex)]}


def full_coupling_cases(rng, quick):
    """every grid with extents 1..4 (1-D, 2-D) / 1..3 (3-D) with a stencil that reaches every other grid point from every
    grid point (width 2 g - 1 or more in each dimension, up to 11 / 7) and has pairwise different nonzero entries: the
    operator is the full matrix A[p, q] = S[centre + q - p]; every diagonal offset, every boundary slice length and the
    duplicate-diagonal summation occur, and no two contributions can cancel"""
    grids = [g for nd in (1, 2) for g in itertools.product(range(1, 5), repeat=nd)]
    g3 = list(itertools.product(range(1, 4), repeat=3))
    grids += [g3[int(k)] for k in rng.choice(len(g3), size=9, replace=False)] if quick else g3
    for g in grids:
        nd = len(g)
        top = 7 if nd == 3 else 11
        for variant in range(2):
            if variant == 0:      # as wide as the format of the case allows, in every dimension
                shape = [top] * nd
            else:                 # seeded widths >= 2 g - 1 (just enough up to far too wide), different per dimension
                shape = [int(rng.choice([w for w in WIDTHS if max(2 * e - 1, 1) <= w <= top])) for e in g]
            size = int(np.prod(shape))
            vals = (1 + rng.permutation(size)) * rng.choice([-1, 1], size=size)
            dtype = str(rng.choice(['float64', 'float32', 'complex128', 'int64', 'int32', 'none']))
            yield {'part': 'stencil', 'shape': shape, 'grid': list(g), 'dtype': None if dtype == 'none' else dtype,
                   'format': FORMATS[int(rng.integers(len(FORMATS)))], 'vals': [[float(v), 0.0] for v in vals]}


def gen_stencil_bad(rng, t):
    c = gen_stencil(rng, t + 1)
    kind = t % 3
    if kind == 0:
        ax = int(rng.integers(len(c['shape'])))
        c['shape'][ax] = int(rng.choice([2, 4]))
        c['vals'] = [[1.0, 0.0]] * int(np.prod(c['shape']))
    elif kind == 1:
        c['grid'] = c['grid'] + [2]
    else:
        c['grid'][int(rng.integers(len(c['grid'])))] = 0
    c['dtype'], c['expect'] = 'float64', 'ValueError'
    return c


def _stencil_array(case):
    v = np.array([complex(a, b) for a, b in case['vals']]).reshape(case['shape'])
    dt = case['dtype']
    if dt is None:
        return v.real.copy() if not v.imag.any() else v
    if dt.startswith('complex'):
        return v
    return v.real.astype(dt)


def run_stencil(case):
    """-> dict(err=..., A=sparse, D=dense) from the real code"""
    from pyamg.gallery import stencil_grid
    S = _stencil_array(case)
    try:
        A = stencil_grid(S, tuple(case['grid']), dtype=_np_dtype(case['dtype']), format=case['format'])
    except Exception as ex:          # noqa: BLE001
        return {'err': type(ex).__name__, 'msg': str(ex)}
    return {'err': None, 'A': A, 'S': S}


def judge_stencil(case, out):
    """property clauses on the real output -> list of violation texts"""
    bad = []
    grid, shape = case['grid'], case['shape']
    valid = all(s % 2 == 1 for s in shape) and len(grid) == len(shape) and len(grid) >= 1 and min(grid) >= 1
    if not valid:
        if out['err'] != 'ValueError':
            bad.append(f'invalid arguments (shape {shape}, grid {grid}) are not rejected with ValueError: {out["err"]}')
        return bad
    if out['err']:
        return [f'stencil_grid raised {out["err"]}: {out.get("msg", "")[:120]} for a valid stencil {shape} on grid {grid}']
    A, S = out['A'], out['S']
    n = int(np.prod(grid))
    if A.shape != (n, n):
        return [f'shape {A.shape}, expected {(n, n)}']
    want = np.asarray(S, dtype=_np_dtype(case['dtype']))
    ref = stencil_oracle(want, grid)
    D = np.asarray(A.toarray(), dtype=ref.dtype)
    if not np.array_equal(D, ref):
        r, c = np.argwhere(D != ref)[0]
        bad.append(f'stencil_grid(shape {shape}, grid {grid}): entry ({r},{c}) is {D[r, c]}, the truncated stencil gives {ref[r, c]}')
    if case['format'] is not None and A.format != case['format']:
        bad.append(f'format {A.format!r} returned, {case["format"]!r} requested')
    if A.dtype != want.dtype:
        bad.append(f'dtype {A.dtype} returned, {want.dtype} requested')
    return bad


def stencil_lines(case):
    """Lean request lines (real part, imaginary part)"""
    S = _stencil_array(case) if all(s >= 1 for s in case['shape']) else None
    v = np.asarray(S, dtype=complex).ravel()
    head = f'c20_stencil {enc_ints(case["shape"])} '
    tail = f' {enc_ints(case["grid"])}'
    return [head + enc_rats(v.real) + tail, head + enc_rats(v.imag) + tail]


def part_stencil(ctx, cases, lean=True):
    lines, meta = [], []
    for case in cases:
        out = run_stencil(case)
        n_nz = sum(1 for a, b in case['vals'] if a or b)
        nv = int(np.prod(case['grid'])) if case['grid'] else 0
        nd = len(case['grid'])
        cls = 'all-ones' if nv == 1 else ('1-wide' if 1 in case['grid'] and nd > 1 else
                                          ('square' if len(set(case['grid'])) == 1 else 'non-square'))
        ctx.case(key=_key('stencil', case), nontrivial=n_nz >= 2 and nv >= 2,
                 sample={k: case[k] for k in ('shape', 'grid', 'dtype', 'format')} if ctx.evaluations % 211 == 0 else None)
        ctx.feat(f'stencil:{nd}d:{cls}')
        ctx.feat(f'stencil:dtype={case["dtype"]}')
        ctx.feat(f'stencil:format={case["format"]}')
        if any(s > g for s, g in zip(case['shape'], case['grid'])):
            ctx.feat('stencil:wider-than-grid')
        if case['grid'] and len(case['shape']) == nd and min(case['grid']) >= 1:
            reach = [(s // 2, g) for s, g in zip(case['shape'], case['grid'])]
            if any(h > g for h, g in reach):
                ctx.feat(f'stencil:{nd}d:reach > extent in ' + ('every dimension' if all(h > g for h, g in reach) else 'some dimension'))
            if any(g < h < 2 * g for h, g in reach):
                ctx.feat(f'stencil:{nd}d:extent < reach < 2 extent')
            if all(s >= 2 * g - 1 for s, g in zip(case['shape'], case['grid'])) and n_nz == int(np.prod(case['shape'])) and nv >= 2:
                ctx.feat(f'stencil:{nd}d:full coupling (every pair of grid points)')
        if case.get('expect'):
            ctx.feat('stencil:invalid-arguments')
        for b in judge_stencil(case, out):
            ctx.violation(b, case)
        if lean:
            ls = stencil_lines(case)
            read = nv <= 16 and len(meta) % 3 == 0      # also the proof-side reading `entry` of the model output
            if read:
                ls.append(ls[0].replace('c20_stencil ', 'c20_stencil_read ', 1))
            lines += ls
            meta.append((case, out, read))
    if not lean:
        return
    outs = _lean(ctx, lines)
    pos = 0
    for case, out, read in meta:
        re_s, im_s = outs[pos], outs[pos + 1]
        rd_s = outs[pos + 2] if read else None
        pos += 3 if read else 2
        if re_s.startswith('err'):
            impl = 'err:' + str(out['err'])
            kind = {'odd': 'odd', 'dim': 'dimension', 'grid': 'positive'}.get(re_s[4:], '?')
            if out['err'] != 'ValueError' or (kind not in out.get('msg', '') and re_s[4:] != 'grid'):
                ctx.corr('stencil_grid(arguments)', case, re_s, impl + ':' + out.get('msg', '')[:60])
            continue
        if out['err']:
            ctx.corr('stencil_grid', case, re_s[:200], 'raised ' + out['err'])
            continue
        n = int(np.prod(case['grid']))
        if out['A'].shape != (n, n):
            ctx.corr('stencil_grid(shape)', case, str((n, n)), str(out['A'].shape))
            continue
        M = triples_dense(re_s, n) + 1j * triples_dense(im_s, n)
        D = np.asarray(out['A'].toarray(), dtype=complex)
        if not np.array_equal(M, D):
            r, c = np.argwhere(M != D)[0]
            ctx.corr('stencil_grid', case, f'entry ({r},{c}) = {M[r, c]}', f'{D[r, c]}')
        if rd_s is not None and not rd_s.startswith('err'):
            ctx.feat('stencil:proof-side reading compared')
            E = np.array([[float(Fraction(v)) for v in row.split(',')] for row in rd_s.split('|')])
            if E.shape != D.shape or not np.array_equal(E, D.real):
                ctx.corr('stencil_grid(entry reading)', case, rd_s[:120], str(D.real[:2].tolist())[:120])


# ---------------------------------------------------------------- poisson

def poisson_spectrum(grid, ty):
    N = len(grid)
    axes = [np.cos(np.arange(1, g + 1) * np.pi / (g + 1)) for g in grid]
    ev = []
    for cs in itertools.product(*axes):
        if ty == 'FD':
            ev.append(sum(2 - 2 * c for c in cs))
        else:
            ev.append(3 ** N - math.prod(1 + 2 * c for c in cs))
    return np.sort(np.array(ev))


def run_poisson(case):
    from pyamg.gallery import poisson
    try:
        kw = {} if case['dtype'] is None else {'dtype': np.dtype(case['dtype'])}
        return {'err': None, 'A': poisson(tuple(case['grid']), format=case['format'], type=case['type'], **kw)}
    except Exception as ex:          # noqa: BLE001
        return {'err': type(ex).__name__, 'msg': str(ex)}


def judge_poisson(case, out):
    grid, ty = case['grid'], case['type']
    if len(grid) < 1 or min(grid) < 1:
        return [] if out['err'] == 'ValueError' else [f'poisson({grid}) is not rejected with ValueError: {out["err"]}']
    if out['err']:
        return [f'poisson({tuple(grid)}, type={ty}) raised {out["err"]}: {out.get("msg", "")[:120]}']
    A = out['A']
    n, N = int(np.prod(grid)), len(grid)
    tag = f'poisson({tuple(grid)}, type={ty!r})'
    if A.shape != (n, n):
        return [f'{tag}: shape {A.shape}, expected {(n, n)}']
    bad = []
    Dn = A.toarray()
    D = np.asarray(Dn.real if np.iscomplexobj(Dn) else Dn, dtype=float)
    if np.iscomplexobj(Dn) and Dn.imag.any():
        bad.append(f'{tag}: complex dtype gives nonzero imaginary parts')
    sten = np.zeros((3,) * N)
    if ty == 'FD':
        for i in range(N):
            for e in (0, 2):
                sten[(1,) * i + (e,) + (1,) * (N - i - 1)] = -1
        sten[(1,) * N] = 2 * N
    else:
        sten[...] = -1
        sten[(1,) * N] = 3 ** N - 1
    ref = stencil_oracle(sten, grid)
    if not np.array_equal(D, ref):
        r, c = np.argwhere(D != ref)[0]
        bad.append(f'{tag}: entry ({r},{c}) is {D[r, c]}, the {ty} Laplacian with Dirichlet truncation has {ref[r, c]}')
    if not np.array_equal(D, D.T):
        r, c = np.argwhere(D != D.T)[0]
        bad.append(f'{tag}: not symmetric at ({r},{c}): {D[r, c]} vs {D[c, r]}')
    off = D - np.diag(np.diag(D))
    if (off > 0).any() or (np.diag(D) <= 0).any():
        bad.append(f'{tag}: not a Z-matrix with positive diagonal (M-matrix sign pattern)')
    if ((D.sum(axis=1)) < 0).any():
        bad.append(f'{tag}: a row is not weakly diagonally dominant (row sum {D.sum(axis=1).min()})')
    if np.array_equal(D, D.T) and n <= 1300:
        ev = np.linalg.eigvalsh(D)
        ref_ev = poisson_spectrum(grid, ty)
        err = float(np.abs(ev - ref_ev).max())
        if ev.min() <= 0:
            bad.append(f'{tag}: smallest eigenvalue {ev.min()} <= 0, not a nonsingular M-matrix')
        if err > 1e-9 * max(1.0, ref_ev.max()):
            k = int(np.abs(ev - ref_ev).argmax())
            bad.append(f'{tag}: spectrum differs from the tensor-product formula: eigenvalue #{k} is {ev[k]}, formula {ref_ev[k]}')
        case['_relerr'] = err / max(1.0, ref_ev.max())
    if case['format'] is not None and A.format != case['format']:
        bad.append(f'{tag}: format {A.format!r} returned, {case["format"]!r} requested')
    want = np.dtype(case['dtype'] or float)
    if A.dtype != want:
        bad.append(f'{tag}: dtype {A.dtype} returned, {want} requested')
    return bad


def poisson_grids(ctx, deep=False):
    if ctx.quick and not deep:
        lim = {1: 6, 2: 4, 3: 3, 4: 2}
    else:
        lim = {1: 12, 2: 6, 3: 4, 4: 3}
    for nd, m in lim.items():
        for g in itertools.product(range(1, m + 1), repeat=nd):
            yield list(g)
    rng = ctx.np_rng
    for _ in range(ctx.scale(6, 40)):
        nd = int(rng.integers(1, 4))
        yield [int(v) for v in rng.integers(1, {1: 40, 2: 12, 3: 6}[nd] + 1, size=nd)]


def part_poisson(ctx, lean=True, deep=False):
    rng = ctx.np_rng
    lines, meta = [], []
    cases = []
    for g in poisson_grids(ctx, deep):
        for ty in ('FD', 'FE'):
            dt = str(rng.choice(['float64', 'float64', 'float32', 'complex128', 'int64', 'none']))
            cases.append({'part': 'poisson', 'grid': g, 'type': ty, 'dtype': None if dt == 'none' else dt,
                          'format': FORMATS[int(rng.integers(len(FORMATS)))]})
    for g in ([], [0], [2, 0], [0, 0, 1]):
        cases.append({'part': 'poisson', 'grid': g, 'type': 'FD', 'dtype': None, 'format': 'csr'})
    for case in cases:
        out = run_poisson(case)
        g = case['grid']
        n = int(np.prod(g)) if g else 0
        cls = 'invalid' if (not g or min(g) < 1) else ('all-ones' if n == 1 else ('1-wide' if 1 in g and len(g) > 1 else
                                                                               ('square' if len(set(g)) == 1 else 'non-square')))
        ctx.case(key=_key('poisson', case['grid'], case['type'], case['dtype'], case['format']), nontrivial=n >= 2,
                 sample=dict(case) if ctx.evaluations % 97 == 0 else None)
        ctx.feat(f'poisson:{case["type"]}:{len(g)}d:{cls}')
        for b in judge_poisson(case, out):
            ctx.violation(b, {k: v for k, v in case.items() if not k.startswith('_')})
        if '_relerr' in case:
            ctx.rel_err(case.pop('_relerr'))
        if lean:
            lines.append(f'c20_poisson {enc_ints(g)} {case["type"]}')
            lines.append(f'c20_poisson_rowsums {enc_ints(g)} {case["type"]}')
            meta.append((case, out))
    if not lean:
        return
    outs = _lean(ctx, lines)
    for k, (case, out) in enumerate(meta):
        o, rs = outs[2 * k], outs[2 * k + 1]
        if o == 'err':
            if out['err'] != 'ValueError':
                ctx.corr('poisson(arguments)', case, o, str(out['err']))
            continue
        if out['err']:
            ctx.corr('poisson', case, o[:200], 'raised ' + out['err'])
            continue
        n = int(np.prod(case['grid']))
        if out['A'].shape != (n, n):
            ctx.corr('poisson(shape)', case, str((n, n)), str(out['A'].shape))
            continue
        M = triples_dense(o, n)
        D = np.asarray(out['A'].toarray(), dtype=complex)
        if not np.array_equal(M.astype(complex), D):
            r, c = np.argwhere(M != D)[0]
            ctx.corr('poisson', case, f'entry ({r},{c}) = {M[r, c]}', f'{D[r, c]}')
        # the proof-side reading `rowsum` of the model output (theorem poisson_rowsum_nonneg) vs the real row sums
        rsm = np.array([float(Fraction(v)) for v in rs.split(',')])
        rsi = np.asarray(D.real.sum(axis=1)).ravel()
        if rsm.shape != rsi.shape or not np.array_equal(rsm, rsi):
            ctx.corr('poisson(row sums)', case, rs[:120], str(rsi[:12].tolist()))


# ---------------------------------------------------------------- diffusion stencils

TRIPLES = [(1, 0, 1), (0, 1, 1), (3, 4, 5), (4, 3, 5), (5, 12, 13), (12, 5, 13), (8, 15, 17), (15, 8, 17), (7, 24, 25),
           (20, 21, 29), (21, 20, 29), (-3, 4, 5), (3, -4, 5), (-4, -3, 5), (-1, 0, 1), (0, -1, 1), (-5, 12, 13), (9, 40, 41)]
EPS = [1.0, 0.0, 0.5, 0.25, 0.1, 0.01, 0.001, 1e-4, 2.0, 10.0, 100.0, 1e4, 3.0, 0.75, 1e-8]


def run_diff(case):
    from pyamg.gallery import diffusion_stencil_2d
    from pyamg.gallery.diffusion import diffusion_stencil_3d
    try:
        if case['part'] == 'diff2':
            return {'err': None, 'S': np.asarray(diffusion_stencil_2d(epsilon=case['eps'], theta=case['theta'], type=case['type']))}
        return {'err': None, 'S': np.asarray(diffusion_stencil_3d(epsilony=case['epsy'], epsilonz=case['epsz'], theta=case['theta'],
                                                                  phi=case['phi'], psi=case['psi'], type='FD'))}
    except Exception as ex:          # noqa: BLE001
        return {'err': type(ex).__name__, 'msg': str(ex)}


def judge_diff(case, out):
    tag = ', '.join(f'{k}={v}' for k, v in case.items() if k not in ('part', 'cs'))
    name = 'diffusion_stencil_2d' if case['part'] == 'diff2' else 'diffusion_stencil_3d'
    if out['err']:
        return [f'{name}({tag}) raised {out["err"]}: {out.get("msg", "")[:100]}']
    S = out['S']
    want = (3, 3) if case['part'] == 'diff2' else (3, 3, 3)
    if S.shape != want:
        return [f'{name}({tag}): shape {S.shape}']
    if not np.isfinite(S).all():
        return [f'{name}({tag}): non-finite entries']
    tot = float(S.sum())
    scale = float(np.abs(S).sum())
    if abs(tot) > 64 * np.finfo(float).eps * max(scale, 1e-300):
        return [f'{name}({tag}): the stencil entries sum to {tot} (sum of magnitudes {scale}), not to zero']
    return []


def part_diffusion(ctx, n2, n3, lean=True):
    rng = ctx.np_rng
    cases = []
    for t in range(n2):
        a, b, r = TRIPLES[t % len(TRIPLES)]
        eps = EPS[(t // len(TRIPLES) + t) % len(EPS)] if t % 5 else float(10 ** rng.uniform(-4, 4))
        if t % 4 == 3:        # arbitrary angle: model evaluated at the float pair (cos, sin)
            th = float(rng.uniform(-2 * np.pi, 2 * np.pi))
            cs = [enc_rat(float(np.cos(th))), enc_rat(float(np.sin(th)))]
            rot = True
        else:
            th = float(np.arctan2(b, a))
            cs = [f'{a}/{r}', f'{b}/{r}']
            rot = a != 0 and b != 0
        cases.append(({'part': 'diff2', 'type': 'FE' if t % 2 else 'FD', 'eps': eps, 'theta': th, 'cs': cs}, rot and eps != 1.0))
    for t in range(n3):
        ang, cs = {}, []
        for k, nm in enumerate(('phi', 'theta', 'psi')):
            a, b, r = TRIPLES[int(rng.integers(len(TRIPLES)))]
            ang[nm] = float(np.arctan2(b, a))
            cs += [f'{a}/{r}', f'{b}/{r}']
        epsy = EPS[int(rng.integers(len(EPS)))]
        epsz = EPS[int(rng.integers(len(EPS)))]
        cases.append(({'part': 'diff3', 'epsy': epsy, 'epsz': epsz, **ang, 'cs': cs}, not (epsy == 1.0 and epsz == 1.0)))
    lines, meta = [], []
    for case, nontriv in cases:
        out = run_diff(case)
        ctx.case(key=_key('diff', {k: v for k, v in case.items() if k != 'cs'}), nontrivial=nontriv,
                 sample={k: v for k, v in case.items() if k != 'cs'} if ctx.evaluations % 101 == 0 else None)
        ctx.feat('diffusion:' + (case['part'] + ':' + case.get('type', 'FD')))
        for b in judge_diff(case, out):
            ctx.violation(b, case)
        if lean and not out['err']:
            if case['part'] == 'diff2':
                lines.append(f'c20_diff2 {case["type"]} {enc_rat(case["eps"])} {case["cs"][0]} {case["cs"][1]}')
            else:
                lines.append(f'c20_diff3 {enc_rat(case["epsy"])} {enc_rat(case["epsz"])} ' + ' '.join(case['cs']))
            meta.append((case, out))
    if not lean:
        return
    outs = _lean(ctx, lines)
    for (case, out), o in zip(meta, outs):
        M = np.array([float(Fraction(v)) for v in o.split(',')])
        S = out['S'].ravel()
        if M.shape != S.shape:
            ctx.corr(case['part'], case, o[:100], str(S.shape))
            continue
        scale = max(float(np.abs(M).max()), 1.0)
        err = float(np.abs(M - S).max()) / scale
        ctx.rel_err(err)
        if err > 1e-12:
            k = int(np.abs(M - S).argmax())
            ctx.corr(case['part'], case, f'entry {k} = {M[k]}', f'{S[k]}')


# ---- documented-discretisation oracle for diffusion_stencil_3d (independent of the transcribed closed forms) ----
# D = Q A Q^T is recomputed from the three documented rotation matrices; a 2nd-order FD stencil of -div D grad u applied
# to the quadratics x_a x_b (offsets -1,0,1) gives exactly the second-moment D_ab + D_ba; first moments and the sum vanish.
# The orientation of the mixed-derivative weights is a convention (direction of rotation / of the axes), so the three mixed
# moments are compared up to ONE common sign; the pure second moments are compared exactly (-2 D_aa).

def _d3_ref(epsy, epsz, theta, phi, psi):
    def rz(t):
        c, s = np.cos(t), np.sin(t)
        return np.array([[c, s, 0.0], [-s, c, 0.0], [0.0, 0.0, 1.0]])
    c, s = np.cos(theta), np.sin(theta)
    rth = np.array([[1.0, 0.0, 0.0], [0.0, c, s], [0.0, -s, c]])
    Q = rz(psi) @ rth @ rz(phi)
    return Q @ np.diag([1.0, float(epsy), float(epsz)]) @ Q.T


def judge_diff3_doc(case, out):
    bad = judge_diff(case, out)
    if bad:
        return bad
    tag = ', '.join(f'{k}={v}' for k, v in case.items() if k not in ('part', 'cs'))
    S = out['S']
    D = _d3_ref(case['epsy'], case['epsz'], case['theta'], case['phi'], case['psi'])
    scale = max(1.0, abs(case['epsy']), abs(case['epsz']))
    tol = 1e-11 * scale
    off = np.array([-1.0, 0.0, 1.0])
    X = np.meshgrid(off, off, off, indexing='ij')
    for a in range(3):
        m1 = float((S * X[a]).sum())
        if abs(m1) > tol:
            return [f'diffusion_stencil_3d({tag}): first moment along axis {a} is {m1}, a 2nd-order FD stencil of '
                    f'-div D grad u has none']
        got = float((S * X[a] * X[a]).sum())
        if abs(got + 2.0 * D[a, a]) > tol:
            return [f'diffusion_stencil_3d({tag}): stencil applied to x{a}^2 gives {got}, the documented -div(Q A Q^T grad) '
                    f'gives {-2.0 * D[a, a]}']
    pairs = [(0, 1), (0, 2), (1, 2)]
    got = np.array([float((S * X[a] * X[b]).sum()) for a, b in pairs])
    want = np.array([D[a, b] + D[b, a] for a, b in pairs])
    if min(float(np.abs(got - want).max()), float(np.abs(got + want).max())) > tol:
        k = int(np.argmax(np.minimum(np.abs(got - want), np.abs(got + want)))) if float(np.abs(np.abs(got) - np.abs(want)).max()) <= tol \
            else int(np.abs(np.abs(got) - np.abs(want)).argmax())
        a, b = pairs[k]
        return [f'diffusion_stencil_3d({tag}): mixed second moments over (x0x1, x0x2, x1x2) are {got.tolist()}, the documented '
                f'D = Q A Q^T (recomputed from Rpsi Rtheta Rphi) has D_ab + D_ba = {want.tolist()} (not equal up to one common '
                f'orientation sign; worst pair x{a}x{b})']
    # everything outside the 19-point (axis + face-diagonal) pattern and any antisymmetric part would be extra operators
    if float(np.abs(S - S[::-1, ::-1, ::-1]).max()) > tol:
        return [f'diffusion_stencil_3d({tag}): stencil is not point-symmetric (a constant-coefficient 2nd-order operator is)']
    return []


def part_diffusion3_doc(ctx, n):
    rng = np.random.default_rng([int(ctx.seed) & 0xffffffff, 0xC2011])
    for t in range(n):
        ang = {}
        mode = t % 4
        nz = 0
        for nm in ('phi', 'theta', 'psi'):
            if mode == 0 and rng.random() < 0.34:           # some zero angles (one / two angle sub-families)
                ang[nm] = 0.0
            elif mode == 1:
                a, b, r = TRIPLES[int(rng.integers(len(TRIPLES)))]
                ang[nm] = float(np.arctan2(b, a))
            elif mode == 2:
                ang[nm] = float(rng.integers(-8, 9)) * float(np.pi) / 4.0 if rng.random() < 0.5 else float(rng.uniform(-0.2, 0.2))
            else:
                ang[nm] = float(rng.uniform(-2 * np.pi, 2 * np.pi))
            nz += abs(np.sin(ang[nm])) > 1e-9
        if t % 3 == 0:
            epsy, epsz = EPS[int(rng.integers(len(EPS)))], EPS[int(rng.integers(len(EPS)))]
        elif t % 3 == 1:
            epsy, epsz = float(10 ** rng.uniform(-3, 3)), float(10 ** rng.uniform(-3, 3))
        else:
            epsy = epsz = 1.0 if t % 2 else float(rng.uniform(0.01, 2.0))
        case = {'part': 'diff3doc', 'epsy': epsy, 'epsz': epsz, **ang}
        out = run_diff(case)
        ctx.case(key=_key('diff3doc', case), nontrivial=nz >= 2, sample=dict(case) if t % 101 == 0 else None)
        ctx.feat('diffusion:diff3doc:angles-nonzero=%d' % nz)
        ctx.feat('diffusion:diff3doc:' + ('isotropic' if epsy == 1.0 and epsz == 1.0 else 'equal-eps' if epsy == epsz else 'aniso'))
        for b in judge_diff3_doc(case, out):
            ctx.violation(b, case)
            return


# ---------------------------------------------------------------- elasticity

def run_elas(case):
    """linear_elasticity on the grid and the free operator of the same mesh"""
    from pyamg.gallery import linear_elasticity
    from pyamg.gallery.elasticity import q12d
    X, Y = case['grid']
    sp_ = None if case['spacing'] is None else tuple(case['spacing'])
    res = {}
    try:
        A, B = linear_elasticity((X, Y), spacing=sp_, E=case['E'], nu=case['nu'], format=case['format'])
        res.update(err=None, A=A, B=np.asarray(B))
    except Exception as ex:          # noqa: BLE001
        return {'err': type(ex).__name__, 'msg': str(ex)}
    try:
        Af, Bf = q12d((X + 1, Y + 1), spacing=sp_, E=case['E'], nu=case['nu'], dirichlet_boundary=False, format='csr')
        res.update(Af=Af, Bf=np.asarray(Bf))
    except Exception as ex:          # noqa: BLE001
        res.update(ferr=type(ex).__name__ + ': ' + str(ex)[:100])
    return res


def _interior_nodes(X, Y):
    """interior nodes of the (X+2) x (Y+2) node array of the mesh with (X+1) x (Y+1) elements, x fastest"""
    return [j * (X + 2) + i for j in range(1, Y + 1) for i in range(1, X + 1)]


def judge_elas(case, out):
    X, Y = case['grid']
    tag = f'linear_elasticity({(X, Y)}, spacing={case["spacing"]}, E={case["E"]}, nu={case["nu"]}, format={case["format"]!r})'
    if X < 1 or Y < 1:
        return [] if out['err'] == 'ValueError' else [f'{tag}: invalid grid not rejected with ValueError: {out["err"]}']
    if out['err']:
        return [f'{tag} raised {out["err"]}: {out.get("msg", "")[:120]}']
    bad = []
    A, B = out['A'], out['B']
    n = 2 * X * Y
    if A.shape != (n, n) or B.shape != (n, 3):
        return [f'{tag}: shapes {A.shape}, {B.shape}; expected {(n, n)}, {(n, 3)}']
    if case['format'] is not None and A.format != case['format']:
        bad.append(f'{tag}: format {A.format!r} returned')
    D = A.toarray()
    amax = float(np.abs(D).max())
    if not np.isfinite(D).all() or not np.isfinite(B).all():
        return [f'{tag}: non-finite entries']
    asym = float(np.abs(D - D.T).max())
    if asym > TOL * amax:
        bad.append(f'{tag}: stiffness matrix not symmetric: max |A - A^T| = {asym} (max |A| = {amax})')
    ev = np.linalg.eigvalsh((D + D.T) / 2)
    if ev.min() <= 1e-12 * ev.max():
        bad.append(f'{tag}: stiffness matrix not positive definite: smallest eigenvalue {ev.min()} (largest {ev.max()})')
    dx, dy = (1.0, 1.0) if case['spacing'] is None else case['spacing']
    # rigid-body modes: two translations and an infinitesimal rotation (-y, x) about some centre, nodes numbered x fastest
    ij = np.array([(i, j) for j in range(Y) for i in range(X)], dtype=float)
    bmax = max(1.0, float(np.abs(B).max()))
    okB = (np.abs(B[0::2, 0] - 1).max() <= 1e-12 and np.abs(B[1::2, 0]).max() <= 1e-12
           and np.abs(B[1::2, 1] - 1).max() <= 1e-12 and np.abs(B[0::2, 1]).max() <= 1e-12)
    rx = B[0::2, 2] + ij[:, 1] * dy
    ry = B[1::2, 2] - ij[:, 0] * dx
    okB = okB and np.abs(rx - rx[0]).max() <= 1e-11 * bmax and np.abs(ry - ry[0]).max() <= 1e-11 * bmax
    if not okB:
        bad.append(f'{tag}: B is not (x-translation, y-translation, rotation (-y, x)) on the grid nodes numbered row by row')
    if 'ferr' in out:
        bad.append(f'q12d({(X + 1, Y + 1)}, dirichlet_boundary=False) raised {out["ferr"]}')
        return bad
    Af, Bf = out['Af'].toarray(), out['Bf']
    nf = 2 * (X + 2) * (Y + 2)
    if Af.shape != (nf, nf) or Bf.shape != (nf, 3):
        bad.append(f'free operator of {tag}: shapes {Af.shape}, {Bf.shape}; expected {(nf, nf)}, {(nf, 3)}')
        return bad
    fmax = float(np.abs(Af).max())
    res = float(np.abs(Af @ Bf).max())
    if res > TOL * fmax * max(1.0, float(np.abs(Bf).max())):
        r = int(np.abs(Af @ Bf).max(axis=1).argmax())
        bad.append(f'free operator of {tag}: rigid-body modes not in the nullspace: max |A_free B| = {res} at dof {r} (max |A_free| = {fmax})')
    if float(np.abs(Af - Af.T).max()) > TOL * fmax:
        bad.append(f'free operator of {tag}: not symmetric')
    else:
        evf = np.linalg.eigvalsh((Af + Af.T) / 2)
        if evf.min() < -1e-10 * evf.max():
            bad.append(f'free operator of {tag}: not positive semi-definite (eigenvalue {evf.min()})')
    # the Dirichlet system is the interior principal part of the free system
    nodes = _interior_nodes(X, Y)
    dofs = np.array([2 * k + c for k in nodes for c in (0, 1)])
    if float(np.abs(Af[np.ix_(dofs, dofs)] - D).max()) > TOL * fmax:
        bad.append(f'{tag}: A is not the free operator restricted to the interior nodes (Dirichlet elimination)')
    if float(np.abs(Bf[dofs] - B).max()) > 1e-11 * bmax:
        bad.append(f'{tag}: B is not the restriction of the rigid-body modes of the free operator to the interior nodes')
    # rows not coupled to the constrained boundary: interior nodes all of whose 8 neighbours are interior
    rows = [2 * (j * X + i) + c for j in range(1, Y - 1) for i in range(1, X - 1) for c in (0, 1)]
    if rows:
        AB = (D @ B)[rows]
        if float(np.abs(AB).max()) > TOL * amax * bmax:
            k = int(np.abs(AB).max(axis=1).argmax())
            bad.append(f'{tag}: (A B)[{rows[k]}] = {AB[k].tolist()} on a row not coupled to the boundary (max |A| = {amax})')
        case['_inner'] = len(rows)
    return bad


def parse_q12(o):
    nd, tri, brows = o.split(';')
    nd = int(nd)
    acc = {}
    if tri != '-':
        for e in tri.split('|'):
            r, c, v = e.split(',')
            k = (int(r), int(c))
            acc[k] = acc.get(k, 0) + Fraction(v)
    M = np.zeros((nd, nd))
    for (r, c), v in acc.items():
        M[r, c] = float(v)
    B = np.array([[float(Fraction(v)) for v in row.split(',')] for row in brows.split('|')]) if brows != '-' else np.zeros((0, 3))
    return nd, M, B


ELAS_PARAMS = [(1e5, 0.3), (1.0, 0.25), (2.5, 0.0), (1e5, 0.45), (7.0, -0.5), (1e3, 0.49), (0.125, 0.125), (3e7, 0.2)]
SPACINGS = [None, (1.0, 1.0), (1.0, 0.1), (0.5, 2.0), (0.25, 0.25), (3.0, 1.0), (0.1, 10.0)]


def elas_cases(ctx, deep=False):
    rng = ctx.np_rng
    m = 4 if (ctx.quick and not deep) else 6
    t = 0
    for X in range(1, m + 1):
        for Y in range(1, m + 1):
            reps = 1 if ctx.quick else 3
            for r in range(reps):
                E, nu = ELAS_PARAMS[(t + r) % len(ELAS_PARAMS)] if (t + r) % 3 else ELAS_PARAMS[0]
                spc = SPACINGS[(t * 3 + r) % len(SPACINGS)] if (t + r) % 2 else None
                yield {'part': 'elas', 'grid': [X, Y], 'spacing': None if spc is None else list(spc), 'E': E, 'nu': nu,
                       'format': [None, 'csr', 'bsr', 'csc', 'coo'][(t + r) % 5]}
            t += 1
    for _ in range(ctx.scale(6, 40)):
        X, Y = int(rng.integers(1, 10)), int(rng.integers(1, 10))
        if X * Y > 40:
            Y = max(1, 40 // X)
        E = float(rng.choice([1.0, 1e5, 210e9, 0.5]))
        nu = float(rng.choice([0.3, 0.25, 0.0, 0.4, -0.25, 0.499]))
        spc = SPACINGS[int(rng.integers(len(SPACINGS)))]
        if rng.random() < 0.3:
            spc = (float(rng.integers(1, 9)) / 4, float(rng.integers(1, 9)) / 4)
        yield {'part': 'elas', 'grid': [X, Y], 'spacing': None if spc is None else list(spc), 'E': E, 'nu': nu,
               'format': [None, 'csr', 'bsr', 'csc', 'coo'][int(rng.integers(5))]}
    for g in ([0, 2], [3, 0]):
        yield {'part': 'elas', 'grid': g, 'spacing': None, 'E': 1.0, 'nu': 0.3, 'format': None}


def part_elas(ctx, lean=True, deep=False):
    lines, meta = [], []
    for case in elas_cases(ctx, deep):
        out = run_elas(case)
        X, Y = case['grid']
        cls = 'invalid' if min(X, Y) < 1 else ('1x1' if X == Y == 1 else ('1-wide' if 1 in (X, Y) else ('square' if X == Y else 'non-square')))
        ctx.case(key=_key('elas', case), nontrivial=min(X, Y) >= 1, sample=dict(case) if ctx.evaluations % 53 == 0 else None)
        ctx.feat('elasticity:' + cls)
        ctx.feat('elasticity:spacing=' + ('default' if case['spacing'] is None else ('iso' if case['spacing'][0] == case['spacing'][1] else 'aniso')))
        for b in judge_elas(case, out):
            ctx.violation(b, {k: v for k, v in case.items() if not k.startswith('_')})
        if case.pop('_inner', 0):
            ctx.feat('elasticity:has-rows-not-coupled-to-boundary')
        if lean:
            spc = '-' if case['spacing'] is None else enc_rats(case['spacing'])
            lines.append(f'c20_q12d {X} {Y} {spc} {enc_rat(case["E"])} {enc_rat(case["nu"])} 1')
            lines.append(f'c20_q12d {X + 1} {Y + 1} {spc} {enc_rat(case["E"])} {enc_rat(case["nu"])} 0')
            small = min(X, Y) >= 1 and X * Y <= (4 if ctx.quick else 9)
            if small:       # proof-side readings (`entry`, `rowdot`) of the same model outputs
                lines.append(f'c20_q12d_read {X} {Y} {spc} {enc_rat(case["E"])} {enc_rat(case["nu"])} 1')
                lines.append(f'c20_q12d_read {X + 1} {Y + 1} {spc} {enc_rat(case["E"])} {enc_rat(case["nu"])} 0')
            meta.append((case, out, small))
    if not lean:
        return
    outs = _lean(ctx, lines)
    pos = 0
    for case, out, small in meta:
        od, of = outs[pos], outs[pos + 1]
        rd, rf = (outs[pos + 2], outs[pos + 3]) if small else (None, None)
        pos += 4 if small else 2
        if od == 'err':
            if out['err'] is None:
                ctx.corr('linear_elasticity(arguments)', case, od, 'returned')
            continue
        if out['err']:
            ctx.corr('linear_elasticity', case, od[:100], 'raised ' + out['err'])
            continue
        for which, o, Ai, Bi, rd_ in (('dirichlet', od, out['A'], out['B'], rd), ('free', of, out.get('Af'), out.get('Bf'), rf)):
            if Ai is None:
                ctx.corr(f'q12d[{which}]', case, o[:100], 'raised ' + out.get('ferr', '?'))
                continue
            nd, M, Bm = parse_q12(o)
            if Ai.shape != (nd, nd) or Bi.shape != Bm.shape:
                ctx.corr(f'q12d[{which}](shape)', case, f'{nd}, B {Bm.shape}', f'{Ai.shape}, B {Bi.shape}')
                continue
            D = Ai.toarray()
            sc = max(float(np.abs(M).max()), 1e-300)
            ea = float(np.abs(M - D).max()) / sc
            eb = float(np.abs(Bm - Bi).max()) / max(1.0, float(np.abs(Bm).max()))
            ctx.rel_err(max(ea, eb))
            if ea > TOL:
                r, c = np.unravel_index(int(np.abs(M - D).argmax()), M.shape)
                ctx.corr(f'q12d[{which}] matrix', case, f'entry ({r},{c}) = {M[r, c]}', f'{D[r, c]}')
            if eb > 1e-12:
                r, c = np.unravel_index(int(np.abs(Bm - Bi).argmax()), Bm.shape)
                ctx.corr(f'q12d[{which}] modes', case, f'B[{r},{c}] = {Bm[r, c]}', f'{Bi[r, c]}')
            if rd_ is not None and rd_ != 'err':
                dense_s, ab_s = rd_.split(';')
                Me = np.array([[float(Fraction(v)) for v in row.split(',')] for row in dense_s.split('|')])
                ABm = np.array([[float(Fraction(v)) for v in row.split(',')] for row in ab_s.split('|')]).T
                ctx.feat('elasticity:proof-side readings compared')
                if Me.shape != D.shape or float(np.abs(Me - D).max()) / sc > TOL:
                    ctx.corr(f'q12d[{which}] entry-reading', case, str(Me.shape), 'differs from the returned matrix')
                ABi = D @ Bi
                if float(np.abs(ABm - ABi).max()) > TOL * sc * max(1.0, float(np.abs(Bm).max())):
                    r, c = np.unravel_index(int(np.abs(ABm - ABi).argmax()), ABm.shape)
                    ctx.corr(f'q12d[{which}] A@B reading', case, f'(A B)[{r},{c}] = {ABm[r, c]}', f'{ABi[r, c]}')
                if which == 'free' and ABm.any():
                    ctx.corr('q12d[free] model A B != 0 (contradicts q12d_free_nullspace)', case, ab_s[:200], '')


# ---------------------------------------------------------------- extension E21: definiteness, closed-form eigenpairs

def _rat_roots(g):
    """the rational roots of the Chebyshev polynomial U_g: cos(k pi / (g+1)) in {0, 1/2, -1/2}"""
    r = []
    if g % 2 == 1:
        r.append(Fraction(0))
    if (g + 1) % 3 == 0:
        r += [Fraction(1, 2), Fraction(-1, 2)]
    return r


def _cheb(c, n):
    """U_0(c) .. U_n(c) by the three-term recurrence (independent of the Lean model)"""
    u = [Fraction(1), 2 * c]
    while len(u) < n + 1:
        u.append(2 * c * u[-1] - u[-2])
    return u[:n + 1]


def _tensor_vec(grid, cs):
    us = [_cheb(c, g) for g, c in zip(grid, cs)]
    return [math.prod(us[i][k] for i, k in enumerate(idx)) for idx in itertools.product(*[range(g) for g in grid])]


def _fr_matvec(D, v):
    return [sum(Fraction(int(D[i, j])) * v[j] for j in np.nonzero(D[i])[0]) for i in range(D.shape[0])]


def _poisson_dense(grid, ty):
    from pyamg.gallery import poisson
    D = np.asarray(poisson(tuple(grid), type=ty, format='csr').toarray(), dtype=float)
    return D if np.array_equal(D, np.rint(D)) else None


def judge_e21(case):
    """the clauses proved by extension E21, judged on the real outputs alone (exact rational arithmetic for poisson)"""
    part, bad = case['part'], []
    if part in ('e21-pq', 'e21-eig', 'e21-cheb'):
        grid, ty = case['grid'], case['type']
        D = _poisson_dense(grid, ty)
        tag = f'poisson({tuple(grid)}, type={ty!r})'
        if D is None:
            return [f'{tag}: non-integer entries'], {}
        if part == 'e21-pq':
            x = [Fraction(v) for v in case['x']]
            Ax = _fr_matvec(D, x)
            q = sum(a * b for a, b in zip(x, Ax))
            if any(x) and q <= 0:
                bad.append(f'{tag}: x^T A x = {q} <= 0 for x = {case["x"]}: not positive definite')
            if any(x) and not any(Ax):
                bad.append(f'{tag}: A x = 0 for the nonzero x = {case["x"]}: singular')
            return bad, {'q': q, 'Ax': Ax}
        if part == 'e21-eig':
            cs = [Fraction(c) for c in case['cs']]
            v = _tensor_vec(grid, cs)
            lam = sum(2 - 2 * c for c in cs) if ty == 'FD' else 3 ** len(grid) - math.prod(1 + 2 * c for c in cs)
            Av = _fr_matvec(D, v)
            if Av != [lam * t for t in v]:
                k = next(i for i in range(len(v)) if Av[i] != lam * v[i])
                bad.append(f'{tag}: the closed-form eigenpair (cos roots {case["cs"]}, eigenvalue {lam}) is not an eigenpair: '
                           f'(A v)[{k}] = {Av[k]}, lambda v[{k}] = {lam * v[k]}')
            return bad, {'lam': lam, 'v': v, 'Av': Av}
        n, c = grid[0], Fraction(case['c'])
        u = _cheb(c, n)
        v = u[:n]
        Av = _fr_matvec(D, v)
        want = [(2 - 2 * c) * v[j] + (u[n] if j == n - 1 else 0) for j in range(n)]
        if Av != want:
            k = next(i for i in range(n) if Av[i] != want[i])
            bad.append(f'{tag}: Chebyshev residual identity fails at row {k} for c = {c}: (A v) = {Av[k]}, expected {want[k]}')
        return bad, {'u': u, 'Av': Av}
    # e21-elas
    from pyamg.gallery import linear_elasticity
    X, Y = case['grid']
    sp_ = None if case['spacing'] is None else tuple(case['spacing'])
    A, _ = linear_elasticity((X, Y), spacing=sp_, E=case['E'], nu=case['nu'], format='csr')
    D = A.toarray()
    x = np.array(case['x'], dtype=float)
    q = float(x @ (D @ x))
    scale = float(np.abs(D).max()) * float(x @ x)
    if x.any() and q <= 1e-12 * scale:
        bad.append(f'linear_elasticity({(X, Y)}, spacing={case["spacing"]}, E={case["E"]}, nu={case["nu"]}): '
                   f'x^T A x = {q} for x = {case["x"]}: not positive definite')
    return bad, {'q': q, 'scale': scale, 'ndof': D.shape[0]}


def e21_cases(ctx, deep=False):
    rng = ctx.np_rng
    quick = ctx.quick and not deep
    lim = {1: 8, 2: 4, 3: 3} if quick else {1: 16, 2: 6, 3: 4, 4: 2}
    for nd, m in lim.items():
        for g in itertools.product(range(1, m + 1), repeat=nd):
            n = int(np.prod(g))
            for ty in ('FD', 'FE'):
                xs = [rng.integers(-3, 4, size=n), np.ones(n, dtype=int)]
                e = np.zeros(n, dtype=int)
                e[int(rng.integers(n))] = 1
                xs.append(e)
                if not quick:
                    xs.append(rng.integers(-1, 2, size=n) * (1 + np.arange(n) % 3))
                for x in xs:
                    yield {'part': 'e21-pq', 'grid': list(g), 'type': ty, 'x': [int(v) for v in x]}
    exts = [1, 2, 3, 5, 8, 11]
    for nd in (1, 2, 3):
        for g in itertools.product(exts, repeat=nd):
            if int(np.prod(g)) > (90 if quick else 250):
                continue
            combos = list(itertools.product(*[_rat_roots(e) for e in g]))
            if len(combos) > (2 if quick else 6):
                combos = [combos[int(k)] for k in rng.choice(len(combos), size=(2 if quick else 6), replace=False)]
            for cs in combos:
                for ty in ('FD', 'FE'):
                    yield {'part': 'e21-eig', 'grid': list(g), 'type': ty, 'cs': [str(c) for c in cs]}
    for n in range(1, (9 if quick else 13)):
        for k in ([-6, -3, -2, -1, 0, 1, 2, 5] if quick else range(-8, 9)):
            yield {'part': 'e21-cheb', 'grid': [n], 'type': 'FD', 'c': str(Fraction(k, 4))}
    m = 3 if quick else 5
    t = 0
    for X in range(1, m + 1):
        for Y in range(1, m + 1):
            E, nu = ELAS_PARAMS[t % len(ELAS_PARAMS)]
            spc = SPACINGS[t % len(SPACINGS)]
            t += 1
            n = 2 * X * Y
            xs = [rng.integers(-2, 3, size=n), np.ones(n, dtype=int)]
            e = np.zeros(n, dtype=int)
            e[int(rng.integers(n))] = 1
            xs.append(e)
            for x in xs:
                yield {'part': 'e21-elas', 'grid': [X, Y], 'spacing': None if spc is None else list(spc), 'E': E, 'nu': nu,
                       'x': [int(v) for v in x]}


def _rows(case):
    """the rows whose `rowdot` reading is compared: first, last and four spread over the grid"""
    n = int(np.prod(case['grid']))
    return sorted({0, n - 1, n // 2, n // 3, (2 * n) // 3, (5 * n) // 7})


def part_e21(ctx, lean=True, deep=False):
    """theorems of extension E21 (poisson_posdef, poisson_spectrum_rat, poisson_1d_residual_rat, q12d_dirichlet_posdef):
    their conclusions judged on the real matrices, and the driver-evaluated objects they speak about
    (qform, rowdot, chebUQ, tvecQ, eigQ) compared with the real matrices"""
    lines, meta = [], []
    for case in e21_cases(ctx, deep):
        bad, ref = judge_e21(case)
        nz = any(case.get('x', [1]))
        ctx.case(key=_key('e21', case), nontrivial=nz and int(np.prod(case['grid'])) >= 2,
                 sample=dict(case) if ctx.evaluations % 211 == 0 else None)
        ctx.feat(f'{case["part"]}:{len(case["grid"])}d' + (':' + case['type'] if 'type' in case else ''))
        for b in bad:
            ctx.violation(b, case)
        if not lean or bad:
            continue
        g = enc_ints(case['grid'])
        if case['part'] == 'e21-pq':
            lines.append(f'ext_c20_pq {g} {case["type"]} {enc_ints(case["x"])} {enc_ints(_rows(case))}')
        elif case['part'] == 'e21-eig':
            lines.append(f'ext_c20_eig {g} {case["type"]} {",".join(case["cs"])} {enc_ints(_rows(case))}')
        elif case['part'] == 'e21-cheb':
            lines.append(f'ext_c20_cheb {case["grid"][0]} {case["c"]}')
        else:
            spc = '-' if case['spacing'] is None else enc_rats(case['spacing'])
            lines.append(f'ext_c20_eq {case["grid"][0]} {case["grid"][1]} {spc} {enc_rat(case["E"])} {enc_rat(case["nu"])} '
                         f'{enc_ints(case["x"])}')
        meta.append((case, ref))
    if not lean:
        return
    outs = _lean(ctx, lines)
    fl = lambda s_: [Fraction(v) for v in s_.split(',')] if s_ != '-' else []
    for (case, ref), o in zip(meta, outs):
        part = case['part']
        if o == 'err':
            ctx.corr(part, case, o, 'returned')
            continue
        f = o.split(';')
        if part == 'e21-pq':
            if Fraction(f[0]) != ref['q']:
                ctx.corr('poisson: qform reading', case, f[0], str(ref['q']))
            if fl(f[1]) != [ref['Ax'][r] for r in _rows(case)]:
                ctx.corr('poisson: rowdot reading', case, f[1][:120], str([ref['Ax'][r] for r in _rows(case)]))
        elif part == 'e21-eig':
            if f[0] != '1':
                ctx.corr('U_g(c) = 0 on the rational roots (hypothesis of poisson_spectrum_rat)', case, f[0], '1')
            if Fraction(f[1]) != ref['lam']:
                ctx.corr('eigQ', case, f[1], str(ref['lam']))
            if fl(f[2]) != ref['v']:
                ctx.corr('tvecQ / chebUQ', case, f[2][:120], str(ref['v'][:12]))
            if fl(f[3]) != [ref['Av'][r] for r in _rows(case)]:
                ctx.corr('poisson: A v (rowdot reading)', case, f[3][:120], str([ref['Av'][r] for r in _rows(case)]))
        elif part == 'e21-cheb':
            if fl(f[0]) != ref['u']:
                ctx.corr('chebUQ', case, f[0][:120], str(ref['u'][:12]))
            if fl(f[1]) != ref['Av']:
                ctx.corr('poisson 1-D: A v (rowdot reading)', case, f[1][:120], str(ref['Av'][:12]))
        else:
            if int(f[0]) != ref['ndof']:
                ctx.corr('q12d[dirichlet] ndof', case, f[0], str(ref['ndof']))
                continue
            qm = float(Fraction(f[1]))
            err = abs(qm - ref['q']) / max(ref['scale'], 1e-300)
            ctx.rel_err(err)
            if err > TOL:
                ctx.corr('q12d[dirichlet]: qform reading', case, str(qm), str(ref['q']))
            if any(case['x']) and Fraction(f[1]) <= 0:
                ctx.corr('q12d[dirichlet]: model x^T A x <= 0 (contradicts q12d_dirichlet_posdef)', case, f[1], '')


# ---------------------------------------------------------------- extension E45: completeness of the closed-form spectrum

def _fr_rank(M):
    """rank of a matrix of Fractions by exact elimination"""
    M = [row[:] for row in M]
    rk, rows, cols = 0, len(M), len(M[0]) if M else 0
    for c in range(cols):
        piv = next((r for r in range(rk, rows) if M[r][c] != 0), None)
        if piv is None:
            continue
        M[rk], M[piv] = M[piv], M[rk]
        for r in range(rk + 1, rows):
            if M[r][c] != 0:
                f = M[r][c] / M[rk][c]
                M[r] = [a - f * b for a, b in zip(M[r], M[rk])]
        rk += 1
    return rk


_E45_ROOT = {(1, 1): Fraction(0), (2, 1): Fraction(1, 2), (2, 2): Fraction(-1, 2)}


def _e45_formula(grid, ty, ks):
    cs = [_E45_ROOT[(g, k)] for g, k in zip(grid, ks)]
    return sum(2 - 2 * c for c in cs) if ty == 'FD' else Fraction(3) ** len(grid) - math.prod(1 + 2 * c for c in cs)


def judge_e45(case):
    """theorems poisson_fd/fe_multiplicity + poisson_fd/fe_eigenvalue_complete judged on the real matrix alone, exactly,
    on a grid with extents in {1, 2} (all Chebyshev roots rational): for every closed-form value mu the real matrix has
    dim ker(A - mu I) = number of index tuples giving mu (these numbers add up to the size, so there is no other eigenvalue)"""
    grid, ty = case['grid'], case['type']
    D = _poisson_dense(grid, ty)
    tag = f'poisson({tuple(grid)}, type={ty!r})'
    if D is None:
        return [f'{tag}: non-integer entries'], None
    n = D.shape[0]
    cnt = {}
    for ks in itertools.product(*[range(1, g + 1) for g in grid]):
        lam = _e45_formula(grid, ty, ks)
        cnt[lam] = cnt.get(lam, 0) + 1
    bad = []
    for lam, c in sorted(cnt.items()):
        M = [[Fraction(int(D[i, j])) - (lam if i == j else 0) for j in range(n)] for i in range(n)]
        nul = n - _fr_rank(M)
        if nul != c:
            bad.append(f'{tag}: the closed-form value {lam} is given by {c} index tuple(s) but dim ker(A - {lam} I) = {nul}: '
                       f'the closed-form eigenpairs do not exhaust the spectrum with multiplicities')
    return bad, {'D': D, 'cnt': cnt}


def e45_cases(ctx, deep=False):
    Nmax = 4 if (deep or not ctx.quick) else 3
    for N in range(1, Nmax + 1):
        for grid in itertools.product((1, 2), repeat=N):
            for ty in ('FD', 'FE'):
                yield {'part': 'e45-recon', 'grid': list(grid), 'type': ty}
    if ctx.quick and not deep:
        for grid in ((2, 2, 2, 2), (1, 2, 2, 1), (2, 1, 1, 2)):
            for ty in ('FD', 'FE'):
                yield {'part': 'e45-recon', 'grid': list(grid), 'type': ty}
    lim = {1: 7, 2: 4, 3: 3, 4: 2} if (ctx.quick and not deep) else {1: 14, 2: 6, 3: 4, 4: 3}
    for N, m in lim.items():
        for grid in itertools.product(range(1, m + 1), repeat=N):
            yield {'part': 'e45-tuples', 'grid': list(grid)}


def part_e45(ctx, lean=True, deep=False):
    """extension E45 (completeness of the closed-form spectrum): the numbering of the index tuples the theorems use
    (`tuplesQ`) against the enumeration of the numeric spectrum comparison, the numeric spectrum of the real matrix
    against the closed form evaluated on the theorem's tuples, and -- exactly, on the grids with rational Chebyshev roots
    only -- kernel dimensions of the real matrix and the spectral reconstruction from the closed-form eigenpairs"""
    lines, meta = [], []
    for case in e45_cases(ctx, deep):
        n = int(np.prod(case['grid']))
        ctx.case(key=_key('e45', case), nontrivial=n >= 2, sample=dict(case) if ctx.evaluations % 97 == 0 else None)
        ctx.feat(f'{case["part"]}:{len(case["grid"])}d')
        ref = None
        if case['part'] == 'e45-recon':
            bad, ref = judge_e45(case)
            for b in bad:
                ctx.violation(b, case)
            if bad:
                continue
            lines.append(f'c20e45_recon {enc_ints(case["grid"])} {case["type"]}')
        else:
            lines.append(f'c20e45_tuples {enc_ints(case["grid"])}')
        meta.append((case, ref))
    if not lean:
        return
    outs = _lean(ctx, lines)
    for (case, ref), o in zip(meta, outs):
        grid = case['grid']
        if case['part'] == 'e45-tuples':
            got = [tuple(int(v) for v in t.split(',')) for t in o.split('|')] if o else []
            want = list(itertools.product(*[range(1, g + 1) for g in grid]))
            if got != want:
                ctx.corr('index tuples of the completeness theorems (tuplesQ)', case, o[:120], str(want[:8]))
                continue
            n = len(want)
            if 2 <= n <= 400:
                # the closed form on the theorem's tuples against the numeric spectrum of the real matrices
                for ty in ('FD', 'FE'):
                    D = _poisson_dense(grid, ty)
                    if D is None or not np.array_equal(D, D.T):
                        continue
                    cs = [[math.cos(k * math.pi / (g + 1)) for g, k in zip(grid, ks)] for ks in got]
                    fv = np.sort([sum(2 - 2 * c for c in c_) if ty == 'FD' else 3 ** len(grid) - math.prod(1 + 2 * c for c in c_)
                                  for c_ in cs])
                    ev = np.linalg.eigvalsh(D)
                    err = float(np.abs(ev - fv).max()) / max(1.0, float(fv.max()))
                    ctx.rel_err(err)
                    if err > 1e-9:
                        ctx.violation(f'poisson({tuple(grid)}, type={ty!r}): the sorted spectrum differs from the closed form on '
                                      f'the index tuples of the completeness theorems by {err:.2e} (relative)',
                                      dict(case, part='poisson', type=ty, format='csr', dtype=None))
            continue
        if o in ('err', 'irrational'):
            ctx.corr('c20e45_recon', case, o, 'rational eigen-system')
            continue
        f = o.split(';')
        D, cnt = ref['D'], ref['cnt']
        n = D.shape[0]
        lams = sorted(Fraction(v) for v in f[0].split(','))
        if lams != sorted(l for l, c in cnt.items() for _ in range(c)):
            ctx.corr('closed-form eigenvalues on tuplesQ (eigQ)', case, f[0][:120], str(sorted(cnt.items()))[:120])
        R = [[Fraction(v) for v in row.split(',')] for row in f[1].split('|')]
        if R != [[Fraction(int(D[i, j])) for j in range(n)] for i in range(n)]:
            ctx.corr('spectral reconstruction sum_m lam_m V_m V_m^T / |V_m|^2 = A (completeness)', case, f[1][:120],
                     str(D.tolist())[:120])
        I = [[Fraction(v) for v in row.split(',')] for row in f[2].split('|')]
        if I != [[Fraction(int(i == j)) for j in range(n)] for i in range(n)]:
            ctx.corr('completeness relation sum_m V_m V_m^T / |V_m|^2 = I', case, f[2][:120], 'identity')
        if f[3] != '1':
            ctx.corr('closed-form pairs: roots / eigenpairs of the model / pairwise orthogonal / nonzero', case, f[3], '1')


# ---------------------------------------------------------------- entry points

def run(ctx):
    rng = ctx.np_rng
    n = ctx.scale(560, 10000)
    cases = [gen_stencil(rng, t) for t in range(n)] + [gen_stencil_bad(rng, t) for t in range(ctx.scale(12, 60))]
    cases += [gen_stencil_wide(rng, t) for t in range(ctx.scale(420, 6000))] + list(full_coupling_cases(rng, ctx.quick))
    part_stencil(ctx, cases)
    part_poisson(ctx)
    part_diffusion(ctx, ctx.scale(240, 3000), ctx.scale(80, 1000))
    part_diffusion3_doc(ctx, ctx.scale(400, 4000))
    part_elas(ctx)
    part_e21(ctx)
    part_e45(ctx)


def search(ctx):
    rng = ctx.np_rng
    part_stencil(ctx, [gen_stencil(rng, t) for t in range(3000)] + [gen_stencil_wide(rng, t) for t in range(3000)]
                 + list(full_coupling_cases(rng, False)), lean=False)
    part_poisson(ctx, lean=False, deep=True)
    part_diffusion(ctx, 2000, 600, lean=False)
    part_diffusion3_doc(ctx, 3000)
    part_elas(ctx, lean=False, deep=True)
    part_e21(ctx, lean=False, deep=True)
    part_e45(ctx, lean=False, deep=True)


def replay(ctx, data):
    case = data['case']
    part = case.get('part')
    print('replaying', {k: v for k, v in case.items() if k != 'vals'})
    if part == 'stencil':
        bad = judge_stencil(case, run_stencil(case))
    elif part == 'poisson':
        bad = judge_poisson(case, run_poisson(case))
    elif part in ('diff2', 'diff3'):
        bad = judge_diff(case, run_diff(case))
    elif part == 'diff3doc':
        bad = judge_diff3_doc(case, run_diff(case))
    elif str(part).startswith('e21-'):
        bad = judge_e21(case)[0]
    elif part == 'e45-recon':
        bad = judge_e45(case)[0]
    else:
        bad = judge_elas(case, run_elas(case))
    for b in bad:
        ctx.violation(b, case)
        print('  ', b)
