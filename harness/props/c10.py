"""C10 -- aggregation-based prolongators reproduce the near-nullspace candidates.

correspondence : (A) rebuilt kernels fit_candidates (real/complex; binary64 replay bit by bit, exact Rat /
                 Gaussian-rational run on perfect-square instances), satisfy_constraints_helper, calc_BtB,
                 incomplete_mat_mult_bsr (exact, dyadic data) vs the loop-by-loop models of Model/C10.lean;
                 (B) public functions tentative.fit_candidates, smooth.satisfy_constraints,
                 utils.filter_operator (+ compute_BtBinv), utils.scale_T, smooth.jacobi_prolongation_smoother
                 (unfiltered: diagonal / local / block; filtered), smooth.richardson_prolongation_smoother,
                 smooth.energy_prolongation_smoother with krylov = cg / cgnr (whole loop, with and without root
                 nodes) vs the models, and vs the proof-side definitions the theorems of Props/C10.lean are
                 about (`c10_p_fit` = GS.mgs per aggregate, `c10_p_proj` = C10.project, `c10_p_smooth` = both
                 sides of smoothing_polynomial, `c10_p_reset` = I_F X + P_I); the driver also decides the
                 hypotheses of updates_keep_product / updates_keep_pattern on every filtered-Jacobi / cg / cgnr
                 instance (each projected update annihilates B_c exactly, lies in the pattern, and the proof-side
                 fold applyUpdates reproduces the model's P).
                 (E24) incomplete_mat_mult_csr (evolution_strength.h; sorted = its precondition, and unsorted input) and
                 incomplete_mat_mult_bsr with unsorted block columns vs Model/ExtC10bImm.lean / Model/C10.lean, exactly;
                 energy_prolongation_smoother(krylov='gmres') (whole loop: Arnoldi with the Frobenius product, Givens
                 rotations, triangular solve; with and without root nodes) vs Model/ExtC10bGmres.lean run on exact
                 rationals with 64-bit square roots (`ext_c10b_gmres`), which also decides the hypothesis of
                 gmres_run_checked on every run (each projected matrix annihilates B_c and lies in the pattern; a theorem for
                 every input since gmres_run_property) and its conclusion; the proof-side complex Gram-Schmidt C10.cfitAgg (`ext_c10b_p_cfit`) vs
                 tentative.fit_candidates on every Gaussian-rational instance.
                 (E48) energy_prolongation_smoother(krylov = cg / cgnr) on real and complex data and krylov = gmres on complex data
                 (with and without root nodes) vs energyCG / energyCGC / energyGmresC run on exact (Gaussian) rationals
                 (`ext_c10c_energy r|c`, `ext_c10c_gmres c`); the driver decides the hypotheses of cg_run_checked / gmresC_run_property
                 on every call (flag hyps) and re-checks their conclusion on the model's result (flags rel / product); complex
                 unfiltered Jacobi / Richardson vs the array model and both sides of smoothing_polynomial over CRat
                 (`ext_c10c_smooth`, `ext_c10c_p_smooth`), complex filtered Jacobi vs filteredLoopC (`ext_c10c_jacf`, hypotheses and
                 conclusion of filteredC_run_property decided on the instance).
                 (E53) the whole of energy_prolongation_smoother -- pattern selection (degree, prefilter theta / k / both, degree 0,
                 root rows), filter_operator pass, Krylov loop (cg / cgnr / gmres), postfilter and its second pass -- vs the composed
                 model C10dM.energyFullCG / energyFullGmres (`ext_c10d_energy r|c`): the pattern handed to compute_BtBinv in each
                 pass EXACTLY (dyadic strength values with ties at the theta threshold and at the k-th largest entry, unsorted
                 strength rows), the returned P with tolerance 1e-6; the driver decides hypotheses and conclusion of
                 energy_full_cg_property / energy_full_gmres_property on every call (flags hyps / prop); the input test
                 T.blocksize[0] == A.blocksize[0] (ValueError) vs `error:blocksize` of the model (energy_*_precond_blocksize);
                 smoothed_aggregation_solver / rootnode_solver hierarchies (hermitian, smooth = None | energy | jacobi | richardson, keep=True) level by
                 level vs the level loop C10dM.hierarchy (`ext_c10d_hier`: T, B_c, P, next A with tolerance, patterns exactly),
                 given the AggOp / strength matrix / root dofs of the real run.
search         : the property itself on the real code with independent dense NumPy oracles:
                 T^H T = diag(1/0), T B_c = B on aggregated unknowns, zero rows, pattern(T) = AggOp (x) block,
                 number of zero columns = local rank deficiency for fit_candidates; (P - T) B_c = 0 and
                 supp(P - T) inside the allowed pattern (pre-filter recomputed independently) for every energy
                 variant (cg / cgnr / gmres x degree 0..2 x maxiter 1..4 x weighting x pre-filters) and filtered
                 Jacobi; the polynomial identity for unfiltered Jacobi / Richardson (real and complex); identity
                 rows, injection and row-wise reproduction of B for root-node prolongators (scale_T, energy with
                 extra candidates and post-filters); every level of smoothed_aggregation_solver /
                 rootnode_solver hierarchies (keep=True, improve_candidates=None).
"""
import contextlib
import hashlib
import io
import struct
import sys
from fractions import Fraction

import numpy as np
import scipy.sparse as sp

import gen
from common import enc_ints, enc_rats, enc_crats, enc_rat, enc_crat, dec_list, dec_rat, dec_crat, frac

META = {
    'rule': 'cases = (a) raw kernels and public functions on random partitions (unaggregated rows, empty and singleton '
            'aggregates), nodal blocks K1 = 1..3, 1..3 candidates, real/complex, well-conditioned / exactly dependent / '
            'perfect-square candidate blocks; random BSR patterns and dyadic data for the projection and pattern-product '
            'kernels; (b) every smoothing variant (energy: cg/cgnr/gmres x degree x maxiter x weighting x pre/post '
            'filters; Jacobi diagonal/local/block, filtered or not; Richardson) on random symmetric and nonsymmetric '
            'matrices with random strength patterns; (c) every level of smoothed_aggregation_solver / rootnode_solver '
            'hierarchies built with keep=True and improve_candidates=None; (d) E53: direct calls of energy_prolongation_smoother '
            'over the full option grid (krylov x degree 0..2 x maxiter x weighting x prefilter in {theta, k, both, none} x root / postfilter '
            'in {theta, k, both, none} x extra candidates x real / complex) with dyadic strength values, and small hierarchies of both '
            'solvers compared with the level-loop model.  A case is non-trivial when at least one '
            'aggregate has two or more unknowns (fit / hierarchy cases) or the update pattern has an off-diagonal block '
            '(projection / smoothing cases); distinct = distinct (operation, options, input) tuples',
    'search_only': ['numerically delicate pre-/post-filter decisions of the energy smoothers (an entry within 1e-7 of the theta threshold '
                    'or of the k-th largest magnitude of the smoothed P; complex moduli / a theta that is not a power of two within 1e-12): the '
                    'exact model decides them exactly, binary64 may not -- such calls are judged by the independent NumPy oracles only '
                    '((P - T) B_c = 0, supp(P - T) inside Atilde^degree pattern(T), identity rows, P B_c = B); everything else of the '
                    'filter selection is modelled (E53: energyPattern / postFilter, compared exactly) and covered by energy_full_cg_property / '
                    'energy_full_gmres_property',
                    'hierarchies outside the level-loop model (E53 models real hermitian problems with smooth = None | energy | unfiltered Jacobi | '
                    'Richardson, the weight omega/rho of each level recorded from the run): filtered Jacobi inside hierarchies, nonsymmetric '
                    'hierarchies (R from a second smoothing pass with BH), complex hierarchies, lloyd aggregation, improve_candidates: every level '
                    'judged by the independent oracles on the stored AggOp, T, P, B, Cpts',
                    'root-node levels: reproduction of B on the aggregate rows by the *scaled* tentative prolongator (scale_T) has no theorem for '
                    'the array model (identity rows, injection, (P - T) B_c = 0 / P B_c = B and the pattern do: level_root, level_smooth_energy_*); '
                    'judged by the oracle',
                    'single precision input: fit_candidates judged by the property oracle with tolerance 1e-4 only'],
    'partial': ['filter_operator_row_partial (root-node clause "reproduces B on every row whose pattern can support the constraints"): '
                'proved for rows whose local Gram matrix B_J^H B_J is inverted by BtBinv; rows where the code falls back to a '
                'pseudo-inverse are not claimed (the search skips them too unless the rank deficiency is exact)',
                'complex candidates: cfit_support / cfit_cross_orthogonal / cfit_local / cfit_reproduces (conjugated dot product, pairs '
                'over an ordered field) are about the proof-side loop C10.cfitAgg, which the check compares with the complex kernel on '
                'every Gaussian-rational instance (`ext_c10b_p_cfit`); the refinement array model = proof-side definition is a theorem '
                'for the real instance only (fitCandidates_refines)',
                'gmres_run_property / cg_run_property / cgC_run_property / gmresC_run_property are stated for row-scaling preconditioners and '
                'block-diagonal ones whose block size is the row block size of the pattern; E53 proves that energy_prolongation_smoother never '
                'builds another one (energy_cg_precond_blocksize / energy_gmres_precond_blocksize: the input test rejects T.blocksize[0] != '
                'A.blocksize[0], and the check verifies the ValueError on the real code), so the composed theorems energy_full_*_property carry no '
                'such restriction. With root nodes cg_run_property states the product and pattern clauses on the non-root rows and "untouched or '
                'identity row" on the root rows (the loop resets the root rows after every update); the complex gmres model uses 64-bit square '
                'roots for norms and moduli ',
                'level_fit_reproduces (T B_c = B - drop on every level) is a theorem for ordered fields with an exact square root (the real '
                'numbers); the driver runs the level loop on rationals with 64-bit square roots and reciprocals (ratOpsD) and compares with '
                'tolerance; the composed energy theorems hold for the executed instance itself and the driver re-decides their conclusion '
                'exactly on every call ',
                '(compared with tolerance 1e-6 like the real one)'],
    'assumptions': ['binary64 rounding is outside the exact models: kernels are compared exactly on dyadic and perfect-square instances '
                    '(every operation is then exact) and fit_candidates is replayed in binary64 bit by bit on generic data; functions '
                    'that invert local matrices (compute_BtBinv, scale_T, block weighting: LAPACK pseudo-inverse) are compared with '
                    'the exact inverse with tolerance 1e-9 .. 1e-6 on well-conditioned blocks only',
                    'the square-root hypothesis of the fit theorems (sqrt x * sqrt x = x for x >= 0) holds in the real numbers; the '
                    'rational run of the proof-side fitAgg uses exact roots and is compared only where every root taken is exact',
                    'approximate_spectral_radius is not modelled: the value the smoother used is recorded from the call, checked '
                    'against the dense spectral radius of the scaled matrix (5% for n <= 12 -- defective eigenvalues converge slowly --, 20% inside hierarchies) and then '
                    'used in the polynomial',
                    'the gmres model runs on exact rationals with square roots of 64 significant bits (every other operation exact); it is '
                    'compared with tolerance 1e-6 on runs without breakdown, with residual norms outside (1e-12, 1e-4), Arnoldi norms '
                    'H[i+1,i] >= 1e-6 and a triangular factor with diagonal ratio >= 1e-6',
                    'incomplete_mat_mult_csr: sorted, duplicate-free indices of A (rows) and B (columns) are the kernel\'s stated '
                    'precondition and the hypothesis of imm_csr_spec; on unsorted input only model = kernel is compared; '
                    'incomplete_mat_mult_bsr: block columns of S distinct inside a block row (hypothesis of imm_bsr_spec)',
                    'for the model comparison of filtered Jacobi and cg/cgnr/gmres energy smoothing the row patterns are read from the '
                    'running code (arguments of satisfy_constraints / compute_BtBinv); the independent oracle recomputes the allowed '
                    'pattern itself',
                    'rows whose local candidate block has singular values between 1e-9 and 1e-2 of the largest are numerically '
                    'ambiguous (pinv cut-off) and are skipped (counted in near_threshold_skipped / features)',
                    'E53: the SciPy operations between the pyamg calls are part of the composed model as an environment description '
                    '(csr_matmat: linked list of the columns seen, newest first, exact zero sums dropped; bsr_tocsr order; sums of patterns as '
                    'set unions; unamal / tobsr + sort_indices) and are validated by the exact comparison of the selected patterns on every call; '
                    'truncate_rows is called with k >= 1, theta in [0, 1); T without duplicate block columns; A.nnz > 0',
                    'E53 hierarchies: the model takes AggOp, the strength matrix and the root dofs of every level from the real run (C01-C04, C12 '
                    'are about them); sqrt and 1/norm of the fit kernel are rounded to 64 significant bits, the Galerkin product to 2^-80 '
                    '(the theorems hold for any rounding of the Galerkin product); sizes are limited (n <= 12 on the finest level) because exact '
                    'rationals grow fast; gmres / cgnr levels use one candidate per aggregate',
                    'root-node direct calls: nodes the aggregation leaves out have no strong neighbours (what the aggregation routines '
                    'guarantee); strength=None is used with scalar problems only (on block matrices it aggregates dofs, not nodes)'],
}

if hasattr(sys, 'set_int_max_str_digits'):
    sys.set_int_max_str_digits(0)      # exact rationals of the energy-minimisation model can have thousands of digits

TOL = 1e-10     # the `tol` argument of fit_candidates (its default)


def quiet():
    """pyamg prints a diagnostic when an energy residual is empty: keep it off our stdout"""
    return contextlib.redirect_stdout(io.StringIO())


def _key(*a):
    return hashlib.sha1(repr(a).encode()).hexdigest()


def fbits(x):
    return struct.unpack('<Q', struct.pack('<d', float(x)))[0]


def enc_fbits(xs):
    xs = list(xs)
    return ','.join(str(fbits(x)) for x in xs) if xs else '-'


def enc_cfbits(zs):
    out = []
    for z in zs:
        z = complex(z)
        out += [str(fbits(z.real)), str(fbits(z.imag))]
    return ','.join(out) if out else '-'


def dec_fbits(s):
    return [struct.unpack('<d', struct.pack('<Q', int(t)))[0] for t in dec_list(s)]


def dec_cfbits(s):
    v = dec_fbits(s)
    return [complex(v[2 * i], v[2 * i + 1]) for i in range(len(v) // 2)]


def dec_vals(s, mode):
    """model output list -> (list of exact values or None, complex ndarray of floats)"""
    if mode == 'f':
        v = dec_fbits(s)
        return v, np.array(v, dtype=float)
    if mode == 'cf':
        v = dec_cfbits(s)
        return v, np.array(v, dtype=complex)
    if mode == 'r':
        v = dec_list(s, dec_rat)
        return v, np.array([float(x) for x in v], dtype=float)
    v = dec_list(s, dec_crat)
    return v, np.array([complex(float(a), float(b)) for a, b in v], dtype=complex)


def same_exact(vals, impl, mode):
    """bit / rational equality of a model output with an ndarray"""
    impl = np.asarray(impl).ravel()
    if len(vals) != impl.size:
        return False
    if mode == 'f':
        return all(fbits(a) == fbits(b) or a == b for a, b in zip(vals, impl))
    if mode == 'cf':
        return all(a == complex(b) for a, b in zip(vals, impl))
    if mode == 'r':
        return all(np.isfinite(b) and a == Fraction(float(b)) for a, b in zip(vals, impl))
    return all(np.isfinite(b.real) and np.isfinite(b.imag) and a[0] == Fraction(float(b.real)) and a[1] == Fraction(float(b.imag))
               for a, b in zip(vals, impl))


def close(a, b, tol=1e-9):
    a = np.asarray(a).ravel()
    b = np.asarray(b).ravel()
    if a.size != b.size:
        return False
    if a.size == 0:
        return True
    if not (np.all(np.isfinite(a)) and np.all(np.isfinite(b))):
        return False
    return float(np.abs(a - b).max()) <= tol * (1.0 + float(np.abs(b).max()))


def cj(v):
    """JSON-able form of an array (complex -> [re, im])"""
    v = np.asarray(v)
    if np.iscomplexobj(v):
        return [[float(z.real), float(z.imag)] for z in v.ravel()]
    return [float(z) for z in v.ravel()]


def uncj(l, cplx):
    if cplx:
        return np.array([complex(a, b) for a, b in l], dtype=complex)
    return np.array(l, dtype=float)


def i32(a):
    return np.ascontiguousarray(np.asarray(a), dtype=np.int32)


# ------------------------------------------------------------------------------------------------
# generators
# ------------------------------------------------------------------------------------------------

def rand_partition(rng, nf, p_un=0.2, allow_empty=False):
    """aggregate id per fine node (-1 = unaggregated), number of aggregates"""
    nc = int(rng.integers(1, max(2, nf // 2 + 2)))
    agg = rng.integers(0, nc, size=nf)
    if rng.random() < 0.6:
        agg[rng.random(nf) < p_un] = -1
    if not allow_empty:
        used = sorted(set(int(a) for a in agg if a >= 0))
        ren = {a: k for k, a in enumerate(used)}
        agg = np.array([ren[int(a)] if a >= 0 else -1 for a in agg], dtype=int)
        nc = max(1, len(used))
    return agg, nc


def chain_partition(rng, nf, p_un=0.1):
    """consecutive aggregates of 1..3 nodes (at least two aggregates when nf >= 2), a few nodes left out"""
    agg, j, i = [], 0, 0
    while i < nf:
        k = int(rng.integers(1, 4))
        k = min(k, nf - i if j > 0 else max(1, nf - i - 1))
        agg += [j] * k
        i += k
        j += 1
    agg = np.array(agg[:nf], dtype=int)
    for a in range(j):
        idx = np.flatnonzero(agg == a)
        if len(idx) > 1 and rng.random() < p_un:
            agg[idx[-1]] = -1
    return agg, j


def aggop_of(agg, nc, dtype=np.int8):
    nf = len(agg)
    rows = [i for i in range(nf) if agg[i] >= 0]
    cols = [int(agg[i]) for i in rows]
    A = sp.csr_array((np.ones(len(rows), dtype=dtype), (np.array(rows, dtype=np.int32), np.array(cols, dtype=np.int32))),
                     shape=(nf, nc))
    A = A.tocsr()
    A.indptr = A.indptr.astype(np.int32)
    A.indices = A.indices.astype(np.int32)
    return A


HAD4 = np.array([[1, 1, 1, 1], [1, -1, 1, -1], [1, 1, -1, -1], [1, -1, -1, 1]], dtype=float).T / 2.0


def square_block(rng, d, K2, cplx):
    """d x K2 block Q R with Q rational-orthonormal (signed unit vectors / Hadamard columns on a
    4-subset, times a unit Gaussian integer) and R upper triangular with power-of-two or zero
    diagonal: the kernel's square roots are exact and so is every binary64 operation"""
    cols = []
    free = list(rng.permutation(d))
    had = None
    if d >= 4 and rng.random() < 0.6:
        had = [free.pop() for _ in range(4)]
    hk = 0
    for _ in range(K2):
        q = np.zeros(d, dtype=complex if cplx else float)
        if had is not None and hk < 4 and (rng.random() < 0.7 or not free):
            q[had] = HAD4[:, hk]
            hk += 1
        elif free:
            q[free.pop()] = rng.choice([1.0, -1.0])
        else:
            cols.append(None)
            continue
        if cplx:
            q = q * rng.choice([1, 1j, -1, -1j])
        cols.append(q)
    B = np.zeros((d, K2), dtype=complex if cplx else float)
    prev = []
    for k in range(K2):
        keep = cols[k] is not None and rng.random() < 0.8
        r = float(rng.choice([0.5, 1.0, 2.0, 4.0])) if keep else 0.0
        # coefficients on the previous columns such that the norm of the whole column is rational
        if keep:
            table = {0: [()], 1: [(0,), (1.5,)], 2: [(0, 0), (1.5, 0), (0, 1.5), (1, 2), (2, 1), (4, 4)]}
            cs = [c * r / 2.0 for c in table[min(len(prev), 2)][rng.integers(len(table[min(len(prev), 2)]))]]
        else:
            table = {0: [()], 1: [(0,), (1,), (-2,)], 2: [(0, 0), (3, 4), (-4, 3), (2, 0), (0, 1)]}
            cs = list(table[min(len(prev), 2)][rng.integers(len(table[min(len(prev), 2)]))])
        v = np.zeros(d, dtype=B.dtype)
        for q, c in zip(prev, cs):
            if cplx:
                c = c * rng.choice([1, 1j, -1, -1j])
            v = v + c * q
        if keep:
            v = v + r * cols[k]
            prev.append(cols[k])
        B[:, k] = v
    return B


def rand_candidates(rng, agg, nc, K1, K2, cplx, kind):
    """B of shape (nf*K1, K2); kind: 'generic' (continuous, well conditioned with probability one),
    'square' (exact arithmetic), 'deficient' (integer columns with exact dependencies)"""
    nf = len(agg)
    dt = complex if cplx else float
    if kind == 'generic':
        B = rng.standard_normal((nf * K1, K2)).astype(dt)
        if cplx:
            B = B + 1j * rng.standard_normal((nf * K1, K2))
        return B
    if kind == 'deficient':
        B = rng.integers(-3, 4, size=(nf * K1, K2)).astype(dt)
        if cplx:
            B = B + 1j * rng.integers(-2, 3, size=(nf * K1, K2))
        for j in range(nc):
            rows = [i * K1 + k for i in range(nf) if agg[i] == j for k in range(K1)]
            if not rows or K2 < 2:
                continue
            r = rng.random()
            if r < 0.35:
                B[rows, K2 - 1] = 2 * B[rows, 0]                   # last column dependent on the first
            elif r < 0.5:
                B[rows, 0] = 0                                     # zero first column
            elif r < 0.6 and K2 >= 3:
                B[rows, 1] = B[rows, 0] * (1j if cplx else -1)
        return B
    B = rng.integers(-3, 4, size=(nf * K1, K2)).astype(dt)      # rows of unaggregated nodes: arbitrary
    for j in range(nc):
        rows = [i * K1 + k for i in range(nf) if agg[i] == j for k in range(K1)]
        if rows:
            B[rows, :] = square_block(rng, len(rows), K2, cplx)
    return B


def rand_bsr_pattern(rng, nbr, ncb, dens=None, need_nonempty=False):
    """sorted block pattern as (indptr, indices) int32"""
    dens = dens if dens is not None else float(rng.choice([0.3, 0.6, 0.9]))
    ip, ix = [0], []
    for i in range(nbr):
        cols = [j for j in range(ncb) if rng.random() < dens]
        if need_nonempty and not cols:
            cols = [int(rng.integers(ncb))]
        ix += cols
        ip.append(len(ix))
    return i32(ip), i32(ix)


def rand_small(rng, shape, cplx, lo=-3, hi=4, den=1):
    v = rng.integers(lo, hi, size=shape).astype(float) / den
    if cplx:
        v = v + 1j * rng.integers(lo, hi, size=shape).astype(float) / den
    return v.astype(complex if cplx else float)


def enc_vals(v, mode):
    v = np.asarray(v).ravel()
    if mode == 'f':
        return enc_fbits(v)
    if mode == 'cf':
        return enc_cfbits(v)
    if mode == 'r':
        return enc_rats(v)
    return enc_crats(v)


# ------------------------------------------------------------------------------------------------
# independent oracles of the property (dense NumPy, no pyamg code)
# ------------------------------------------------------------------------------------------------

def fit_property_failures(ctx, agg, nc, K1, K2, B, T, R, eps=1e-8):
    """clauses of the property for a tentative prolongator T (dense) with coarse candidates R"""
    nf = len(agg)
    bad = []
    T = np.asarray(T)
    R = np.asarray(R)
    B = np.asarray(B)
    if T.shape != (nf * K1, nc * K2) or R.shape != (nc * K2, K2):
        return [f'shapes: T {T.shape} (expected {(nf * K1, nc * K2)}), R {R.shape} (expected {(nc * K2, K2)})']
    if not (np.all(np.isfinite(T)) and np.all(np.isfinite(R))):
        return ['non-finite entries in T or R']
    scale = float(np.abs(B).max(initial=0.0)) or 1.0
    allowed = np.zeros(T.shape, dtype=bool)
    for i in range(nf):
        if agg[i] >= 0:
            allowed[i * K1:(i + 1) * K1, agg[i] * K2:(agg[i] + 1) * K2] = True
    if np.any((T != 0) & ~allowed):
        i, j = np.argwhere((T != 0) & ~allowed)[0]
        bad.append(f'T[{i},{j}] = {T[i, j]} lies outside AggOp (x) block (unaggregated row or foreign aggregate)')
    G = T.conj().T @ T
    dg = np.real(np.diag(G)).copy()
    off = G - np.diag(np.diag(G))
    # modified Gram-Schmidt loses orthogonality in proportion to the condition number of the local block
    kappa = 1.0
    for j in range(nc):
        r = [i * K1 + k for i in range(nf) if agg[i] == j for k in range(K1)]
        if r:
            sv = np.linalg.svd(B[r], compute_uv=False)
            sv = sv[sv > 1e-5 * sv.max(initial=0.0)] if sv.size and sv.max() > 0 else sv[:0]
            if sv.size:
                kappa = max(kappa, float(sv.max() / sv.min()))
    otol = max(eps, 100 * (1.2e-7 if eps > 1e-6 else 2.3e-16) * kappa)
    if off.size and np.abs(off).max() > otol:
        i, j = np.unravel_index(np.abs(off).argmax(), off.shape)
        bad.append(f'columns {i} and {j} of T are not orthogonal: (T^H T)[{i},{j}] = {G[i, j]}')
    for k, d in enumerate(dg):
        if not (abs(d - 1) <= otol or d == 0):
            bad.append(f'column {k} of T has squared norm {d} (neither 1 nor 0)')
            break
    rows = [i * K1 + k for i in range(nf) if agg[i] >= 0 for k in range(K1)]
    if rows:
        E = (T @ R - B)[rows]
        if np.abs(E).max() > eps * scale:
            i, j = np.unravel_index(np.abs(E).argmax(), E.shape)
            bad.append(f'T B_c != B on the aggregated unknown {rows[i]}, candidate {j}: error {abs(E[i, j]):.3e}')
    # zero columns exactly where the candidates are locally rank deficient
    for j in range(nc):
        r = [i * K1 + k for i in range(nf) if agg[i] == j for k in range(K1)]
        nz = int(np.sum(dg[j * K2:(j + 1) * K2] != 0))
        if not r:
            rank = 0
        else:
            s = np.linalg.svd(B[r], compute_uv=False)
            smax = s.max(initial=0.0)
            if smax == 0:
                rank = 0
            else:
                if np.any((s > 1e-12 * smax) & (s < 1e-5 * smax)):
                    ctx.near_skipped += 1
                    continue
                rank = int(np.sum(s >= 1e-5 * smax))
        if nz != rank:
            bad.append(f'aggregate {j}: {nz} non-zero columns of T but the local candidate block has rank {rank}')
            break
    return bad


def dense_T_from_qx(agg_csc_p, agg_csc_i, nf, nc, K1, K2, Qx):
    Qx = np.asarray(Qx).reshape(-1, K1, K2)
    T = np.zeros((nf * K1, nc * K2), dtype=Qx.dtype)
    for j in range(nc):
        for ii in range(agg_csc_p[j], agg_csc_p[j + 1]):
            i = agg_csc_i[ii]
            T[i * K1:(i + 1) * K1, j * K2:(j + 1) * K2] = Qx[ii]
    return T


def bsr_blocks_dense(sp_, sj, sx, nbr, ncb, rpb, cpb):
    sx = np.asarray(sx).reshape(-1, rpb, cpb)
    M = np.zeros((nbr * rpb, ncb * cpb), dtype=sx.dtype)
    for i in range(nbr):
        for jj in range(sp_[i], sp_[i + 1]):
            M[i * rpb:(i + 1) * rpb, sj[jj] * cpb:(sj[jj] + 1) * cpb] = sx[jj]
    return M


def pattern_mask(sp_, sj, nbr, ncb, rpb, cpb):
    M = np.zeros((nbr * rpb, ncb * cpb), dtype=bool)
    for i in range(nbr):
        for jj in range(sp_[i], sp_[i + 1]):
            M[i * rpb:(i + 1) * rpb, sj[jj] * cpb:(sj[jj] + 1) * cpb] = True
    return M


# ------------------------------------------------------------------------------------------------
# part A: raw kernels vs the Lean models
# ------------------------------------------------------------------------------------------------

def fit_case(rng, t):
    cplx = t % 3 == 2
    kind = ['generic', 'square', 'deficient', 'square'][t % 4]
    nf = int(rng.integers(1, 9))
    K1 = int(rng.choice([1, 1, 2, 3]))
    K2 = int(rng.choice([1, 2, 3]))
    agg, nc = rand_partition(rng, nf, allow_empty=(t % 7 == 0))
    B = rand_candidates(rng, agg, nc, K1, K2, cplx, kind)
    return {'nf': nf, 'nc': nc, 'K1': K1, 'K2': K2, 'agg': [int(a) for a in agg], 'complex': cplx, 'kind': kind, 'B': cj(B)}, B, agg


def fit_mode(case):
    """scalar mode of the model: exact rationals where the arithmetic is exact, else binary64 replay"""
    if case['kind'] != 'square':
        return 'cf' if case['complex'] else 'f'
    return 'c' if case['complex'] else 'r'


def fit_nontrivial(case):
    a = [x for x in case['agg'] if x >= 0]
    return any(a.count(j) * case['K1'] >= 2 for j in set(a))


def item_fit_kernel(ctx, rng, t):
    from pyamg import amg_core
    case, B, agg = fit_case(rng, t)
    nf, nc, K1, K2, cplx = case['nf'], case['nc'], case['K1'], case['K2'], case['complex']
    A = aggop_of(agg, nc).tocsc()
    ap, ai = i32(A.indptr), i32(A.indices)
    dt = complex if cplx else float
    Qx = np.full(len(ai) * K1 * K2, 7.5, dtype=dt)      # the wrapper passes np.empty: any content
    R = np.full(nc * K2 * K2, -3.25, dtype=dt)
    amg_core.fit_candidates(nf, nc, K1, K2, ap, ai, Qx, np.ascontiguousarray(B.ravel(), dtype=dt), R, TOL)
    mode = fit_mode(case)
    tolenc = str(fbits(TOL)) if mode in ('f', 'cf') else enc_rat(TOL)
    line = f'c10_fitk {mode} {nc} {K1} {K2} {enc_ints(ap)} {enc_ints(ai)} {enc_vals(B, mode)} {tolenc}'
    case = dict(case, op='fit_kernel')

    def judge(reply):
        ctx.feat('fitk:' + case['kind'] + (':complex' if cplx else ':real'))
        parts = reply.split(';')
        if len(parts) != 3:
            ctx.corr('fit_candidates kernel', case, reply, 'n/a', 'driver rejected the request')
            return
        if parts[2] != 'exact':
            # not a perfect-square instance after all: replay in binary64 is done by the generic cases
            ctx.feat('fitk:inexact-sqrt-skipped')
            return
        vq, fq = dec_vals(parts[0], mode)
        vr, fr = dec_vals(parts[1], mode)
        ex = same_exact(vq, Qx, mode) and same_exact(vr, R, mode)
        if ex:
            ctx.feat('bit_exact')
        ok = ex or (close(fq, Qx, 1e-12) and close(fr, R, 1e-12))
        if not ok:
            ctx.corr('fit_candidates kernel', case, reply[:400], {'Qx': cj(Qx)[:12], 'R': cj(R)[:12]})
            bad = fit_property_failures(ctx, agg, nc, K1, K2, B, dense_T_from_qx(ap, ai, nf, nc, K1, K2, Qx), R.reshape(nc * K2, K2))
            if bad:
                ctx.violation('fit_candidates kernel: ' + bad[0], case)
    return {'line': line, 'judge': judge, 'key': _key('fitk', line), 'nontrivial': fit_nontrivial(case),
            'sample': {'op': 'fit_candidates kernel', 'nf': nf, 'nc': nc, 'K1': K1, 'K2': K2, 'kind': case['kind'], 'complex': cplx}}


def sat_inputs(rng, cplx):
    rpb, cpb = int(rng.choice([1, 1, 2, 3])), int(rng.choice([1, 1, 2, 3]))
    nbr, ncb = int(rng.integers(1, 5)), int(rng.integers(1, 5))
    nd = int(rng.choice([1, 2, 3]))
    sp_, sj = rand_bsr_pattern(rng, nbr, ncb)
    sx = rand_small(rng, len(sj) * rpb * cpb, cplx)
    B = rand_small(rng, (ncb * cpb, nd), cplx)
    return rpb, cpb, nbr, ncb, nd, sp_, sj, sx, B


def judge_projection_property(ctx, case, what):
    """the projection kernel disagrees with its model: does smooth.satisfy_constraints still give
    U B = 0 on a genuine input with this pattern?"""
    from pyamg.aggregation.smooth import satisfy_constraints
    from pyamg.util.utils import compute_BtBinv
    cplx = case['complex']
    rpb, cpb, nbr, ncb, nd = case['rpb'], case['cpb'], case['nbr'], case['ncb'], case['nd']
    sp_, sj = i32(case['sp']), i32(case['sj'])
    B = uncj(case['B'], cplx).reshape(ncb * cpb, nd)
    sx = uncj(case['sx'], cplx).reshape(-1, rpb, cpb)
    if len(sj) == 0:
        return
    U = sp.bsr_array((sx.copy(), sj.copy(), sp_.copy()), shape=(nbr * rpb, ncb * cpb))
    ok_rows = well_posed_rows(B, sp_, sj, nbr, cpb)
    Z = compute_BtBinv(B, U)
    satisfy_constraints(U, B, Z)
    E = np.abs(U @ B)
    rows = [i * rpb + a for i in range(nbr) if ok_rows[i] for a in range(rpb)]
    if rows and E[rows].max() > 1e-8 * (1 + np.abs(sx).max(initial=0) * np.abs(B).max(initial=0)):
        ctx.violation(f'{what}: satisfy_constraints leaves (U B) != 0 (max {E[rows].max():.3e}) on rows with an invertible local Gram matrix',
                      dict(case, op='satisfy_constraints'))


def well_posed_rows(B, sp_, sj, nbr, cpb, cond=1e6):
    """block rows whose local Gram matrix B_J^H B_J is safely invertible"""
    out = []
    for i in range(nbr):
        J = [int(c) * cpb + s for c in sj[sp_[i]:sp_[i + 1]] for s in range(cpb)]
        if not J:
            out.append(True)       # nothing stored: nothing to project
            continue
        s = np.linalg.svd(B[J], compute_uv=False)
        out.append(len(s) >= B.shape[1] and s.min() > 0 and s.max() / s.min() < cond)
    return out


def item_sat_kernel(ctx, rng, t):
    from pyamg import amg_core
    cplx = t % 3 == 2
    rpb, cpb, nbr, ncb, nd, sp_, sj, sx, B = sat_inputs(rng, cplx)
    dt = complex if cplx else float
    Bt = np.conjugate(B.ravel())
    UB = rand_small(rng, nbr * rpb * nd, cplx)
    Z = rand_small(rng, nbr * nd * nd, cplx, den=2)
    out = sx.copy()
    amg_core.satisfy_constraints_helper(rpb, cpb, nbr, nd, np.ascontiguousarray(Bt, dtype=dt), UB, Z, sp_, sj, out)
    mode = 'c' if cplx else 'r'
    line = (f'c10_sat {mode} {rpb} {cpb} {nbr} {nd} {enc_vals(Bt, mode)} {enc_vals(UB, mode)} {enc_vals(Z, mode)} '
            f'{enc_ints(sp_)} {enc_ints(sj)} {enc_vals(sx, mode)}')
    case = {'op': 'satisfy_constraints_helper', 'complex': cplx, 'rpb': rpb, 'cpb': cpb, 'nbr': nbr, 'ncb': ncb, 'nd': nd,
            'sp': sp_.tolist(), 'sj': sj.tolist(), 'sx': cj(sx), 'B': cj(B), 'UB': cj(UB), 'BtBinv': cj(Z)}
    twin = not cplx
    if twin:
        line = [line, (f'c10_p_proj {rpb} {cpb} {nbr} {ncb} {nd} {enc_vals(Bt, mode)} {enc_vals(UB, mode)} {enc_vals(Z, mode)} '
                       f'{enc_ints(sp_)} {enc_ints(sj)} {enc_vals(sx, mode)}')]

    def judge(reply):
        ctx.feat('satk:' + ('complex' if cplx else 'real'))
        if twin:
            reply, reply2 = reply
            ctx.feat('satk:proof-side-twin')
            got = bsr_blocks_dense(sp_, sj, out, nbr, ncb, rpb, cpb)
            if reply2 == 'bad-op' or not same_exact(dec_vals(reply2, 'r')[0], got, 'r'):
                ctx.corr('satisfy_constraints_helper (proof-side project)', case, reply2[:400], cj(got)[:16])
        if reply in ('bad-op',):
            ctx.corr('satisfy_constraints_helper', case, reply, 'n/a', 'driver rejected the request')
            return
        v, f = dec_vals(reply, mode)
        if same_exact(v, out, mode):
            ctx.feat('bit_exact')
        elif not close(f, out, 1e-12):
            ctx.corr('satisfy_constraints_helper', case, reply[:400], cj(out)[:16])
            judge_projection_property(ctx, case, 'satisfy_constraints_helper differs from its model')
    return {'line': line, 'judge': judge, 'key': _key('satk', str(line)), 'nontrivial': len(sj) > 0 and (ncb > 1 or cpb > 1),
            'sample': {'op': 'satisfy_constraints_helper', 'rpb': rpb, 'cpb': cpb, 'nbr': nbr, 'nd': nd, 'complex': cplx}}


def item_btb_kernel(ctx, rng, t):
    from pyamg import amg_core
    cplx = t % 2 == 1
    nd = int(rng.choice([1, 2, 3]))
    cpb = int(rng.choice([1, 2]))
    nn, ncb = int(rng.integers(1, 5)), int(rng.integers(1, 5))
    sp_, sj = rand_bsr_pattern(rng, nn, ncb)
    bc = nd * (nd + 1) // 2
    dt = complex if cplx else float
    B = rand_small(rng, (ncb * cpb, nd), cplx)
    Bsq = np.zeros((ncb * cpb, bc), dtype=dt)
    c = 0
    for i in range(nd):
        for j in range(i, nd):
            Bsq[:, c] = np.conjugate(B[:, i]) * B[:, j]
            c += 1
    x = np.zeros(nn * nd * nd, dtype=dt)
    amg_core.calc_BtB(nd, nn, cpb, np.ascontiguousarray(Bsq.ravel()), bc, x, sp_, sj)
    mode = 'c' if cplx else 'r'
    line = f'c10_btb {mode} {nd} {nn} {cpb} {enc_vals(Bsq, mode)} {bc} {enc_ints(sp_)} {enc_ints(sj)}'
    case = {'op': 'calc_BtB', 'complex': cplx, 'nd': nd, 'cpb': cpb, 'nn': nn, 'ncb': ncb, 'sp': sp_.tolist(), 'sj': sj.tolist(), 'B': cj(B)}

    def judge(reply):
        ctx.feat('btbk:' + ('complex' if cplx else 'real'))
        v, f = dec_vals(reply, mode) if reply != 'bad-op' else ([], np.zeros(0))
        if same_exact(v, x, mode):
            ctx.feat('bit_exact')
        elif not close(f, x, 1e-12):
            ctx.corr('calc_BtB', case, reply[:400], cj(x)[:16])
            # property-level judgement: the local Gram matrices are what the projection needs
            for i in range(nn):
                J = [int(cb) * cpb + s for cb in sj[sp_[i]:sp_[i + 1]] for s in range(cpb)]
                G = B[J].conj().T @ B[J] if J else np.zeros((nd, nd))
                got = x[i * nd * nd:(i + 1) * nd * nd].reshape(nd, nd).T      # column major
                if not np.allclose(got, G, atol=1e-9):
                    ctx.violation(f'calc_BtB: node {i}: local B_J^H B_J is {G.tolist()} but the kernel returned {got.tolist()}', case)
                    break
    return {'line': line, 'judge': judge, 'key': _key('btbk', line), 'nontrivial': len(sj) > 0,
            'sample': None}


def item_imm_kernel(ctx, rng, t):
    from pyamg import amg_core
    cplx = t % 3 == 1
    ra, ca, cb = (1, 1, 1) if t % 2 == 0 else (int(rng.choice([1, 2, 3])), int(rng.choice([1, 2])), int(rng.choice([1, 2, 3])))
    nbr, nk, nbc = int(rng.integers(1, 5)), int(rng.integers(1, 5)), int(rng.integers(1, 5))
    ap, aj = rand_bsr_pattern(rng, nbr, nk)
    bp, bj = rand_bsr_pattern(rng, nk, nbc)
    sp_, sj = rand_bsr_pattern(rng, nbr, nbc)
    ax = rand_small(rng, len(aj) * ra * ca, cplx)
    bx = rand_small(rng, len(bj) * ca * cb, cplx)
    sx = rand_small(rng, len(sj) * ra * cb, cplx) if t % 4 == 3 else np.zeros(len(sj) * ra * cb, dtype=complex if cplx else float)
    out = sx.copy()
    amg_core.incomplete_mat_mult_bsr(ap, aj, ax, bp, bj, bx, sp_, sj, out, nbr, nbc, ra, ca, cb)
    mode = 'c' if cplx else 'r'
    line = (f'c10_imm {mode} {enc_ints(ap)} {enc_ints(aj)} {enc_vals(ax, mode)} {enc_ints(bp)} {enc_ints(bj)} {enc_vals(bx, mode)} '
            f'{enc_ints(sp_)} {enc_ints(sj)} {enc_vals(sx, mode)} {nbr} {nbc} {ra} {ca} {cb}')
    case = {'op': 'incomplete_mat_mult_bsr', 'complex': cplx, 'dims': [nbr, nk, nbc, ra, ca, cb], 'ap': ap.tolist(), 'aj': aj.tolist(),
            'ax': cj(ax), 'bp': bp.tolist(), 'bj': bj.tolist(), 'bx': cj(bx), 'sp': sp_.tolist(), 'sj': sj.tolist(), 'sx': cj(sx)}

    def judge(reply):
        ctx.feat('immk:' + ('1x1' if (ra, ca, cb) == (1, 1, 1) else 'blocks'))
        v, f = dec_vals(reply, mode) if reply != 'bad-op' else ([], np.zeros(0))
        if same_exact(v, out, mode):
            ctx.feat('bit_exact')
        elif not close(f, out, 1e-12):
            ctx.corr('incomplete_mat_mult_bsr', case, reply[:400], cj(out)[:16])
            # the product restricted to the pattern is what the energy smoothers rely on
            Ad = bsr_blocks_dense(ap, aj, ax, nbr, nk, ra, ca)
            Bd = bsr_blocks_dense(bp, bj, bx, nk, nbc, ca, cb)
            Sd = bsr_blocks_dense(sp_, sj, sx, nbr, nbc, ra, cb)
            ref = (Sd + Ad @ Bd) * pattern_mask(sp_, sj, nbr, nbc, ra, cb)
            got = bsr_blocks_dense(sp_, sj, out, nbr, nbc, ra, cb)
            if not np.allclose(got, ref, atol=1e-9):
                ctx.violation('incomplete_mat_mult_bsr does not accumulate A*B on the stored blocks of S: expected '
                              f'{ref.tolist()} got {got.tolist()}', case)
    return {'line': line, 'judge': judge, 'key': _key('immk', line), 'nontrivial': len(sj) > 0 and len(aj) > 0 and len(bj) > 0,
            'sample': None}


# ------------------------------------------------------------------------------------------------
# part B: public functions vs the Lean models (and always the property oracle on the real output)
# ------------------------------------------------------------------------------------------------

def bsr_pattern_is(T, agg, nc, K1, K2):
    """stored blocks of the BSR matrix T are exactly the entries of AggOp"""
    if T.format != 'bsr' or tuple(T.blocksize) != (K1, K2):
        return f'format {T.format} blocksize {getattr(T, "blocksize", None)} (expected bsr {(K1, K2)})'
    want = [[int(agg[i])] if agg[i] >= 0 else [] for i in range(len(agg))]
    got = [sorted(int(c) for c in T.indices[T.indptr[i]:T.indptr[i + 1]]) for i in range(len(agg))]
    if want != got:
        return f'stored blocks per row {got} differ from AggOp {want}'
    return None


def item_fit_py(ctx, rng, t):
    from pyamg.aggregation.tentative import fit_candidates
    case, B, agg = fit_case(rng, t)
    nf, nc, K1, K2, cplx = case['nf'], case['nc'], case['K1'], case['K2'], case['complex']
    if case['kind'] != 'square' and t % 5 == 0:
        sc = float(2.0 ** int(rng.choice([-60, -30, 20, 40])))
        B = B * sc
        case['B'] = cj(B)
        case['scaled'] = sc
    tol = TOL
    if case['kind'] == 'square' and t % 6 == 1:
        tol = float(rng.choice([0.5, 1.0]))
    case['tol'] = tol
    AggOp = aggop_of(agg, nc, dtype=[np.int8, float, bool][t % 3])
    Bin = B.copy()
    T, R = fit_candidates(AggOp, Bin) if tol == TOL else fit_candidates(AggOp, Bin, tol=tol)
    case = dict(case, op='fit_candidates')
    mode = fit_mode(case)
    tolenc = str(fbits(tol)) if mode in ('f', 'cf') else enc_rat(tol)
    line = f'c10_fitpy {mode} {nf} {nc} {K1} {K2} {enc_ints(AggOp.indptr)} {enc_ints(AggOp.indices)} {enc_vals(B, mode)} {tolenc}'
    Td = T.toarray() if sp.issparse(T) else np.asarray(T)
    twin = mode in ('r', 'c')
    if twin:
        pop = 'c10_p_fit' if mode == 'r' else 'ext_c10b_p_cfit'      # GS.mgs / CGS.cmgs per aggregate (proof-side definitions)
        line = [line, f'{pop} {nf} {nc} {K1} {K2} {enc_ints(AggOp.indptr)} {enc_ints(AggOp.indices)} {enc_vals(B, mode)} {tolenc}']
    # ---- search: the property on the real output (independent of the model)
    if not np.array_equal(Bin, B):
        ctx.violation('fit_candidates modified its argument B', case)
    if tol == TOL:
        bad = fit_property_failures(ctx, agg, nc, K1, K2, B, Td, R)
        pb = bsr_pattern_is(T, agg, nc, K1, K2) if sp.issparse(T) else 'T is not sparse'
        if pb:
            bad.append('pattern(T) != AggOp (x) block: ' + pb)
        if bad:
            ctx.violation('fit_candidates: ' + bad[0], case)

    def judge(reply):
        ctx.feat('fitpy:' + case['kind'] + (':complex' if cplx else ':real'))
        reply2 = None
        if twin:
            reply, reply2 = reply
        parts = reply.split(';')
        if len(parts) != 3:
            ctx.corr('fit_candidates', case, reply, 'n/a', 'driver rejected the request')
            return
        if parts[2] != 'exact':
            ctx.feat('fitpy:inexact-sqrt-skipped')
            return
        vq, fq = dec_vals(parts[0], mode)
        vr, fr = dec_vals(parts[1], mode)
        ex = same_exact(vq, Td, mode) and same_exact(vr, R, mode)
        if ex:
            ctx.feat('bit_exact')
        if not (ex or (close(fq, Td, 1e-12) and close(fr, R, 1e-12))):
            ctx.corr('fit_candidates', case, reply[:400], {'T': cj(Td)[:16], 'R': cj(R)[:12]})
        if reply2 is not None:
            # the definition the theorems of Props/C10.lean are about (GS.mgs per aggregate, masked candidates)
            p2 = reply2.split(';')
            ctx.feat('fitpy:proof-side-twin' + (':complex' if mode == 'c' else ''))
            if len(p2) != 3 or not (same_exact(dec_vals(p2[0], mode)[0], Td, mode) and same_exact(dec_vals(p2[1], mode)[0], R, mode)):
                ctx.corr('fit_candidates (proof-side fitAgg)', case, reply2[:400], {'T': cj(Td)[:16], 'R': cj(R)[:12]})
    return {'line': line, 'judge': judge, 'key': _key('fitpy', str(line)), 'nontrivial': fit_nontrivial(case),
            'sample': {'op': 'fit_candidates', 'nf': nf, 'nc': nc, 'K1': K1, 'K2': K2, 'kind': case['kind'], 'complex': cplx}}


def fit_float32_case(ctx, rng, t, fixed=None):
    """single precision candidates: property oracle only (`fixed` = a case of the fixed corpus instead of a random one)"""
    from pyamg.aggregation.tentative import fit_candidates
    if fixed is not None:
        cplx, K1, K2, agg, nc, B = fixed
        nf = len(agg)
    else:
        cplx = t % 2 == 1
        nf = int(rng.integers(2, 9))
        K1, K2 = int(rng.choice([1, 2])), int(rng.choice([1, 2]))
        agg, nc = rand_partition(rng, nf)
        B = rand_candidates(rng, agg, nc, K1, K2, cplx, 'generic').astype(np.complex64 if cplx else np.float32)
    T, R = fit_candidates(aggop_of(agg, nc), B)
    case = {'op': 'fit_candidates', 'nf': nf, 'nc': nc, 'K1': K1, 'K2': K2, 'agg': [int(a) for a in agg], 'complex': cplx, 'kind': 'float32',
            'B': cj(B.astype(complex if cplx else float)), 'dtype': str(B.dtype)}
    ctx.case(key=_key('fit32', case['agg'], case['B']), nontrivial=fit_nontrivial(case))
    ctx.feat('fit:float32')
    if T.dtype != B.dtype or R.dtype != B.dtype:
        ctx.violation(f'fit_candidates changed the precision: T {T.dtype}, B_c {R.dtype} for B {B.dtype}', case)
        return
    bad = fit_property_failures(ctx, agg, nc, K1, K2, B.astype(complex if cplx else float), T.toarray().astype(complex if cplx else float),
                                R.astype(complex if cplx else float), eps=1e-4)
    if bad:
        # single precision + a locally rank-deficient candidate block: the remainder of a dependent column is ~1e-7 of its
        # norm, far above the default drop tolerance 1e-10 (chosen for double precision), so the column is kept
        deficient = False
        for j in range(nc):
            r = [i * K1 + k for i in range(nf) if agg[i] == j for k in range(K1)]
            if r and np.linalg.matrix_rank(B[r].astype(complex if cplx else float), tol=1e-4 * max(np.abs(B[r]).max(), 1e-30)) < K2:
                deficient = True
        fk = 'fit-single-precision-rank-deficient' if deficient and ('orthogonal' in bad[0] or 'squared norm' in bad[0] or 'non-zero columns' in bad[0]) else None
        ctx.violation('fit_candidates (single precision): ' + bad[0], case, fkey=fk)


def replay_fit(ctx, case):
    from pyamg.aggregation.tentative import fit_candidates
    cplx = case['complex']
    agg = np.array(case['agg'])
    nc, K1, K2 = case['nc'], case['K1'], case['K2']
    B = uncj(case['B'], cplx).reshape(len(agg) * K1, K2)
    eps = 1e-8
    if case.get('dtype'):
        B = B.astype(case['dtype'])
        eps = 1e-4
    T, R = fit_candidates(aggop_of(agg, nc), B, tol=case.get('tol', TOL))
    bad = fit_property_failures(ctx, agg, nc, K1, K2, B, T.toarray(), R, eps=eps)
    pb = bsr_pattern_is(T, agg, nc, K1, K2)
    if pb:
        bad.append('pattern(T) != AggOp (x) block: ' + pb)
    print('T =', np.round(T.toarray(), 6).tolist())
    print('B_c =', np.round(R, 6).tolist())
    if bad:
        ctx.violation('fit_candidates: ' + bad[0], case)


def item_sat_py(ctx, rng, t):
    from pyamg.aggregation.smooth import satisfy_constraints
    cplx = t % 3 == 2
    rpb, cpb, nbr, ncb, nd, sp_, sj, sx, B = sat_inputs(rng, cplx)
    if len(sj) == 0:
        return None
    Z = rand_small(rng, (nbr, nd, nd), cplx, den=2)
    U = sp.bsr_array((sx.reshape(-1, rpb, cpb).copy(), sj.copy(), sp_.copy()), shape=(nbr * rpb, ncb * cpb))
    satisfy_constraints(U, B, Z)
    out = np.asarray(U.data).ravel()
    mode = 'c' if cplx else 'r'
    line = (f'c10_satpy {mode} {rpb} {cpb} {nbr} {ncb} {nd} {enc_ints(sp_)} {enc_ints(sj)} {enc_vals(sx, mode)} '
            f'{enc_vals(B, mode)} {enc_vals(Z, mode)}')
    case = {'op': 'satisfy_constraints', 'complex': cplx, 'rpb': rpb, 'cpb': cpb, 'nbr': nbr, 'ncb': ncb, 'nd': nd,
            'sp': sp_.tolist(), 'sj': sj.tolist(), 'sx': cj(sx), 'B': cj(B), 'BtBinv': cj(Z)}
    pat_ok = np.array_equal(U.indptr, sp_) and np.array_equal(U.indices, sj)
    if not pat_ok:
        ctx.violation('satisfy_constraints changed the sparsity pattern of the update', case)

    def judge(reply):
        ctx.feat('satpy:' + ('complex' if cplx else 'real'))
        v, f = dec_vals(reply, mode) if reply != 'bad-op' else ([], np.zeros(0))
        if same_exact(v, out, mode):
            ctx.feat('bit_exact')
        elif not close(f, out, 1e-12):
            ctx.corr('satisfy_constraints', case, reply[:400], cj(out)[:16])
            judge_projection_property(ctx, case, 'satisfy_constraints differs from its model')
    return {'line': line, 'judge': judge, 'key': _key('satpy', line), 'nontrivial': ncb > 1 or cpb > 1, 'sample': None}


def pat_enc(sp_, sj, nbr):
    return ';'.join(enc_ints(sorted(int(c) for c in sj[sp_[i]:sp_[i + 1]])) for i in range(nbr)) if nbr else 'none'


def rows_status(B, sp_, sj, nbr, cpb):
    """per block row: 'ok' (local Gram matrix safely invertible), 'deficient' (exactly rank deficient
    with a clear gap), 'empty', or 'ambiguous'"""
    out = []
    for i in range(nbr):
        J = [int(c) * cpb + s for c in sj[sp_[i]:sp_[i + 1]] for s in range(cpb)]
        if not J:
            out.append('empty')
            continue
        s = np.linalg.svd(B[J], compute_uv=False)
        s = np.concatenate([s, np.zeros(max(0, B.shape[1] - len(s)))])
        smax = s.max()
        if smax == 0:
            out.append('deficient')
        elif s.min() > 1e-2 * smax:
            out.append('ok')
        elif np.all((s > 1e-2 * smax) | (s < 1e-9 * smax)):
            out.append('deficient')
        else:
            out.append('ambiguous')
    return out


def item_filter(ctx, rng, t):
    from pyamg.util.utils import filter_operator, compute_BtBinv
    cplx = t % 4 == 3
    rpb, cpb = (1, 1) if t % 2 == 0 else (int(rng.choice([1, 2, 3])), int(rng.choice([1, 2])))
    nbr, ncb = int(rng.integers(1, 5)), int(rng.integers(1, 5))
    nd = int(rng.choice([1, 2])) if cpb * ncb >= 2 else 1
    cp, cjx = rand_bsr_pattern(rng, nbr, ncb, need_nonempty=(t % 5 != 0))
    ap, aj = rand_bsr_pattern(rng, nbr, ncb)
    dt = complex if cplx else float
    ax = rand_small(rng, (len(aj), rpb, cpb), cplx)
    ax[ax == 0] = 1
    B = rand_small(rng, (ncb * cpb, nd), cplx)
    Bf = rand_small(rng, (nbr * rpb, nd), cplx)
    shape = (nbr * rpb, ncb * cpb)
    if (rpb, cpb) == (1, 1) and t % 4 == 0:
        A = sp.csr_array((ax.ravel().copy(), aj.copy(), ap.copy()), shape=shape)
        C = sp.csr_array((np.ones(len(cjx), dtype=dt), cjx.copy(), cp.copy()), shape=shape)
    else:
        A = sp.bsr_array((ax.copy(), aj.copy(), ap.copy()), shape=shape, blocksize=(rpb, cpb))
        C = sp.bsr_array((np.full((len(cjx), rpb, cpb), 2.0, dtype=dt), cjx.copy(), cp.copy()), shape=shape, blocksize=(rpb, cpb))
    Ad = A.toarray()
    case = {'op': 'filter_operator', 'complex': cplx, 'rpb': rpb, 'cpb': cpb, 'nbr': nbr, 'ncb': ncb, 'nd': nd, 'fmt': A.format,
            'ap': ap.tolist(), 'aj': aj.tolist(), 'ax': cj(ax), 'cp': cp.tolist(), 'cj': cjx.tolist(), 'B': cj(B), 'Bf': cj(Bf),
            'given_BtBinv': bool(t % 3 == 1)}
    try:
        Z = compute_BtBinv(B, C) if case['given_BtBinv'] else None
        F = filter_operator(A, C, B, Bf, BtBinv=Z)
    except Exception as e:       # noqa: BLE001 - any exception on a valid input is a finding
        ctx.violation(f'filter_operator raised {type(e).__name__}: {e}', case)
        return None
    Fd = F.toarray()
    # ---- search: pattern containment and row-wise reproduction of Bf
    mask = pattern_mask(cp, cjx, nbr, ncb, rpb, cpb)
    if np.any((Fd != 0) & ~mask):
        ctx.violation('filter_operator: entries outside the pattern of C', case)
    st = rows_status(B, cp, cjx, nbr, cpb)
    E = np.abs(Fd @ B - Bf)
    scale = 1 + np.abs(Ad).max(initial=0) * np.abs(B).max(initial=0) + np.abs(Bf).max(initial=0)
    for i in range(nbr):
        if st[i] == 'ok' and E[i * rpb:(i + 1) * rpb].max(initial=0) > 1e-8 * scale:
            ctx.violation(f'filter_operator: row block {i} supports the constraints but (A B - Bf) = {E[i * rpb:(i + 1) * rpb].max():.3e}', case)
            break
    mode = 'c' if cplx else 'r'
    line = (f'c10_filter {mode} {rpb} {cpb} {nd} {pat_enc(cp, cjx, nbr)} {nbr * rpb} {ncb * cpb} {enc_vals(Ad, mode)} '
            f'{enc_vals(B, mode)} {enc_vals(Bf, mode)}')

    def judge(reply):
        ctx.feat('filter:' + A.format + (':complex' if cplx else ':real'))
        if reply == 'singular':
            ctx.feat('filter:singular-local-gram-skipped')
            return
        if any(x != 'ok' and x != 'empty' for x in st):
            ctx.feat('filter:ill-conditioned-skipped')
            return
        v, f = dec_vals(reply, mode) if reply != 'bad-op' else ([], np.zeros(0))
        if not close(f, Fd, 1e-9):
            ctx.corr('filter_operator', case, reply[:400], cj(Fd)[:16])
    return {'line': line, 'judge': judge, 'key': _key('filter', line), 'nontrivial': len(cjx) > 0 and (ncb > 1 or cpb > 1), 'sample': None}


def root_setup(rng, nf, bs, cplx, kind='generic'):
    """aggregation where every aggregate has a root node, candidates with bs columns"""
    agg, nc = rand_partition(rng, nf, allow_empty=False)
    if not any(a >= 0 for a in agg):
        agg[0] = 0
        nc = 1
    roots = np.array([int(rng.choice([i for i in range(nf) if agg[i] == j])) for j in range(nc)], dtype=np.int32)
    B = rand_candidates(rng, agg, nc, bs, bs, cplx, kind)
    return agg, nc, roots, B


def identity_like(n, bs, dt=float):
    if bs == 1:
        return gen.int32csr(sp.eye_array(n, format='csr', dtype=dt))
    A = sp.eye_array(n, format='csr', dtype=dt).tobsr(blocksize=(bs, bs))
    A.indptr = A.indptr.astype(np.int32)
    A.indices = A.indices.astype(np.int32)
    return A


def rootnode_failures(P, Cpts, what):
    """identity rows at the root dofs"""
    Pd = P.toarray() if sp.issparse(P) else np.asarray(P)
    for k, c in enumerate(Cpts):
        e = np.zeros(Pd.shape[1], dtype=Pd.dtype)
        e[k] = 1
        if not np.array_equal(Pd[c], e):
            return f'{what}: row {int(c)} (root dof of coarse unknown {k}) is {Pd[c].tolist()}, not the identity row'
    return None


def item_scale_T(ctx, rng, t):
    from pyamg.aggregation.tentative import fit_candidates
    from pyamg.util.utils import scale_T, get_Cpt_params
    bs = int(rng.choice([1, 1, 2, 3]))
    nf = int(rng.integers(1, 8))
    kind = 'deficient' if t % 5 == 4 else 'generic'
    agg, nc, roots, B = root_setup(rng, nf, bs, False, kind)
    AggOp = aggop_of(agg, nc)
    T, _ = fit_candidates(AggOp, B)
    if not np.all(np.isfinite(T.data)):
        ctx.violation('fit_candidates returned non-finite entries', {'op': 'fit_candidates', 'nf': nf, 'nc': nc, 'K1': bs, 'K2': bs,
                                                                    'agg': [int(a) for a in agg], 'complex': False, 'kind': kind, 'B': cj(B)})
        return None
    params = get_Cpt_params(identity_like(nf * bs, bs), roots, AggOp, T)
    Tin = T.copy()
    Ts = scale_T(T, params['P_I'], params['I_F'])
    case = {'op': 'scale_T', 'bs': bs, 'agg': [int(a) for a in agg], 'nc': nc, 'roots': roots.tolist(), 'B': cj(B), 'kind': kind}
    bad = rootnode_failures(Ts, params['Cpts'], 'scale_T')
    if bad:
        ctx.violation(bad, case)
    Td = Tin.toarray()
    Tsd = Ts.toarray()
    allowed = (np.kron((AggOp.toarray() != 0), np.ones((bs, bs))) != 0)
    if np.any((Tsd != 0) & ~allowed):
        ctx.violation('scale_T: entries outside AggOp (x) block', case)
    Yd = (params['I_F'] @ Tin + params['P_I']).toarray()
    line = [f'c10_scaleT {bs} {enc_ints(params["Cpts"])} {Td.shape[0]} {Td.shape[1]} {enc_rats(Td.ravel())}',
            f'c10_p_reset {Td.shape[0]} {Td.shape[1]} {enc_ints(params["Cpts"])} {enc_rats(Td.ravel())}']
    root_cond = []
    for k in range(nc):
        blk = Td[roots[k] * bs:(roots[k] + 1) * bs, k * bs:(k + 1) * bs]
        s = np.linalg.svd(blk, compute_uv=False)
        root_cond.append(s.min() > 1e-6 * max(s.max(), 1e-300))

    def judge(reply):
        ctx.feat(f'scaleT:bs{bs}:{kind}')
        reply, reply2 = reply
        if reply2 == 'bad-op' or not same_exact(dec_vals(reply2, 'r')[0], Yd, 'r'):
            ctx.corr('I_F T + P_I (proof-side reset)', case, reply2[:400], cj(Yd)[:16])
        if reply == 'singular' or not all(root_cond):
            ctx.feat('scaleT:singular-root-block-skipped')
            return
        v, f = dec_vals(reply, 'r') if reply != 'bad-op' else ([], np.zeros(0))
        if not close(f, Tsd, 1e-8):
            ctx.corr('scale_T', case, reply[:400], cj(Tsd)[:16])
            # property level: T P_I^T B still equals B on the non-root aggregated rows?  (column scaling only)
            Bc = params['P_I'].T @ B
            rows = [i * bs + a for i in range(nf) if agg[i] >= 0 for a in range(bs)]
            if rows and np.abs((Tsd @ Bc - B)[rows]).max() > 1e-7 * (1 + np.abs(B).max()):
                ctx.violation('scale_T: the scaled tentative prolongator no longer reproduces B from the injected coarse candidates', case)
    return {'line': line, 'judge': judge, 'key': _key('scaleT', line[0]), 'nontrivial': nf > nc, 'sample': None}


class Tap:
    """record calls of a function of pyamg.aggregation.smooth (the original still runs)"""

    def __init__(self, name, pre=None):
        import pyamg.aggregation.smooth as sm
        self.sm, self.name, self.calls, self.pre = sm, name, [], pre

    def __enter__(self):
        self.orig = getattr(self.sm, self.name)

        def wrapped(*a, **k):
            if self.pre:
                self.pre(*a, **k)
            r = self.orig(*a, **k)
            self.calls.append((a, k, r))
            return r
        setattr(self.sm, self.name, wrapped)
        return self

    def __exit__(self, *exc):
        setattr(self.sm, self.name, self.orig)
        return False


def rand_matrix(rng, nn, bs, cplx=False, sym=False, zero_diag=False):
    """random sparse matrix (dense ndarray) with nn nodes of bs dofs, dominant non-zero diagonal"""
    n = nn * bs
    nodes = (rng.random((nn, nn)) < float(rng.choice([0.3, 0.6]))) | np.eye(nn, dtype=bool)
    if sym:
        nodes = nodes | nodes.T
    mask = np.kron(nodes, np.ones((bs, bs))) != 0
    M = mask * rng.integers(-4, 5, size=(n, n)).astype(float) / 2.0
    if cplx:
        M = M + 1j * (mask * rng.integers(-2, 3, size=(n, n))) / 2.0
    if sym:
        M = (M + M.conj().T) / 2.0
    M[np.arange(n), np.arange(n)] = np.abs(M).sum(1) + rng.integers(1, 4, size=n)
    if zero_diag and n > 1:
        M[int(rng.integers(n)), :] = 0
    return M


def to_sparse(M, bs):
    if bs == 1:
        return gen.int32csr(sp.csr_array(M))
    A = sp.csr_array(M).tobsr(blocksize=(bs, bs))
    A.indptr = A.indptr.astype(np.int32)
    A.indices = A.indices.astype(np.int32)
    return A


def scaled_dense(M, weighting, bs, omega, rho):
    """omega/rho D^-1 S as a dense array (rho ignored for 'local')"""
    n = M.shape[0]
    if weighting == 'diagonal':
        d = np.diag(M)
        dinv = np.where(d != 0, 1.0 / np.where(d != 0, d, 1), 0)
        return (omega / rho) * (dinv[:, None] * M)
    if weighting == 'local':
        d = np.abs(M).sum(1)
        dinv = np.where(d != 0, 1.0 / np.where(d != 0, d, 1), 0)
        return omega * (dinv[:, None] * M)
    if weighting == 'richardson':
        return (omega / rho) * M
    out = np.zeros_like(M)
    for k in range(n // bs):
        sl = slice(k * bs, (k + 1) * bs)
        out[sl] = np.linalg.pinv(M[sl, sl]) @ M[sl]
    return (omega / rho) * out


def smoother_setup(ctx, rng, t, cplx=False, big=False):
    from pyamg.aggregation.tentative import fit_candidates
    bs = int(rng.choice([1, 1, 2, 3]))
    nn = int(rng.integers(2, 7 if bs == 1 else 5))
    if big:
        bs = int(rng.choice([1, 1, 2]))
        nn = int(rng.integers(6, 11 if bs == 1 else 7))
    M = rand_matrix(rng, nn, bs, cplx=cplx, sym=(t % 3 == 0), zero_diag=(t % 11 == 10))
    S = to_sparse(M, bs)
    agg, nc = rand_partition(rng, nn)
    if not any(a >= 0 for a in agg):
        agg[0] = 0
    K2 = int(rng.choice([1, 2])) if bs == 1 else int(rng.choice([1, bs]))
    B = rand_candidates(rng, agg, nc, bs, K2, cplx, 'generic')
    T, Bc = fit_candidates(aggop_of(agg, nc), B)
    if not (np.all(np.isfinite(T.data)) and np.all(np.isfinite(Bc))):
        ctx.violation('fit_candidates returned non-finite entries', {'op': 'fit_candidates', 'nf': nn, 'nc': nc, 'K1': bs, 'K2': K2,
                                                                    'agg': [int(a) for a in agg], 'complex': cplx, 'kind': 'generic', 'B': cj(B)})
        raise FloatingPointError('fit_candidates returned non-finite entries (reported)')
    return bs, nn, M, S, agg, nc, K2, B, T, Bc


def item_smooth(ctx, rng, t):
    """unfiltered Jacobi / Richardson: P = (I - w D^-1 S)^degree T"""
    from pyamg.aggregation.smooth import jacobi_prolongation_smoother, richardson_prolongation_smoother
    cplx = t % 6 == 5
    bs, nn, M, S, agg, nc, K2, B, T, Bc = smoother_setup(ctx, rng, t, cplx)
    weighting = ['diagonal', 'local', 'richardson', 'block'][t % 4]
    omega = float(rng.choice([4.0 / 3.0, 1.0, 0.5]))
    degree = int(rng.choice([1, 1, 2, 3]))
    case = {'op': 'smoother', 'weighting': weighting, 'omega': omega, 'degree': degree, 'bs': bs, 'nn': nn, 'complex': cplx,
            'M': cj(M), 'agg': [int(a) for a in agg], 'nc': nc, 'K2': K2, 'B': cj(B), 'np_seed': int(rng.integers(2**31))}
    np.random.seed(case['np_seed'])
    Tin = T.copy()
    try:
        with Tap('approximate_spectral_radius') as tap:
            if weighting == 'richardson':
                P = richardson_prolongation_smoother(S, T, omega=omega, degree=degree)
            else:
                P = jacobi_prolongation_smoother(S, T, None, Bc, omega=omega, degree=degree, filter_entries=False, weighting=weighting)
    except Exception as e:       # noqa: BLE001
        ctx.violation(f'{weighting} prolongation smoother raised {type(e).__name__}: {e}', case)
        return None
    Pd, Td = P.toarray(), Tin.toarray()
    if not np.array_equal(T.toarray(), Td):
        ctx.violation('the prolongation smoother modified T', case)
    n = M.shape[0]
    eff = 'diagonal' if (weighting == 'block' and bs == 1) else weighting
    rho = None
    if eff != 'local':
        if len(tap.calls) != 1:
            ctx.violation(f'{weighting}: approximate_spectral_radius called {len(tap.calls)} times', case)
            return None
        rho = float(tap.calls[0][2])
        rho_true = float(np.abs(np.linalg.eigvals(scaled_dense(M, eff, bs, 1.0, 1.0))).max())
        if n <= 12 and abs(rho - rho_true) > 0.05 * rho_true:
            ctx.violation(f'{weighting}: spectral radius of the scaled matrix is {rho_true} but the smoother used {rho}', case)
    elif tap.calls:
        ctx.violation('local weighting must not scale by a spectral radius', case)
    # ---- search: the stated polynomial, independently in NumPy
    Ms = scaled_dense(M, eff, bs, omega, rho if rho else 1.0)
    ref = Td.astype(Ms.dtype)
    for _ in range(degree):
        ref = ref - Ms @ ref
    if not close(Pd, ref, 1e-8):
        ctx.violation(f'{weighting} smoother (omega={omega}, degree={degree}) differs from (I - omega/rho D^-1 S)^degree T by '
                      f'{np.abs(Pd - ref).max():.3e}', case)
    if cplx:
        ctx.feat('smooth:complex-search-only')
        ctx.case(key=_key('smoothc', weighting, omega, degree, case['M'], case['B']), nontrivial=True)
        return None
    wt = {'diagonal': 0, 'local': 1, 'richardson': 2, 'block': 3}[eff]
    w = omega if eff == 'local' else omega / rho
    args = (f'{wt} {bs} {enc_rat(w)} {degree} {n} {Td.shape[1]} {enc_rats(M.ravel())} {enc_rats(np.abs(M).sum(1))} '
            f'{enc_rats(Td.ravel())}')
    line = ['c10_smooth ' + args, 'c10_p_smooth ' + args]

    def judge(reply):
        ctx.feat(f'smooth:{weighting}:deg{degree}')
        reply, reply2 = reply
        if reply == 'singular':
            ctx.feat('smooth:singular-block-skipped')
            return
        parts = reply.split(';')
        if reply2.split(';') != parts:
            ctx.corr('prolongation smoother', case, reply2[:300], reply[:300], 'model and proof-side iterate / polynomial differ')
            return
        if len(parts) != 2:
            ctx.corr('prolongation smoother', case, reply, 'n/a', 'driver rejected the request')
            return
        if parts[0] != parts[1]:
            ctx.corr('prolongation smoother', case, reply[:300], 'n/a', 'model: smoothing loop and matrix polynomial differ')
            return
        v, f = dec_vals(parts[0], 'r')
        if not close(f, Pd, 1e-9):
            ctx.corr(f'{weighting} prolongation smoother', case, parts[0][:400], cj(Pd)[:16])
    return {'line': line, 'judge': judge, 'key': _key('smooth', line[0]), 'nontrivial': True,
            'sample': {'op': 'prolongation smoother', 'weighting': weighting, 'degree': degree, 'n': n, 'omega': omega}}


def strength_pattern(rng, M, bs, sym):
    """random strength pattern on the nodes of M (subset of the node graph, diagonal kept mostly)"""
    nn = M.shape[0] // bs
    nodes = np.zeros((nn, nn), dtype=bool)
    for i in range(nn):
        for j in range(nn):
            nodes[i, j] = np.any(M[i * bs:(i + 1) * bs, j * bs:(j + 1) * bs] != 0)
    keep = rng.random((nn, nn)) < 0.7
    if sym:
        keep = keep & keep.T
    Cn = nodes & keep
    if rng.random() < 0.85:
        Cn = Cn | np.eye(nn, dtype=bool)
    C = gen.int32csr(sp.csr_array(Cn * (0.25 + rng.random((nn, nn)))))
    return C, Cn


def product_failures(P, T, Bc, allowed, status_rows, rpb, what):
    """(P - T) B_c = 0 on the rows whose local constraints are well posed and supp(P - T) inside `allowed`"""
    D = (P - T)
    Dd = D.toarray() if sp.issparse(D) else np.asarray(D)
    if not np.all(np.isfinite(Dd)):
        return f'{what}: non-finite entries in P'
    if np.any((Dd != 0) & ~allowed):
        i, j = np.argwhere((Dd != 0) & ~allowed)[0]
        return f'{what}: entry ({i},{j}) outside the allowed sparsity pattern was changed by {Dd[i, j]:.3e}'
    E = np.abs(Dd @ Bc)
    Td = T.toarray() if sp.issparse(T) else np.asarray(T)
    scale = (1 + np.abs(Td).max(initial=0) + np.abs(Dd).max(initial=0)) * (np.abs(Bc).max(initial=0) or 1.0)
    for ib, stt in enumerate(status_rows):
        if stt in ('ok', 'deficient', 'empty'):
            e = E[ib * rpb:(ib + 1) * rpb].max(initial=0)
            if e > 1e-7 * scale:
                return f'{what}: P B_c differs from T B_c on block row {ib} ({stt} local constraints) by {e:.3e}'
    return None


def block_pattern_of(Xd, rpb, cpb):
    nbr, ncb = Xd.shape[0] // rpb, Xd.shape[1] // cpb
    ip, ix = [0], []
    for i in range(nbr):
        for j in range(ncb):
            if np.any(Xd[i * rpb:(i + 1) * rpb, j * cpb:(j + 1) * cpb] != 0):
                ix.append(j)
        ip.append(len(ix))
    return i32(ip), i32(ix)


def item_jacobi_filtered(ctx, rng, t, fixed=None):
    """`fixed` = a case of the fixed corpus (all inputs given) instead of a random one"""
    from pyamg.aggregation.smooth import jacobi_prolongation_smoother
    if fixed is not None:
        cplx, bs, nn, M, S, agg, nc, K2, B, T, Bc, C, Cn, weighting, omega, degree, np_seed = fixed
    else:
        cplx = t % 5 == 4
        bs, nn, M, S, agg, nc, K2, B, T, Bc = smoother_setup(ctx, rng, t, cplx)
        C, Cn = strength_pattern(rng, M, bs, sym=(t % 3 == 0))
        weighting = ['local', 'diagonal', 'block'][t % 3]
        omega = float(rng.choice([4.0 / 3.0, 1.0]))
        degree = int(rng.choice([1, 2, 2, 3]))
        np_seed = int(rng.integers(2**31))
    case = {'op': 'jacobi_filtered', 'weighting': weighting, 'omega': omega, 'degree': degree, 'bs': bs, 'nn': nn, 'complex': cplx,
            'M': cj(M), 'C': Cn.astype(int).tolist(), 'agg': [int(a) for a in agg], 'nc': nc, 'K2': K2, 'B': cj(B),
            'np_seed': np_seed}
    np.random.seed(case['np_seed'])
    pats = []
    Tin = T.copy()
    try:
        with Tap('approximate_spectral_radius') as tap, \
                Tap('satisfy_constraints', pre=lambda U, B_, Z: pats.append((U.indptr.copy(), U.indices.copy(), tuple(U.blocksize)))):
            P = jacobi_prolongation_smoother(S, T, C, Bc, omega=omega, degree=degree, filter_entries=True, weighting=weighting)
    except Exception as e:       # noqa: BLE001
        ctx.violation(f'filtered Jacobi smoother raised {type(e).__name__}: {e}', case)
        return None
    n = M.shape[0]
    Mf = M * (np.kron(Cn, np.ones((bs, bs))) != 0)
    Td = Tin.toarray()
    # ---- search: the product and the pattern, whatever the weights are
    Cp = (np.kron(Cn, np.ones((bs, bs))) != 0) & (M != 0)
    reach = (Td != 0)
    allowed = np.zeros_like(reach)
    for _ in range(degree):
        reach = (Cp.astype(float) @ reach.astype(float)) != 0
        allowed |= reach
    allowed_blocks = np.kron(block_any(allowed, bs, K2), np.ones((bs, K2))) != 0
    if len(pats) != degree:
        ctx.violation(f'filtered Jacobi: {len(pats)} constraint projections for degree {degree}', case)
        return None
    stat = ['ok'] * nn
    order = {'ok': 0, 'empty': 0, 'deficient': 1, 'ambiguous': 2}
    for (ip, ix, blk) in pats:
        st = rows_status(Bc, ip, ix, nn, K2)
        stat = [a if order[a] >= order[b] else b for a, b in zip(stat, st)]
    bad = product_failures(P, Tin, Bc, allowed_blocks, stat, bs, f'filtered Jacobi ({weighting}, degree {degree})')
    if bad:
        # S o C without a single non-zero diagonal entry: D^-1 (S o C) is the zero matrix with stored entries, its spectral
        # radius is 0 and omega/0 * 0 gives NaN (weightings that divide by the spectral radius only)
        zero_scaled = weighting != 'local' and not np.any(np.diag(Mf) != 0) and np.any(Mf != 0)
        fk = 'jacobi-filter-zero-diagonal' if zero_scaled and 'non-finite' in bad else None
        ctx.violation(bad, case, fkey=fk)
    ctx.feat('jacf:rows:' + ','.join(sorted(set(stat))))
    if cplx or any(s != 'ok' for s in stat):
        ctx.case(key=_key('jacf-search', weighting, omega, degree, case['M'], case['B'], case['C']), nontrivial=True)
        return None
    eff = 'diagonal' if (weighting == 'block' and bs == 1) else weighting
    if eff == 'local':
        w = omega
    else:
        if len(tap.calls) != 1:
            ctx.violation(f'filtered Jacobi: approximate_spectral_radius called {len(tap.calls)} times', case)
            return None
        if float(tap.calls[0][2]) == 0.0:
            ctx.feat('jacf:zero-scaled-matrix-skipped')      # S o C has no diagonal: D^-1 S is the zero matrix, P = T
            ctx.case(key=_key('jacf-search', weighting, omega, degree, case['M'], case['B'], case['C']), nontrivial=True)
            return None
        w = omega / float(tap.calls[0][2])
    wt = {'diagonal': 0, 'local': 1, 'block': 3}[eff]
    penc = '|'.join(pat_enc(ip, ix, nn) for (ip, ix, blk) in pats) if pats else '-'
    line = (f'c10_jacf {wt} {bs} {enc_rat(w)} {bs} {K2} {K2} {n} {Td.shape[1]} {enc_rats(Mf.ravel())} {enc_rats(np.abs(Mf).sum(1))} '
            f'{enc_rats(Bc.ravel())} {penc} {enc_rats(Td.ravel())}')
    Pd = P.toarray()

    def judge(reply):
        ctx.feat(f'jacf:{weighting}:deg{degree}')
        if reply == 'singular':
            ctx.feat('jacf:singular-skipped')
            return
        parts = reply.split(';')
        if len(parts) != 2 or parts[1] != 'constrained':
            ctx.corr('filtered Jacobi smoother (model invariants)', case, reply[-60:], 'n/a',
                     'the model\'s projected updates do not annihilate B_c or the proof-side fold differs')
            return
        v, f = dec_vals(parts[0], 'r')
        if not close(f, Pd, 1e-8):
            ctx.corr('filtered Jacobi smoother', case, reply[:400], cj(Pd)[:16])
    return {'line': line, 'judge': judge, 'key': _key('jacf', line), 'nontrivial': True,
            'sample': {'op': 'filtered Jacobi', 'weighting': weighting, 'degree': degree, 'n': n}}


def item_energy_model(ctx, rng, t):
    """cg / cgnr energy minimisation vs the exact Lean model of the whole loop (real data, rows whose local
    Gram matrices are safely invertible); the model also decides the hypotheses of updates_keep_product /
    updates_keep_pattern on the instance and replays the proof-side fold"""
    from pyamg.aggregation.smooth import energy_prolongation_smoother
    from pyamg.aggregation.tentative import fit_candidates
    from pyamg.util.utils import scale_T, get_Cpt_params
    root = t % 4 == 3
    krylov = ['cg', 'cgnr'][(t // 2) % 2] if root else ['cg', 'cgnr'][t % 2]
    degree = int(rng.choice([0, 1, 1, 2]))
    maxiter = int(rng.integers(1, 4))
    weighting = ['local', 'diagonal', 'block'][int(rng.integers(3))]
    bs = int(rng.choice([1, 1, 2]))
    nn = int(rng.integers(5, 10 if bs == 1 else 6))
    M = rand_matrix(rng, nn, bs, sym=(krylov == 'cg' or t % 3 == 0))
    S = to_sparse(M, bs)
    agg, nc = chain_partition(rng, nn)
    if root:
        roots = np.array([int(rng.choice([i for i in range(nn) if agg[i] == j])) for j in range(nc)], dtype=np.int32)
        B = rand_candidates(rng, agg, nc, bs, bs, False, 'generic')
        K2 = bs
    else:
        roots = None
        K2 = int(rng.choice([1, 1, 2])) if bs == 1 else int(rng.choice([1, bs]))
        B = rand_candidates(rng, agg, nc, bs, K2, False, 'generic')
    C, Cn = strength_pattern(rng, M, bs, sym=(t % 3 == 0))
    Cv = C.toarray()
    if root:
        for i in range(nn):
            if agg[i] < 0:
                Cv[i, :] = 0
                Cv[:, i] = 0
                Cv[i, i] = 1.0
        C = gen.int32csr(sp.csr_array(Cv))
    AggOp = aggop_of(agg, nc)
    T0, Bc = fit_candidates(AggOp, B)
    cpts = []
    par = (False, {})
    if root:
        p = get_Cpt_params(S, roots, AggOp, T0)
        T0 = scale_T(T0, p['P_I'], p['I_F'])
        Bc = p['P_I'].T @ B
        cpts = [int(c) for c in p['Cpts']]
        par = (True, p)
    case = {'op': 'energy_model', 'root': root, 'krylov': krylov, 'degree': degree, 'maxiter': maxiter, 'weighting': weighting, 'bs': bs,
            'nn': nn, 'K2': K2, 'M': cj(M), 'Cvals': Cv.ravel().tolist(), 'agg': [int(a) for a in agg], 'nc': nc,
            'roots': None if roots is None else roots.tolist(), 'B': cj(B)}
    Tin = T0.copy()
    try:
        with Tap('compute_BtBinv') as tap, quiet():
            P = energy_prolongation_smoother(S, T0, C, Bc, B if root else None, par, krylov=krylov, maxiter=maxiter, degree=degree,
                                             weighting=weighting)
    except Exception as e:       # noqa: BLE001
        ctx.violation(f'energy_prolongation_smoother({krylov}, degree={degree}, maxiter={maxiter}, {weighting}) raised {type(e).__name__}: {e}', case)
        return None
    if not tap.calls:
        return None
    pat = tap.calls[0][0][1]
    if pat.format != 'bsr' or tuple(pat.blocksize) != (bs, K2):
        ctx.corr('energy smoother', case, 'n/a', f'pattern format {pat.format} blocksize {getattr(pat, "blocksize", None)}')
        return None
    st = rows_status(Bc, pat.indptr, pat.indices, nn, K2)
    if any(x not in ('ok', 'empty') for x in st):
        ctx.feat('energy-model:ill-posed-rows-skipped')
        return None
    Td, Pd = Tin.toarray(), P.toarray()
    n = M.shape[0]
    if krylov == 'cgnr':
        wt, aux = 4, (np.abs(M) ** 2).sum(0)
    else:
        eff = 'diagonal' if (weighting == 'block' and bs == 1) else weighting
        wt, aux = {'diagonal': 0, 'local': 1, 'block': 3}[eff], np.abs(M).sum(1)
    line = (f'c10_energy {1 if krylov == "cgnr" else 0} {wt} {bs} {bs} {K2} {Bc.shape[1]} {pat_enc(pat.indptr, pat.indices, nn)} {n} {Td.shape[1]} '
            f'{enc_rats(M.ravel())} {enc_rats(aux)} {enc_rats(Td.ravel())} {enc_rats(Bc.ravel())} {maxiter} {enc_rat(1e-8)} {enc_ints(cpts)}')

    def judge(reply):
        ctx.feat(f'energy-model:{krylov}:{"root" if root else "plain"}')
        parts = reply.split(';')
        if reply == 'singular' or len(parts) != 4:
            ctx.feat('energy-model:singular-skipped')
            return
        flags = parts[1].split(',')
        if 'UNCONSTRAINED' in flags or 'NOFOLD' in flags:
            ctx.corr('energy smoother (model invariants)', case, parts[1], 'n/a',
                     'the model\'s own updates do not satisfy the hypotheses of updates_keep_product / updates_keep_pattern')
            return
        if flags[0] != 'ok' or flags[1] != 'regular':
            ctx.feat('energy-model:breakdown-or-singular-skipped')
            return
        sums = [float(x) for x in dec_list(parts[2], dec_rat)]
        if any(1e-12 < abs(x) < 1e-4 for x in sums):
            ctx.near_skipped += 1
            return
        v, f = dec_vals(parts[0], 'r')
        ctx.feat(f'energy-model:updates:{parts[3]}')
        if not close(f, Pd, 1e-6):
            ctx.corr(f'energy smoother {krylov}', case, parts[0][:300], cj(Pd)[:16])
    return {'line': line, 'judge': judge, 'key': _key('energy-model', line), 'nontrivial': True,
            'sample': {'op': 'energy smoother vs exact model', 'krylov': krylov, 'degree': degree, 'maxiter': maxiter, 'weighting': weighting,
                       'root': root, 'n': n}}


def block_any(mask, rpb, cpb):
    nbr, ncb = mask.shape[0] // rpb, mask.shape[1] // cpb
    out = np.zeros((nbr, ncb), dtype=bool)
    for i in range(nbr):
        for j in range(ncb):
            out[i, j] = mask[i * rpb:(i + 1) * rpb, j * cpb:(j + 1) * cpb].any()
    return out


def part_b(ctx, N):
    rng = ctx.np_rng
    items = []
    for t in range(N):
        items.append(safe(ctx, item_fit_py, rng, t))
        if t % 2 == 0:
            items.append(safe(ctx, item_sat_py, rng, t // 2))
            items.append(safe(ctx, item_filter, rng, t // 2))
        if t % 3 == 0:
            items.append(safe(ctx, item_scale_T, rng, t // 3))
        if t % 2 == 1:
            items.append(safe(ctx, item_smooth, rng, t // 2))
        if t % 3 == 1:
            items.append(safe(ctx, item_jacobi_filtered, rng, t // 3))
        if t % 3 == 2:
            items.append(safe(ctx, item_energy_model, rng, t // 3))
    return items


# ------------------------------------------------------------------------------------------------
# part C: search on the real code -- energy minimisation (all Krylov variants), root-node
# prolongators, whole hierarchies
# ------------------------------------------------------------------------------------------------

def allowed_energy_pattern(Cvals, Tblocks, degree, prefilter):
    """node-level pattern the energy smoother may touch: Atilde^degree * pattern(T), optionally
    filtered (theta: entries >= theta * row maximum; k: the k largest entries of a row; both: union)"""
    pat = Tblocks.astype(float)
    if degree == 0:
        return Tblocks.copy()
    for _ in range(degree):
        pat = Cvals @ pat
    keep = pat != 0
    if not prefilter:
        return keep
    out = np.zeros_like(keep)
    a = np.abs(pat)
    if 'theta' in prefilter and prefilter['theta'] != 0:
        mx = a.max(axis=1, keepdims=True)
        out |= keep & (a >= prefilter['theta'] * mx)
    if 'k' in prefilter:
        for i in range(a.shape[0]):
            idx = [j for j in np.argsort(-a[i], kind='stable') if keep[i, j]][:int(prefilter['k'])]
            out[i, idx] = True
    if not ('k' in prefilter) and not ('theta' in prefilter and prefilter['theta'] != 0):
        return keep
    return out


def near_tie_rows(Cvals, Tblocks, degree, prefilter):
    """rows where the prefilter decision is numerically delicate (skip the sharp pattern there)"""
    if not prefilter or degree == 0:
        return False
    pat = Tblocks.astype(float)
    for _ in range(degree):
        pat = Cvals @ pat
    a = np.abs(pat)
    for i in range(a.shape[0]):
        v = np.sort(a[i][a[i] > 0])
        if len(v) > 1 and np.min(np.diff(v)) < 1e-9 * v.max():
            return True
        if 'theta' in prefilter and len(v) and np.any(np.abs(v - prefilter['theta'] * v.max()) < 1e-9 * v.max()):
            return True
    return False


def status_from_mask(Bc, blockmask, cpb):
    nbr = blockmask.shape[0]
    ip, ix = [0], []
    for i in range(nbr):
        ix += [j for j in range(blockmask.shape[1]) if blockmask[i, j]]
        ip.append(len(ix))
    return rows_status(Bc, i32(ip), i32(ix), nbr, cpb)


ENERGY_OPTS = [(k, d, m, w) for k in ('cg', 'cgnr', 'gmres') for d in (0, 1, 2) for m in (1, 2, 3, 4) for w in ('local', 'diagonal', 'block')]


def energy_case(ctx, rng, t):
    """energy_prolongation_smoother called directly, no root nodes"""
    from pyamg.aggregation.smooth import energy_prolongation_smoother
    cplx = t % 5 == 4
    krylov, degree, maxiter, weighting = ENERGY_OPTS[int(rng.integers(len(ENERGY_OPTS)))]
    prefilter = [None, None, {'theta': 0.3}, {'k': 2}, {'theta': 0.3, 'k': 1}][t % 5] if degree > 0 else None
    bs, nn, M, S, agg, nc, K2, B, T, Bc = smoother_setup(ctx, rng, t, cplx, big=prefilter is not None or t % 4 == 0)
    C, Cn = strength_pattern(rng, M, bs, sym=(t % 3 == 0))
    case = {'op': 'energy', 'krylov': krylov, 'degree': degree, 'maxiter': maxiter, 'weighting': weighting, 'prefilter': prefilter,
            'bs': bs, 'nn': nn, 'complex': cplx, 'M': cj(M), 'Cvals': C.toarray().ravel().tolist(), 'agg': [int(a) for a in agg],
            'nc': nc, 'K2': K2, 'B': cj(B)}
    ctx.case(key=_key('energy', krylov, degree, maxiter, weighting, str(prefilter), case['M'], case['B'], case['Cvals']), nontrivial=True,
             sample={'op': 'energy_prolongation_smoother', 'krylov': krylov, 'degree': degree, 'maxiter': maxiter, 'weighting': weighting,
                     'prefilter': prefilter, 'n': M.shape[0], 'complex': cplx})
    ctx.feat(f'energy:{krylov}')
    ctx.feat(f'energy:deg{degree}')
    ctx.feat(f'energy:{weighting}')
    ctx.feat('energy:prefilter:' + ('+'.join(sorted(prefilter)) if prefilter else 'none'))
    judge_energy(ctx, case)


def gmres_block_key(krylov, weighting, blocksize, what):
    """key of the finding 'gmres energy smoothing with block weighting on 1x1 blocks loses the
    constraint' -- only for exactly that call shape and that kind of failure"""
    if krylov == 'gmres' and weighting == 'block' and blocksize == 1 and ('differs from T B_c' in what or 'supports the constraints' in what):
        return 'energy-gmres-block-1x1'
    return None


def judge_energy(ctx, case):
    from pyamg.aggregation.smooth import energy_prolongation_smoother
    from pyamg.aggregation.tentative import fit_candidates
    cplx, bs, nn, nc, K2 = case['complex'], case['bs'], case['nn'], case['nc'], case['K2']
    M = uncj(case['M'], cplx).reshape(nn * bs, nn * bs)
    B = uncj(case['B'], cplx).reshape(nn * bs, K2)
    agg = np.array(case['agg'])
    Cv = np.array(case['Cvals']).reshape(nn, nn)
    C = case_csr(case, nn) if 'Cp' in case else gen.int32csr(sp.csr_array(Cv))
    S = to_sparse(M, bs)
    T, Bc = fit_candidates(aggop_of(agg, nc), B)
    Tin = T.copy()
    pre = dict(case['prefilter']) if case['prefilter'] else None
    what = (f'energy_prolongation_smoother(krylov={case["krylov"]}, degree={case["degree"]}, maxiter={case["maxiter"]}, '
            f'weighting={case["weighting"]}, prefilter={case["prefilter"]})')
    try:
        with quiet():
            P = energy_prolongation_smoother(S, T, C, Bc, None, (False, {}), krylov=case['krylov'], maxiter=case['maxiter'],
                                             degree=case['degree'], weighting=case['weighting'], prefilter=pre)
    except Exception as e:       # noqa: BLE001
        ctx.violation(f'{what} raised {type(e).__name__}: {e}', case)
        return
    Tb = block_any(Tin.toarray() != 0, bs, K2)
    if near_tie_rows(Cv, Tb, case['degree'], case['prefilter']):
        ctx.near_skipped += 1
        amask = allowed_energy_pattern(Cv, Tb, case['degree'], None)
    else:
        amask = allowed_energy_pattern(Cv, Tb, case['degree'], case['prefilter'])
    allowed = np.kron(amask, np.ones((bs, K2))) != 0
    st = status_from_mask(Bc, amask, K2)
    if 'ambiguous' in st:
        # an ill-conditioned local Gram matrix: rounding noise of that row can dominate a (near) zero residual, which
        # gmres then normalises -- not a well-conditioned instance for a tolerance-based judgement
        ctx.near_skipped += 1
        st = ['ambiguous'] * len(st)
    bad = product_failures(P, Tin, Bc, allowed, st, bs, what)
    if bad:
        ctx.violation(bad, case, fkey=gmres_block_key(case['krylov'], case['weighting'], bs, bad))
    if not np.array_equal(T.toarray(), Tin.toarray()):
        ctx.violation(what + ' modified the tentative prolongator it was given', case)


def case_csr(case, nn):
    """the strength matrix of a case that stores its CSR arrays (stored order of the entries matters for ties in truncate_rows)"""
    C = sp.csr_array((np.array(case['Cx'], dtype=float), i32(case['Cj']), i32(case['Cp'])), shape=(nn, nn))
    C.indptr, C.indices = i32(C.indptr), i32(C.indices)
    return C


def rootnode_inputs(case):
    from pyamg.aggregation.tentative import fit_candidates
    from pyamg.util.utils import scale_T, get_Cpt_params
    cplx, bs, nn, nc, nd = case['complex'], case['bs'], case['nn'], case['nc'], case['nd']
    M = uncj(case['M'], cplx).reshape(nn * bs, nn * bs)
    B = uncj(case['B'], cplx).reshape(nn * bs, nd)
    agg = np.array(case['agg'])
    roots = np.array(case['roots'], dtype=np.int32)
    Cv = np.array(case['Cvals']).reshape(nn, nn)
    C = case_csr(case, nn) if 'Cp' in case else gen.int32csr(sp.csr_array(Cv))
    S = to_sparse(M, bs)
    AggOp = aggop_of(agg, nc)
    T0, _ = fit_candidates(AggOp, B[:, :bs])
    par = get_Cpt_params(S, roots, AggOp, T0)
    T = scale_T(T0, par['P_I'], par['I_F'])
    Bc = par['P_I'].T @ B
    return M, B, agg, roots, Cv, C, S, AggOp, T0, par, T, Bc


def rootnode_case(ctx, rng, t):
    cplx = t % 5 == 4
    bs = int(rng.choice([1, 1, 2, 3]))
    nn = int(rng.integers(2, 9 if bs == 1 else 6))
    M = rand_matrix(rng, nn, bs, cplx=cplx, sym=(t % 3 == 0))
    agg, nc, roots, B0 = root_setup(rng, nn, bs, cplx)
    extra = int(rng.choice([0, 1, 1, 2]))
    B = np.hstack([B0, rand_candidates(rng, agg, nc, bs, extra, cplx, 'generic')]) if extra else B0
    C, Cn = strength_pattern(rng, M, bs, sym=(t % 3 == 0))
    Cv = C.toarray()
    for i in range(nn):          # a node the aggregation leaves out has no strong neighbour
        if agg[i] < 0:
            Cv[i, :] = 0
            Cv[:, i] = 0
            Cv[i, i] = 1.0
    krylov, degree, maxiter, weighting = ENERGY_OPTS[int(rng.integers(len(ENERGY_OPTS)))]
    post = [None, {'theta': 0.1}, None, {'k': 2}, None, {'theta': 0.1, 'k': 2}][(t // 2) % 6]
    case = {'op': 'energy_rootnode', 'krylov': krylov, 'degree': degree, 'maxiter': maxiter, 'weighting': weighting, 'postfilter': post,
            'bs': bs, 'nn': nn, 'nd': bs + extra, 'complex': cplx, 'M': cj(M), 'Cvals': Cv.ravel().tolist(), 'agg': [int(a) for a in agg],
            'nc': nc, 'roots': roots.tolist(), 'B': cj(B)}
    ctx.case(key=_key('rootnode', krylov, degree, maxiter, weighting, str(post), case['M'], case['B'], case['Cvals'], case['roots']),
             nontrivial=True, sample={'op': 'root-node energy smoothing', 'krylov': krylov, 'degree': degree, 'postfilter': post,
                                      'n': M.shape[0], 'candidates': bs + extra, 'blocksize': bs} if t < 2 else None)
    ctx.feat(f'rootnode:{krylov}')
    ctx.feat('rootnode:postfilter:' + ('+'.join(sorted(post)) if post else 'none'))
    ctx.feat('rootnode:extra-candidates' if extra else 'rootnode:candidates=blocksize')
    judge_rootnode(ctx, case)


def judge_rootnode(ctx, case):
    from pyamg.aggregation.smooth import energy_prolongation_smoother
    M, B, agg, roots, Cv, C, S, AggOp, T0, par, T, Bc = rootnode_inputs(case)
    bs, nn, nc, nd = case['bs'], case['nn'], case['nc'], case['nd']
    what = (f'root-node energy smoothing (krylov={case["krylov"]}, degree={case["degree"]}, maxiter={case["maxiter"]}, '
            f'weighting={case["weighting"]}, postfilter={case["postfilter"]}, {nd} candidates, blocksize {bs})')
    # the scaled tentative prolongator itself
    bad = rootnode_failures(T, par['Cpts'], 'scale_T')
    if bad:
        ctx.violation(bad, case)
        return
    if not np.allclose(Bc, B[par['Cpts']], rtol=0, atol=0):
        ctx.violation('coarse candidates P_I^T B are not B restricted to the root dofs', case)
    Tin = T.copy()
    post = dict(case['postfilter']) if case['postfilter'] else None
    try:
        with quiet():
            P = energy_prolongation_smoother(S, T, C, Bc, B, (True, par), krylov=case['krylov'], maxiter=case['maxiter'],
                                             degree=case['degree'], weighting=case['weighting'], postfilter=post,
                                             prefilter=dict(case['prefilter']) if case.get('prefilter') else None)
    except Exception as e:       # noqa: BLE001
        ctx.violation(f'{what} raised {type(e).__name__}: {e}', case)
        return
    bad = rootnode_failures(P, par['Cpts'], what)
    if bad:
        ctx.violation(bad, case)
        return
    Pd, Td = P.toarray(), Tin.toarray()
    if not np.all(np.isfinite(Pd)):
        ctx.violation(what + ': non-finite entries in P', case)
        return
    # pattern: F rows inside Atilde^degree * pattern(T), root rows = identity block
    Tb = block_any(Td != 0, bs, bs)
    amask = allowed_energy_pattern(Cv, Tb, case['degree'], None)
    for k, r in enumerate(roots):
        amask[r, :] = False
        amask[r, k] = True
    allowed = np.kron(amask, np.ones((bs, bs))) != 0
    # entries of T outside the pattern may stay (the post-filter pass re-fits on pattern(T) itself); without any
    # re-fitting pass they must stay exactly as they are
    filtered = nd > bs or post is not None
    out = (Pd != 0) & ~(allowed | (Td != 0)) if filtered else ((Pd - Td) != 0) & ~allowed
    if np.any(out):
        i, j = np.argwhere(out)[0]
        ctx.violation(f'{what}: entry ({i},{j}) = {Pd[i, j]:.3e} lies outside the allowed sparsity pattern' +
                      ('' if filtered else f' and differs from T ({Td[i, j]:.3e})'), case)
        return
    # reproduction of B on every row whose (final) pattern supports the constraints
    st = status_from_mask(Bc, block_any(Pd != 0, bs, bs), bs)
    st0 = status_from_mask(Bc, amask, bs)
    if 'ambiguous' in st or 'ambiguous' in st0:
        ctx.near_skipped += 1      # ill-conditioned local Gram matrix somewhere: see judge_energy
        return
    E = np.abs(Pd @ Bc - B)
    scale = (1 + np.abs(Pd).max()) * (np.abs(B).max() or 1.0)
    for i in range(nn):
        if st[i] == 'ok' and (agg[i] >= 0 or nd > bs):
            e = E[i * bs:(i + 1) * bs].max()
            if e > 1e-7 * scale:
                msg = f'{what}: node {i} has a pattern that supports the constraints but (P B_c - B) = {e:.3e} there'
                ctx.violation(msg, case, fkey=gmres_block_key(case['krylov'], case['weighting'], bs, msg))
                return


# ---- whole hierarchies

def hierarchy_matrix(rng, t):
    """(A, B, symmetry, blocksize, description)"""
    from pyamg.gallery import poisson, linear_elasticity
    kind = ['poisson1d', 'poisson2d', 'elasticity', 'random', 'nonsym', 'complex', 'random_bsr'][t % 7]
    if kind == 'poisson1d':
        n = int(rng.integers(8, 40))
        A = poisson((n,), format='csr')
        B = np.ones((n, 1)) if t % 2 else np.hstack([np.ones((n, 1)), np.arange(n, dtype=float).reshape(-1, 1) / n])
        return A, B, 'hermitian', 1, kind
    if kind == 'poisson2d':
        nx, ny = int(rng.integers(3, 8)), int(rng.integers(3, 8))
        A = poisson((nx, ny), format='csr')
        return A, np.ones((A.shape[0], 1)), 'hermitian', 1, kind
    if kind == 'elasticity':
        nx, ny = int(rng.integers(3, 6)), int(rng.integers(3, 6))
        A, B = linear_elasticity((nx, ny), format='bsr')
        return A, B, 'hermitian', 2, kind
    if kind in ('random', 'random_bsr'):
        bs = 1 if kind == 'random' else 2
        nn = int(rng.integers(6, 20))
        M = rand_matrix(rng, nn, bs, sym=True)
        k = int(rng.choice([1, 2]))
        B = rng.standard_normal((nn * bs, k))
        return to_sparse(M, bs), B, 'hermitian', bs, kind
    if kind == 'nonsym':
        n = int(rng.integers(8, 30))
        A = poisson((n,), format='csr') + sp.diags_array([0.3 * np.ones(n - 1)], offsets=[1], shape=(n, n))
        return sp.csr_array(A), np.ones((n, 1)), 'nonsymmetric', 1, kind
    n = int(rng.integers(8, 30))
    A = poisson((n,), format='csr').astype(complex)
    A = A + 1j * sp.diags_array([0.25 * np.ones(n - 1), -0.25 * np.ones(n - 1)], offsets=[1, -1], shape=(n, n))
    B = (np.ones((n, 1)) + 0.5j * rng.standard_normal((n, 1))).astype(complex)
    return sp.csr_array(A), B, 'hermitian', 1, kind


SMOOTH_SA = [('jacobi', {'omega': 4.0 / 3.0, 'degree': 1}), ('jacobi', {'omega': 1.0, 'degree': 2, 'weighting': 'local'}),
             ('jacobi', {'filter_entries': True, 'weighting': 'local', 'degree': 2}), ('richardson', {'omega': 1.0, 'degree': 2}),
             ('energy', {'krylov': 'cg', 'maxiter': 2, 'degree': 1}), ('energy', {'krylov': 'cgnr', 'maxiter': 3, 'degree': 2, 'weighting': 'diagonal'}),
             ('energy', {'krylov': 'gmres', 'maxiter': 4, 'degree': 1, 'weighting': 'block'}), None,
             ('jacobi', {'weighting': 'block', 'degree': 1})]
SMOOTH_RN = [('energy', {'krylov': 'cg', 'maxiter': 2, 'degree': 1}), ('energy', {'krylov': 'cgnr', 'maxiter': 3, 'degree': 2}),
             ('energy', {'krylov': 'gmres', 'maxiter': 2, 'degree': 1, 'weighting': 'diagonal'}),
             ('energy', {'krylov': 'cg', 'maxiter': 3, 'degree': 2, 'postfilter': {'theta': 0.05}}),
             ('energy', {'krylov': 'gmres', 'maxiter': 2, 'degree': 1, 'postfilter': {'k': 3}}), None]


def hierarchy_case(ctx, rng, t):
    import pyamg
    A, B, symmetry, bs, kind = hierarchy_matrix(rng, t)
    root = (t // 7) % 2 == 1
    smooth = (SMOOTH_RN if root else SMOOTH_SA)[int(rng.integers(len(SMOOTH_RN if root else SMOOTH_SA)))]
    if kind == 'nonsym' and smooth and smooth[0] == 'energy' and smooth[1].get('krylov') == 'cg':
        smooth = ('energy', dict(smooth[1], krylov='gmres'))
    strength = [('symmetric', {'theta': 0.0}), ('symmetric', {'theta': 0.25}), ('classical', {'theta': 0.25}), None][int(rng.integers(4))]
    if root and B.shape[1] < bs:
        B = np.hstack([B, rng.standard_normal((B.shape[0], bs - B.shape[1]))])
    if (bs > 1 or B.shape[1] > 1) and strength is None:
        strength = ('symmetric', {'theta': 0.0})      # strength=None aggregates dofs, not nodes: not a block problem any more
    aggregate = ['standard', 'standard', 'naive', ('lloyd', {'ratio': 0.3})][int(rng.integers(4))]
    if isinstance(aggregate, tuple) and (symmetry == 'nonsymmetric' or strength is None or strength[0] != 'symmetric'):
        aggregate = 'standard'      # Lloyd clustering needs a symmetric strength graph
    seed = int(rng.integers(2**31))
    case = {'op': 'hierarchy', 'root': root, 'kind': kind, 'smooth': smooth, 'strength': strength, 'aggregate': aggregate,
            'symmetry': symmetry, 'bs': bs, 'A': cj(A.toarray()), 'n': A.shape[0], 'B': cj(B), 'nd': B.shape[1],
            'complex': bool(np.iscomplexobj(A.data) or np.iscomplexobj(B)), 'np_seed': seed, 'max_coarse': int(rng.choice([1, 2, 4]))}
    ctx.feat('hier:' + ('rootnode' if root else 'sa') + ':' + kind)
    ctx.feat('hier:smooth:' + (smooth[0] + (':' + smooth[1].get('krylov', '') if smooth[0] == 'energy' else '') if smooth else 'none'))
    judge_hierarchy(ctx, case, count=True)


def judge_hierarchy(ctx, case, count=False):
    import pyamg
    cplx, n, bs, nd = case['complex'], case['n'], case['bs'], case['nd']
    Ad = uncj(case['A'], cplx).reshape(n, n)
    B = uncj(case['B'], cplx).reshape(n, nd)
    A = to_sparse(Ad, bs)
    smooth = case['smooth']
    if smooth is not None:
        smooth = (smooth[0], {k: (dict(v) if isinstance(v, dict) else v) for k, v in smooth[1].items()})
    strength = tuple(case['strength']) if case['strength'] else None
    if strength is not None:
        strength = (strength[0], dict(strength[1]))
    aggregate = case['aggregate']
    if isinstance(aggregate, (list, tuple)):
        aggregate = (aggregate[0], dict(aggregate[1]))
    kw = dict(B=B.copy(), symmetry=case['symmetry'], strength=strength, aggregate=aggregate, smooth=smooth,
              improve_candidates=None, max_coarse=case['max_coarse'], max_levels=6, keep=True)
    if case['symmetry'] == 'nonsymmetric':
        kw['BH'] = B.copy()
    np.random.seed(case['np_seed'])
    fn = pyamg.rootnode_solver if case['root'] else pyamg.smoothed_aggregation_solver
    what0 = ('rootnode_solver' if case['root'] else 'smoothed_aggregation_solver') + f'(smooth={case["smooth"]}, strength={case["strength"]}, aggregate={case["aggregate"]})'
    rhos = []
    try:
        with Tap('approximate_spectral_radius') as tap, quiet():
            ml = fn(A, **kw)
        rhos = [(a[0], float(r)) for a, k, r in tap.calls]
    except Exception as e:       # noqa: BLE001
        ctx.violation(f'{what0} raised {type(e).__name__}: {e}', case)
        return
    for li, lvl in enumerate(ml.levels[:-1]):
        what = f'{what0} level {li}'
        if count:
            nontriv = lvl.AggOp.shape[0] > lvl.AggOp.shape[1]
            ctx.case(key=_key('hier', case['kind'], case['root'], str(case['smooth']), str(case['strength']), case['aggregate'], li,
                              case['A'], case['B']), nontrivial=nontriv,
                     sample={'op': what0, 'level': li, 'n': lvl.A.shape[0], 'kind': case['kind']} if li == 1 else None)
            ctx.feat(f'hier:level{li}')
        Bf = np.asarray(lvl.B)
        Bcoarse = np.asarray(ml.levels[li + 1].B)
        AggOp = lvl.AggOp.tocsr()
        nf, nc = AggOp.shape
        lbs = lvl.A.blocksize[0] if lvl.A.format == 'bsr' else 1
        agg = -np.ones(nf, dtype=int)
        for i in range(nf):
            cols = AggOp.indices[AggOp.indptr[i]:AggOp.indptr[i + 1]]
            if len(cols) > 1:
                ctx.violation(f'{what}: AggOp row {i} lies in {len(cols)} aggregates', case)
                return
            if len(cols) == 1:
                agg[i] = int(cols[0])
        T, P = lvl.T, lvl.P
        Td, Pd = T.toarray(), P.toarray()
        Cn = (lvl.C.toarray() != 0) if sp.issparse(lvl.C) else None
        if not case['root']:
            K2 = Bf.shape[1]
            if Td.shape[0] != nf * lbs:
                ctx.violation(f'{what}: AggOp has {nf} rows but the level has {Td.shape[0]} unknowns in blocks of {lbs}', case)
                return
            bad = fit_property_failures(ctx, agg, nc, lbs, K2, Bf, Td, Bcoarse)
            pb = bsr_pattern_is(T, agg, nc, lbs, K2)
            if pb:
                bad.append('pattern(T) != AggOp (x) block: ' + pb)
            if bad:
                ctx.violation(f'{what}: tentative prolongator: ' + bad[0], case)
                return
            if smooth is None:
                if not np.array_equal(Pd, Td):
                    ctx.violation(f'{what}: smooth=None but P != T', case)
                continue
            name, opts = smooth
            if name in ('jacobi', 'richardson') and not opts.get('filter_entries', False):
                Sd = lvl.A.toarray()
                wt = 'richardson' if name == 'richardson' else opts.get('weighting', 'diagonal')
                if wt == 'block' and lbs == 1:
                    wt = 'diagonal'
                omega, degree = opts.get('omega', 4.0 / 3.0), opts.get('degree', 1)
                rho = 1.0
                if wt != 'local':
                    Ms1 = scaled_dense(Sd, wt, lbs, 1.0, 1.0)
                    rho_true = float(np.abs(np.linalg.eigvals(Ms1)).max())
                    cands = [r for (mat, r) in rhos if getattr(mat, 'shape', None) == Sd.shape and abs(r - rho_true) <= 0.2 * rho_true]
                    if not cands:
                        ctx.violation(f'{what}: no spectral-radius estimate within 20% of rho(D^-1 A) = {rho_true} was used '
                                      f'(estimates: {[r for _, r in rhos]})', case)
                        return
                    ok = False
                    for rho in cands:
                        ref = Td.astype(complex if cplx else float)
                        Ms = scaled_dense(Sd, wt, lbs, omega, rho)
                        for _ in range(degree):
                            ref = ref - Ms @ ref
                        ok = ok or close(Pd, ref, 1e-8)
                else:
                    ref = Td.astype(complex if cplx else float)
                    Ms = scaled_dense(Sd, wt, lbs, omega, 1.0)
                    for _ in range(degree):
                        ref = ref - Ms @ ref
                    ok = close(Pd, ref, 1e-8)
                if not ok:
                    ctx.violation(f'{what}: P differs from (I - omega/rho D^-1 A)^degree T (weighting {wt}, omega {omega}, degree {degree})', case)
                    return
            else:
                degree = opts.get('degree', 1)
                Tb = block_any(Td != 0, lbs, K2)
                if name == 'jacobi':
                    Cp = Cn & block_any(lvl.A.toarray() != 0, lbs, lbs)
                    reach, amask = Tb.copy(), np.zeros_like(Tb)
                    for _ in range(degree):
                        reach = (Cp.astype(float) @ reach.astype(float)) != 0
                        amask |= reach
                else:
                    amask = allowed_energy_pattern(np.abs(lvl.C.toarray()), Tb, degree, None)
                allowed = np.kron(amask, np.ones((lbs, K2))) != 0
                st = status_from_mask(Bcoarse, amask, K2)
                if 'ambiguous' in st:
                    ctx.near_skipped += 1
                    st = ['ambiguous'] * len(st)
                bad = product_failures(P, T, Bcoarse, allowed, st, lbs, what)
                if bad:
                    fk = gmres_block_key(opts.get('krylov', 'cg'), opts.get('weighting', 'local'), lbs, bad) if name == 'energy' else None
                    ctx.violation(bad, case, fkey=fk)
                    return
        else:
            Cpts = np.asarray(lvl.Cpts)
            if len(Cpts) != P.shape[1]:
                # an aggregate without members (standard_aggregation on a graph without edges, see C12): no root, nothing claimed
                ctx.feat('hier:level-with-empty-aggregate-skipped')
                continue
            bad = rootnode_failures(T, Cpts, f'{what}: tentative prolongator') or rootnode_failures(P, Cpts, f'{what}: P')
            if bad:
                ctx.violation(bad, case)
                return
            if Bcoarse.shape != Bf[Cpts].shape or not np.array_equal(Bcoarse, Bf[Cpts]):
                ctx.violation(f'{what}: coarse candidates are not the fine candidates at the root dofs', case)
                return
            ndl = Bf.shape[1]
            st = status_from_mask(Bcoarse, block_any(Pd != 0, lbs, lbs), lbs)
            if 'ambiguous' in st:
                ctx.near_skipped += 1
                st = ['ambiguous'] * len(st)
            E = np.abs(Pd @ Bcoarse - Bf)
            scale = (1 + np.abs(Pd).max()) * (np.abs(Bf).max() or 1.0)
            for i in range(nf):
                if st[i] == 'ok' and (agg[i] >= 0 or ndl > lbs):
                    e = E[i * lbs:(i + 1) * lbs].max()
                    if e > 1e-6 * scale:
                        msg = f'{what}: node {i} has a pattern that supports the constraints but (P B_c - B) = {e:.3e} there'
                        fk = gmres_block_key(smooth[1].get('krylov', 'cg'), smooth[1].get('weighting', 'local'), lbs, msg) if smooth else None
                        ctx.violation(msg, case, fkey=fk)
                        return
            if smooth is not None:
                degree = smooth[1].get('degree', 1)
                Tb = block_any(Td != 0, lbs, lbs)
                amask = allowed_energy_pattern(np.abs(lvl.C.toarray()), Tb, degree, None)
                for k in range(nc):
                    r = int(Cpts[k * lbs]) // lbs
                    amask[r, :] = False
                    amask[r, k] = True
                allowed = np.kron(amask, np.ones((lbs, lbs))) != 0
                filtered = ndl > lbs or 'postfilter' in smooth[1]
                out = (Pd != 0) & ~(allowed | (Td != 0)) if filtered else ((Pd - Td) != 0) & ~allowed
                if np.any(out):
                    i, j = np.argwhere(out)[0]
                    ctx.violation(f'{what}: entry ({i},{j}) of P lies outside the allowed sparsity pattern', case)
                    return
            elif not np.array_equal(Pd, Td):
                ctx.violation(f'{what}: smooth=None but P != T', case)


# ---- left / right candidates of nonsymmetric root-node hierarchies (seed C10-11): the restriction of a nonsymmetric problem is
# R = PH^H with PH the root-node prolongator of A^H built from the LEFT candidates BH; the property is demanded of both
# (P, B) and (PH, BH) on every level, with user-supplied BH != B and 1..3 candidates per dof block
LR_SMOOTH = [('energy', {'krylov': 'gmres', 'maxiter': 3, 'degree': 1}), ('energy', {'krylov': 'cgnr', 'maxiter': 2, 'degree': 1}),
             ('energy', {'krylov': 'gmres', 'maxiter': 2, 'degree': 2, 'weighting': 'diagonal'}),
             ('energy', {'krylov': 'cgnr', 'maxiter': 3, 'degree': 2, 'weighting': 'diagonal'}),
             ('energy', {'krylov': 'gmres', 'maxiter': 2, 'degree': 1, 'postfilter': {'theta': 0.05}}),
             ('energy', {'krylov': 'gmres', 'maxiter': 1, 'degree': 2, 'postfilter': {'k': 3}}),
             ('energy', {'krylov': 'gmres', 'maxiter': 4, 'degree': 1, 'weighting': 'block'}), None]


def lr_case(ctx, rng, t):
    from pyamg.gallery import poisson
    kind = ['convdiff1d', 'convdiff2d', 'random', 'random_bsr', 'complex'][t % 5]
    bs = 2 if kind == 'random_bsr' else 1
    cplx = kind == 'complex'
    if kind in ('convdiff1d', 'complex'):
        n = int(rng.integers(10, 40))
        c = float(rng.choice([0.2, 0.5, 0.8]))
        Ad = poisson((n,), format='csr').toarray() + c * (np.eye(n, k=1) - np.eye(n, k=-1))
        if cplx:
            Ad = Ad + 0.25j * np.eye(n, k=1) + 0.1j * np.eye(n, k=-1)
    elif kind == 'convdiff2d':
        nx, ny = int(rng.integers(3, 9)), int(rng.integers(3, 9))
        c = float(rng.choice([0.3, 0.7]))
        Cx, Cy = np.eye(nx, k=1) - np.eye(nx, k=-1), np.eye(ny, k=1) - np.eye(ny, k=-1)
        Ad = poisson((nx, ny), format='csr').toarray() + c * np.kron(Cx, np.eye(ny)) + 0.3 * c * np.kron(np.eye(nx), Cy)
    else:
        Ad = rand_matrix(rng, int(rng.integers(6, 20)), bs)
    n = Ad.shape[0]
    nd = bs + int(rng.choice([0, 1, 1, 2]))
    def cand():
        X = rng.standard_normal((n, nd))
        if cplx:
            X = X + 1j * rng.standard_normal((n, nd))
        if rng.random() < 0.5:
            X[:, 0] = 1.0
        return X
    B, BH = cand(), cand()
    smooth = LR_SMOOTH[int(rng.integers(len(LR_SMOOTH)))]
    strength = [('symmetric', {'theta': 0.0}), ('symmetric', {'theta': 0.25}), ('classical', {'theta': 0.25})][int(rng.integers(3))]
    aggregate = ['standard', 'naive'][int(rng.integers(2))]
    case = {'op': 'hierarchy_lr', 'kind': kind, 'smooth': smooth, 'strength': strength, 'aggregate': aggregate, 'bs': bs,
            'A': cj(Ad), 'n': n, 'B': cj(B), 'BH': cj(BH), 'nd': nd, 'complex': bool(cplx), 'np_seed': int(rng.integers(2**31)),
            'max_coarse': int(rng.choice([1, 2, 4]))}
    ctx.feat('hier-lr:' + kind)
    ctx.feat('hier-lr:smooth:' + (smooth[1]['krylov'] + (':postfilter' if 'postfilter' in smooth[1] else '') if smooth else 'none'))
    ctx.feat(f'hier-lr:candidates-minus-blocksize={nd - bs}')
    judge_lr(ctx, case, count=True)


def judge_lr(ctx, case, count=False):
    import pyamg
    cplx, n, bs, nd = case['complex'], case['n'], case['bs'], case['nd']
    A = to_sparse(uncj(case['A'], cplx).reshape(n, n), bs)
    B, BH = uncj(case['B'], cplx).reshape(n, nd), uncj(case['BH'], cplx).reshape(n, nd)
    smooth = case['smooth']
    if smooth is not None:
        smooth = (smooth[0], {k: (dict(v) if isinstance(v, dict) else v) for k, v in smooth[1].items()})
    strength = (case['strength'][0], dict(case['strength'][1]))
    what0 = (f'rootnode_solver(symmetry=nonsymmetric, BH != B, {nd} candidates, blocksize {bs}, smooth={case["smooth"]}, '
             f'strength={case["strength"]}, aggregate={case["aggregate"]})')
    np.random.seed(case['np_seed'])
    try:
        with quiet():
            ml = pyamg.rootnode_solver(A, B=B.copy(), BH=BH.copy(), symmetry='nonsymmetric', strength=strength,
                                       aggregate=case['aggregate'], smooth=smooth, improve_candidates=None,
                                       max_coarse=case['max_coarse'], max_levels=5, keep=True)
    except Exception as e:       # noqa: BLE001
        ctx.feat('hier-lr:rejected:' + type(e).__name__)
        return
    for li, lvl in enumerate(ml.levels[:-1]):
        nxt = ml.levels[li + 1]
        if count:
            ctx.case(key=_key('hier-lr', case['kind'], str(case['smooth']), str(case['strength']), case['aggregate'], li, case['A'],
                              case['B'], case['BH']), nontrivial=lvl.AggOp.shape[0] > lvl.AggOp.shape[1],
                     sample={'op': what0, 'level': li, 'n': lvl.A.shape[0]} if li == 1 else None)
            ctx.feat(f'hier-lr:level{li}')
        Cpts = np.asarray(lvl.Cpts)
        if len(Cpts) != lvl.P.shape[1]:
            ctx.feat('hier-lr:level-with-empty-aggregate-skipped')
            continue
        lbs = lvl.A.blocksize[0] if lvl.A.format == 'bsr' else 1
        AggOp = lvl.AggOp.tocsr()
        aggregated = np.diff(AggOp.indptr) > 0
        sides = [('P (right candidates B)', lvl.P, np.asarray(lvl.B), np.asarray(nxt.B))]
        if smooth is not None:
            # smooth=None: the code takes R = T^H with T fitted to B, no operator for BH is built -> nothing claimed for BH
            sides.append(('R^H (left candidates BH)', lvl.R.T.conjugate(), np.asarray(lvl.BH), np.asarray(nxt.BH)))
        for name, Pm, Bf, Bc in sides:
            what = f'{what0} level {li}: {name}'
            Pd = sp.csr_array(Pm).toarray()
            bad = rootnode_failures(Pd, Cpts, what)
            if bad:
                ctx.violation(bad, case)
                return
            if Bc.shape != Bf[Cpts].shape or not np.array_equal(Bc, Bf[Cpts]):
                ctx.violation(f'{what}: coarse candidates are not the fine candidates at the root dofs', case)
                return
            ndl = Bf.shape[1]
            st = status_from_mask(Bc, block_any(Pd != 0, lbs, lbs), lbs)
            if 'ambiguous' in st:
                ctx.near_skipped += 1
                continue
            E = np.abs(Pd @ Bc - Bf)
            scale = (1 + np.abs(Pd).max()) * (np.abs(Bf).max() or 1.0)
            for i in range(len(st)):
                if st[i] == 'ok' and (aggregated[i] or ndl > lbs):
                    e = E[i * lbs:(i + 1) * lbs].max()
                    if e > 1e-6 * scale:
                        ctx.violation(f'{what}: node {i} has a pattern that supports the constraints but (P B_c - B) = {e:.3e} there '
                                      f'(scale {scale:.2e})', case)
                        return


def part_lr(ctx, N):
    rng = np.random.default_rng([int(ctx.seed) & 0xffffffff, 0xC1011])
    for t in range(N):
        safe(ctx, lr_case, rng, t)


def part_c(ctx, n_energy, n_root, n_hier):
    rng = ctx.np_rng
    for t in range(max(4, n_energy // 10)):
        safe(ctx, fit_float32_case, rng, t)
    for t in range(n_energy):
        safe(ctx, energy_case, rng, t)
    for t in range(n_root):
        safe(ctx, rootnode_case, rng, t)
    for t in range(n_hier):
        safe(ctx, hierarchy_case, rng, t)


def safe(ctx, fn, rng, t):
    """run one generator+evaluation; an exception here means the code under test raised on a valid input or
    returned something that cannot even be encoded (non-finite values): that is reported with the generator index"""
    import traceback
    try:
        return fn(ctx, rng, t)
    except Exception as e:       # noqa: BLE001
        ctx.violation(f'{fn.__name__}[{t}]: {type(e).__name__}: {str(e)[:200]}',
                      {'op': 'exception', 'generator': fn.__name__, 't': t, 'seed': ctx.seed, 'tier': ctx.tier,
                       'traceback': traceback.format_exc()[-1500:]})
        return None


def lean_retry(ctx, lines, tries=4):
    """the driver's compiled modules are shared with concurrently running builds of other properties: a
    request that arrives while they are being rewritten fails to load; wait and ask again"""
    import time
    from common import InfraError
    for k in range(tries):
        try:
            return ctx.lean(lines)
        except InfraError:
            if k == tries - 1:
                raise
            time.sleep(5 + 10 * k)


def run_items(ctx, items):
    items = [it for it in items if it is not None]
    lines = []
    for it in items:
        it['_at'] = len(lines)
        lines += it['line'] if isinstance(it['line'], list) else [it['line']]
    outs = lean_retry(ctx, lines)
    for it in items:
        ctx.case(key=it['key'], nontrivial=it['nontrivial'], sample=it.get('sample'))
        if isinstance(it['line'], list):
            it['judge'](outs[it['_at']:it['_at'] + len(it['line'])])
        else:
            it['judge'](outs[it['_at']])


def part_a(ctx, N):
    rng = ctx.np_rng
    items = []
    for t in range(N):
        items.append(safe(ctx, item_fit_kernel, rng, t))
        if t % 2 == 0:
            items.append(safe(ctx, item_sat_kernel, rng, t // 2))
        if t % 4 == 1:
            items.append(safe(ctx, item_btb_kernel, rng, t // 4))
        if t % 4 == 3:
            items.append(safe(ctx, item_imm_kernel, rng, t // 4))
    return items



# ------------------------------------------------------------------------------------------------
# extension E24: incomplete_mat_mult_csr, unsorted BSR patterns, gmres energy minimisation vs the
# exact model of the whole loop (Model/ExtC10bGmres.lean)
# ------------------------------------------------------------------------------------------------

def rand_cs_pattern(rng, nmajor, nminor, shuffle=False):
    """compressed pattern (indptr, indices) int32 without duplicates, sorted unless `shuffle`"""
    dens = float(rng.choice([0.3, 0.6, 0.9]))
    ip, ix = [0], []
    for _ in range(nmajor):
        cols = [j for j in range(nminor) if rng.random() < dens]
        if shuffle:
            cols = [int(c) for c in rng.permutation(cols)] if cols else []
        ix += cols
        ip.append(len(ix))
    return i32(ip), i32(ix)


def item_imm_csr_kernel(ctx, rng, t):
    """incomplete_mat_mult_csr (evolution_strength.h) vs Model/ExtC10bImm.lean; on sorted input (the kernel's
    precondition, hypothesis of incompleteMatMultCsr_spec) the result must be (A B) on the pattern of S"""
    from pyamg import amg_core
    cplx = t % 3 == 1
    unsorted = t % 6 == 5           # precondition violated: model and kernel must still agree (same merge)
    n, kk, mc = int(rng.integers(1, 6)), int(rng.integers(1, 6)), int(rng.integers(1, 6))
    ap, aj = rand_cs_pattern(rng, n, kk, shuffle=unsorted)            # A: n x kk, CSR
    bp, bj = rand_cs_pattern(rng, mc, kk, shuffle=unsorted)           # B: kk x mc, CSC (column pointers)
    sp_, sj = rand_cs_pattern(rng, n, mc, shuffle=(t % 4 == 3))       # S: n x mc, CSR; its order does not matter
    ax = rand_small(rng, len(aj), cplx, den=2)
    bx = rand_small(rng, len(bj), cplx, den=4)
    sx0 = rand_small(rng, len(sj), cplx)                               # overwritten whatever it holds
    out = sx0.copy()
    amg_core.incomplete_mat_mult_csr(ap, aj, ax, bp, bj, bx, sp_, sj, out, n)
    mode = 'c' if cplx else 'r'
    line = (f'ext_c10b_imm_csr {mode} {enc_ints(ap)} {enc_ints(aj)} {enc_vals(ax, mode)} {enc_ints(bp)} {enc_ints(bj)} '
            f'{enc_vals(bx, mode)} {enc_ints(sp_)} {enc_ints(sj)} {enc_vals(sx0, mode)} {n}')
    case = {'op': 'incomplete_mat_mult_csr', 'complex': cplx, 'dims': [n, kk, mc], 'sorted': not unsorted, 'ap': ap.tolist(),
            'aj': aj.tolist(), 'ax': cj(ax), 'bp': bp.tolist(), 'bj': bj.tolist(), 'bx': cj(bx), 'sp': sp_.tolist(),
            'sj': sj.tolist(), 'sx': cj(sx0)}

    def judge(reply):
        ctx.feat('immcsr:' + ('unsorted' if unsorted else 'sorted') + (':complex' if cplx else ':real'))
        v, f = dec_vals(reply, mode) if reply != 'bad-op' else ([], np.zeros(0))
        if same_exact(v, out, mode):
            ctx.feat('bit_exact')
        else:
            ctx.corr('incomplete_mat_mult_csr', case, reply[:400], cj(out)[:16])
        if not unsorted:
            Ad = sp.csr_array((ax, aj, ap), shape=(n, kk)).toarray()
            Bd = sp.csc_array((bx, bj, bp), shape=(kk, mc)).toarray()
            ref = Ad @ Bd
            for i in range(n):
                for q in range(sp_[i], sp_[i + 1]):
                    if abs(out[q] - ref[i, sj[q]]) > 1e-12:
                        ctx.violation(f'incomplete_mat_mult_csr: S[{i},{int(sj[q])}] = {out[q]} but (A B)[{i},{int(sj[q])}] = {ref[i, sj[q]]} '
                                      '(sorted indices, no duplicates)', case)
                        return
    return {'line': line, 'judge': judge, 'key': _key('immcsr', line), 'nontrivial': len(sj) > 0 and len(aj) > 0 and len(bj) > 0,
            'sample': None}


def item_imm_bsr_unsorted(ctx, rng, t):
    """incomplete_mat_mult_bsr with unsorted block columns (allowed by the kernel; hypothesis of
    incompleteMatMultBsr_spec is only that the block columns of S are distinct inside a block row)"""
    from pyamg import amg_core
    cplx = t % 3 == 1
    ra, ca, cb = (1, 1, 1) if t % 2 == 0 else (int(rng.choice([1, 2, 3])), int(rng.choice([1, 2])), int(rng.choice([1, 2, 3])))
    nbr, nk, nbc = int(rng.integers(1, 5)), int(rng.integers(1, 5)), int(rng.integers(1, 5))
    ap, aj = rand_cs_pattern(rng, nbr, nk, shuffle=True)
    bp, bj = rand_cs_pattern(rng, nk, nbc, shuffle=True)
    sp_, sj = rand_cs_pattern(rng, nbr, nbc, shuffle=True)
    ax = rand_small(rng, len(aj) * ra * ca, cplx)
    bx = rand_small(rng, len(bj) * ca * cb, cplx)
    sx = rand_small(rng, len(sj) * ra * cb, cplx) if t % 4 != 0 else np.zeros(len(sj) * ra * cb, dtype=complex if cplx else float)
    out = sx.copy()
    amg_core.incomplete_mat_mult_bsr(ap, aj, ax, bp, bj, bx, sp_, sj, out, nbr, nbc, ra, ca, cb)
    mode = 'c' if cplx else 'r'
    line = (f'c10_imm {mode} {enc_ints(ap)} {enc_ints(aj)} {enc_vals(ax, mode)} {enc_ints(bp)} {enc_ints(bj)} {enc_vals(bx, mode)} '
            f'{enc_ints(sp_)} {enc_ints(sj)} {enc_vals(sx, mode)} {nbr} {nbc} {ra} {ca} {cb}')
    case = {'op': 'incomplete_mat_mult_bsr', 'complex': cplx, 'unsorted': True, 'dims': [nbr, nk, nbc, ra, ca, cb], 'ap': ap.tolist(),
            'aj': aj.tolist(), 'ax': cj(ax), 'bp': bp.tolist(), 'bj': bj.tolist(), 'bx': cj(bx), 'sp': sp_.tolist(), 'sj': sj.tolist(),
            'sx': cj(sx)}

    def judge(reply):
        ctx.feat('immk:unsorted:' + ('1x1' if (ra, ca, cb) == (1, 1, 1) else 'blocks'))
        v, f = dec_vals(reply, mode) if reply != 'bad-op' else ([], np.zeros(0))
        if same_exact(v, out, mode):
            ctx.feat('bit_exact')
        else:
            ctx.corr('incomplete_mat_mult_bsr (unsorted)', case, reply[:400], cj(out)[:16])
        Ad = bsr_blocks_dense(ap, aj, ax, nbr, nk, ra, ca)
        Bd = bsr_blocks_dense(bp, bj, bx, nk, nbc, ca, cb)
        Sd = bsr_blocks_dense(sp_, sj, sx, nbr, nbc, ra, cb)
        ref = (Sd + Ad @ Bd) * pattern_mask(sp_, sj, nbr, nbc, ra, cb)
        got = bsr_blocks_dense(sp_, sj, out, nbr, nbc, ra, cb)
        if not np.allclose(got, ref, atol=1e-9):
            ctx.violation('incomplete_mat_mult_bsr (unsorted block columns) does not accumulate A*B on the stored blocks of S: '
                          f'expected {ref.tolist()} got {got.tolist()}', case)
    return {'line': line, 'judge': judge, 'key': _key('immk-unsorted', line),
            'nontrivial': len(sj) > 0 and len(aj) > 0 and len(bj) > 0, 'sample': None}


def item_gmres_model(ctx, rng, t):
    """gmres energy minimisation vs the exact Lean model of the whole loop (Arnoldi with the Frobenius product,
    Givens rotations, triangular solve; real data, rows whose local Gram matrices are safely invertible).  The model
    runs on exact rationals with 64-bit square roots; it also decides, on the instance, the hypothesis of
    gmres_run_constrained (every projected matrix of the run annihilates B_c and lies in the pattern) and its
    conclusion (the updates y_j V_j are constrained, the proof-side fold reproduces T, T B_c is unchanged)."""
    from pyamg.aggregation.smooth import energy_prolongation_smoother
    from pyamg.aggregation.tentative import fit_candidates
    from pyamg.util.utils import scale_T, get_Cpt_params
    root = t % 4 == 3
    degree = int(rng.choice([0, 1, 1, 1, 2, 2]))
    # exact rationals roughly triple in length with every GMRES step: 4 steps only now and then in the thorough tier
    maxiter = int(rng.choice([1, 2, 2, 3] if ctx.quick else [1, 2, 2, 3, 3, 3, 3, 4]))
    weighting = ['local', 'diagonal', 'block'][int(rng.integers(3))]
    bs = int(rng.choice([1, 1, 2]))
    nn = int(rng.integers(4, 9 if bs == 1 else 5))
    M = rand_matrix(rng, nn, bs, sym=(t % 3 == 0))
    S = to_sparse(M, bs)
    agg, nc = chain_partition(rng, nn)
    if root:
        roots = np.array([int(rng.choice([i for i in range(nn) if agg[i] == j])) for j in range(nc)], dtype=np.int32)
        B = rand_candidates(rng, agg, nc, bs, bs, False, 'generic')
        K2 = bs
    else:
        roots = None
        K2 = int(rng.choice([1, 1, 2])) if bs == 1 else int(rng.choice([1, bs]))
        B = rand_candidates(rng, agg, nc, bs, K2, False, 'generic')
    C, Cn = strength_pattern(rng, M, bs, sym=(t % 3 == 0))
    Cv = C.toarray()
    if root:
        for i in range(nn):
            if agg[i] < 0:
                Cv[i, :] = 0
                Cv[:, i] = 0
                Cv[i, i] = 1.0
        C = gen.int32csr(sp.csr_array(Cv))
    AggOp = aggop_of(agg, nc)
    T0, Bc = fit_candidates(AggOp, B)
    cpts = []
    par = (False, {})
    if root:
        p = get_Cpt_params(S, roots, AggOp, T0)
        T0 = scale_T(T0, p['P_I'], p['I_F'])
        Bc = p['P_I'].T @ B
        cpts = [int(c) for c in p['Cpts']]
        par = (True, p)
    case = {'op': 'gmres_model', 'root': root, 'krylov': 'gmres', 'degree': degree, 'maxiter': maxiter, 'weighting': weighting, 'bs': bs,
            'nn': nn, 'K2': K2, 'M': cj(M), 'Cvals': Cv.ravel().tolist(), 'agg': [int(a) for a in agg], 'nc': nc,
            'roots': None if roots is None else roots.tolist(), 'B': cj(B)}
    Tin = T0.copy()
    try:
        with Tap('compute_BtBinv') as tap, quiet():
            P = energy_prolongation_smoother(S, T0, C, Bc, B if root else None, par, krylov='gmres', maxiter=maxiter, degree=degree,
                                             weighting=weighting)
    except Exception as e:       # noqa: BLE001
        ctx.violation(f'energy_prolongation_smoother(gmres, degree={degree}, maxiter={maxiter}, {weighting}) raised {type(e).__name__}: {e}', case)
        return None
    if not tap.calls:
        return None
    pat = tap.calls[0][0][1]
    if pat.format != 'bsr' or tuple(pat.blocksize) != (bs, K2):
        ctx.corr('energy smoother (gmres)', case, 'n/a', f'pattern format {pat.format} blocksize {getattr(pat, "blocksize", None)}')
        return None
    st = rows_status(Bc, pat.indptr, pat.indices, nn, K2)
    if any(x not in ('ok', 'empty') for x in st):
        ctx.feat('gmres-model:ill-posed-rows-skipped')
        return None
    Td, Pd = Tin.toarray(), P.toarray()
    n = M.shape[0]
    eff = 'diagonal' if (weighting == 'block' and bs == 1) else weighting
    wt, aux = {'diagonal': 0, 'local': 1, 'block': 3}[eff], np.abs(M).sum(1)
    line = (f'ext_c10b_gmres {wt} {bs} {bs} {K2} {Bc.shape[1]} {pat_enc(pat.indptr, pat.indices, nn)} {n} {Td.shape[1]} '
            f'{enc_rats(M.ravel())} {enc_rats(aux)} {enc_rats(Td.ravel())} {enc_rats(Bc.ravel())} {maxiter} {enc_rat(1e-8)} {enc_ints(cpts)}')

    def judge(reply):
        ctx.feat(f'gmres-model:{"root" if root else "plain"}')
        parts = reply.split(';')
        if reply == 'singular' or len(parts) != 6:
            ctx.feat('gmres-model:singular-skipped')
            return
        flags = parts[1].split(',')
        if any(f in flags for f in ('PROJS-UNCONSTRAINED', 'UNCONSTRAINED', 'NOFOLD', 'NOPRODUCT')):
            ctx.corr('energy smoother gmres (model invariants)', case, parts[1], 'n/a',
                     'the model\'s own run does not satisfy the hypothesis / conclusion of gmres_run_constrained')
            return
        if flags[0] != 'ok' or flags[1] != 'regular' or flags[2] != 'generic':
            ctx.feat('gmres-model:breakdown-or-singular-skipped')
            return
        normrs = [float(x) for x in dec_list(parts[2], dec_rat)]
        if normrs[:1] == [0.0]:
            ctx.feat('gmres-model:zero-initial-residual')      # nothing to do: the model and the code return T
        hns = [float(x) for x in dec_list(parts[4], dec_rat)]
        diag = [abs(float(x)) for x in dec_list(parts[5], dec_rat)]
        if normrs[:1] != [0.0] and (any(x < 1e-4 for x in normrs) or any(x < 1e-6 for x in hns)
                                    or (diag and min(diag) < 1e-6 * max(diag + [1.0]))):
            ctx.near_skipped += 1          # a residual norm near tol / a near breakdown: the float run may take another branch
            return
        v, f = dec_vals(parts[0], 'r')
        ctx.feat(f'gmres-model:updates:{parts[3]}')
        if not close(f, Pd, 1e-6):
            ctx.corr('energy smoother gmres', case, parts[0][:300], cj(Pd)[:16])
    return {'line': line, 'judge': judge, 'key': _key('gmres-model', line), 'nontrivial': True,
            'sample': {'op': 'gmres energy smoother vs exact model', 'degree': degree, 'maxiter': maxiter, 'weighting': weighting,
                       'root': root, 'n': n}}


def part_e24(ctx, N):
    rng = ctx.np_rng.spawn(1)[0]          # derived from VERIF_SEED, leaves the stream of the other parts as it was
    items = []
    for t in range(N):
        items.append(safe(ctx, item_imm_csr_kernel, rng, t))
        if t % 2 == 1:
            items.append(safe(ctx, item_imm_bsr_unsorted, rng, t // 2))
        if t % 3 == 0:
            items.append(safe(ctx, item_gmres_model, rng, t // 3))
    return items



# ------------------------------------------------------------------------------------------------
# extension E48: cg / cgnr energy minimisation with the hypotheses and the conclusion of cg_run_checked
# decided on every run; complex energy minimisation (cg / cgnr / gmres) and complex Jacobi / Richardson
# prolongation smoothing vs the models run on Gaussian rationals (Model/ExtC10cComplex.lean)
# ------------------------------------------------------------------------------------------------

def item_energy_model_x(ctx, rng, t):
    """energy_prolongation_smoother(krylov = cg | cgnr | gmres) on real and complex data vs the exact models
    (`ext_c10c_energy r|c` = energyCG / energyCGC, `ext_c10c_gmres c` = energyGmresC); the driver decides the
    hypotheses of cg_run_checked / gmresC_run_property on the call (`hyps`) and re-checks their conclusion on the
    model's result (`rel` / `product`)"""
    from pyamg.aggregation.smooth import energy_prolongation_smoother
    from pyamg.aggregation.tentative import fit_candidates
    from pyamg.util.utils import scale_T, get_Cpt_params
    cplx = t % 4 != 3                  # mostly complex (the real cg / cgnr runs are also covered by item_energy_model)
    root = (t // 4) % 3 == 2
    krylov = ['cg', 'cgnr', 'gmres'][t % 3] if cplx else ['cg', 'cgnr'][(t // 4) % 2]
    degree = int(rng.choice([0, 1, 1, 2]))
    maxiter = int(rng.integers(1, 4)) if krylov != 'gmres' else int(rng.choice([1, 2, 2] if ctx.quick else [1, 2, 2, 3]))
    weighting = ['local', 'diagonal', 'block'][int(rng.integers(3))]
    bs = int(rng.choice([1, 1, 2]))
    nn = int(rng.integers(4, 8 if bs == 1 else 5))
    M = rand_matrix(rng, nn, bs, cplx=cplx, sym=(krylov == 'cg' or t % 5 == 0))
    S = to_sparse(M, bs)
    agg, nc = chain_partition(rng, nn)
    if root:
        roots = np.array([int(rng.choice([i for i in range(nn) if agg[i] == j])) for j in range(nc)], dtype=np.int32)
        B = rand_candidates(rng, agg, nc, bs, bs, cplx, 'generic')
        K2 = bs
    else:
        roots = None
        K2 = int(rng.choice([1, 1, 2])) if bs == 1 else int(rng.choice([1, bs]))
        B = rand_candidates(rng, agg, nc, bs, K2, cplx, 'generic')
    C, Cn = strength_pattern(rng, M, bs, sym=(t % 3 == 0))
    Cv = C.toarray()
    if root:
        for i in range(nn):
            if agg[i] < 0:
                Cv[i, :] = 0
                Cv[:, i] = 0
                Cv[i, i] = 1.0
        C = gen.int32csr(sp.csr_array(Cv))
    AggOp = aggop_of(agg, nc)
    T0, Bc = fit_candidates(AggOp, B)
    cpts = []
    par = (False, {})
    if root:
        p = get_Cpt_params(S, roots, AggOp, T0)
        T0 = scale_T(T0, p['P_I'], p['I_F'])
        Bc = p['P_I'].T @ B
        cpts = [int(c) for c in p['Cpts']]
        par = (True, p)
    case = {'op': 'energy_model', 'root': root, 'krylov': krylov, 'degree': degree, 'maxiter': maxiter, 'weighting': weighting, 'bs': bs,
            'nn': nn, 'K2': K2, 'complex': cplx, 'M': cj(M), 'Cvals': Cv.ravel().tolist(), 'agg': [int(a) for a in agg], 'nc': nc,
            'roots': None if roots is None else roots.tolist(), 'B': cj(B)}
    Tin = T0.copy()
    what = f'energy_prolongation_smoother({krylov}, degree={degree}, maxiter={maxiter}, {weighting}, complex={cplx})'
    try:
        with Tap('compute_BtBinv') as tap, quiet():
            P = energy_prolongation_smoother(S, T0, C, Bc, B if root else None, par, krylov=krylov, maxiter=maxiter, degree=degree,
                                             weighting=weighting)
    except Exception as e:       # noqa: BLE001
        ctx.violation(f'{what} raised {type(e).__name__}: {e}', case)
        return None
    if not tap.calls:
        return None
    pat = tap.calls[0][0][1]
    if pat.format != 'bsr' or tuple(pat.blocksize) != (bs, K2):
        ctx.corr('energy smoother', case, 'n/a', f'pattern format {pat.format} blocksize {getattr(pat, "blocksize", None)}')
        return None
    st = rows_status(Bc, pat.indptr, pat.indices, nn, K2)
    if any(x not in ('ok', 'empty') for x in st):
        ctx.feat('energy-model-x:ill-posed-rows-skipped')
        return None
    Td, Pd = Tin.toarray(), P.toarray()
    n = M.shape[0]
    mode = 'c' if cplx else 'r'
    if krylov == 'cgnr':
        wt, aux = 4, (np.abs(M) ** 2).sum(0)
    else:
        eff = 'diagonal' if (weighting == 'block' and bs == 1) else weighting
        wt, aux = {'diagonal': 0, 'local': 1, 'block': 3}[eff], np.abs(M).sum(1)
    tol = enc_crat(1e-8) if cplx else enc_rat(1e-8)
    tail = (f'{wt} {bs} {K2} {Bc.shape[1]} {pat_enc(pat.indptr, pat.indices, nn)} {n} {Td.shape[1]} '
            f'{enc_vals(M, mode)} {enc_vals(aux, mode)} {enc_vals(Td, mode)} {enc_vals(Bc, mode)} {maxiter} {tol} {enc_ints(cpts)}')
    if krylov == 'gmres':
        line = 'ext_c10c_gmres c ' + tail
    else:
        line = f'ext_c10c_energy {mode} {1 if krylov == "cgnr" else 0} ' + tail
    tag = f'energy-model-x:{krylov}:{"complex" if cplx else "real"}:{"root" if root else "plain"}'

    def judge(reply):
        ctx.feat(tag)
        parts = reply.split(';')
        if reply == 'singular' or len(parts) != (6 if krylov == 'gmres' else 4):
            ctx.feat('energy-model-x:singular-skipped')
            return
        flags = parts[1].split(',')
        if any(f in flags for f in ('PROJS-UNCONSTRAINED', 'UNCONSTRAINED', 'NOFOLD', 'NOPRODUCT', 'NOHYPS', 'NOREL')):
            ctx.corr(f'energy smoother {krylov} (model invariants)', case, parts[1], 'n/a',
                     'the call does not satisfy the hypotheses of cg_run_checked / gmresC_run_property or the model\'s own '
                     'result does not satisfy their conclusion')
            return
        if flags[0] != 'ok' or flags[1] != 'regular' or (krylov == 'gmres' and flags[2] != 'generic'):
            ctx.feat('energy-model-x:breakdown-or-singular-skipped')
            return
        if krylov == 'gmres':
            normrs = [float(a) for a, _ in dec_list(parts[2], dec_crat)]
            hns = [float(a) for a, _ in dec_list(parts[4], dec_crat)]
            diag = [abs(complex(float(a), float(b))) for a, b in dec_list(parts[5], dec_crat)]
            if normrs[:1] == [0.0]:
                ctx.feat('energy-model-x:zero-initial-residual')
            elif (any(x < 1e-4 for x in normrs) or any(x < 1e-6 for x in hns)
                  or (diag and min(diag) < 1e-6 * max(diag + [1.0]))):
                ctx.near_skipped += 1
                return
        else:
            sums = ([abs(complex(float(a), float(b))) for a, b in dec_list(parts[2], dec_crat)] if cplx
                    else [abs(float(x)) for x in dec_list(parts[2], dec_rat)])
            if any(1e-12 < x < 1e-4 for x in sums):
                ctx.near_skipped += 1
                return
        v, f = dec_vals(parts[0], mode)
        ctx.feat(f'energy-model-x:updates:{parts[3]}')
        if not close(f, Pd, 1e-6):
            ctx.corr(f'energy smoother {krylov} ({"complex" if cplx else "real"})', case, parts[0][:300], cj(Pd)[:16])
    return {'line': line, 'judge': judge, 'key': _key('energy-model-x', line), 'nontrivial': True,
            'sample': {'op': 'energy smoother vs exact model (E48)', 'krylov': krylov, 'complex': cplx, 'degree': degree,
                       'maxiter': maxiter, 'weighting': weighting, 'root': root, 'n': n}}


def item_smooth_c(ctx, rng, t):
    """complex unfiltered Jacobi / Richardson vs the array model on Gaussian rationals (`ext_c10c_smooth`) and both
    sides of smoothing_polynomial over CRat (`ext_c10c_p_smooth`)"""
    from pyamg.aggregation.smooth import jacobi_prolongation_smoother, richardson_prolongation_smoother
    bs, nn, M, S, agg, nc, K2, B, T, Bc = smoother_setup(ctx, rng, t, True)
    weighting = ['diagonal', 'local', 'richardson', 'block'][t % 4]
    omega = float(rng.choice([4.0 / 3.0, 1.0, 0.5]))
    degree = int(rng.choice([1, 1, 2, 3]))
    case = {'op': 'smoother', 'weighting': weighting, 'omega': omega, 'degree': degree, 'bs': bs, 'nn': nn, 'complex': True,
            'M': cj(M), 'agg': [int(a) for a in agg], 'nc': nc, 'K2': K2, 'B': cj(B), 'np_seed': int(rng.integers(2**31))}
    np.random.seed(case['np_seed'])
    Tin = T.copy()
    try:
        with Tap('approximate_spectral_radius') as tap:
            if weighting == 'richardson':
                P = richardson_prolongation_smoother(S, T, omega=omega, degree=degree)
            else:
                P = jacobi_prolongation_smoother(S, T, None, Bc, omega=omega, degree=degree, filter_entries=False, weighting=weighting)
    except Exception as e:       # noqa: BLE001
        ctx.violation(f'{weighting} prolongation smoother (complex) raised {type(e).__name__}: {e}', case)
        return None
    Pd, Td = P.toarray(), Tin.toarray()
    n = M.shape[0]
    eff = 'diagonal' if (weighting == 'block' and bs == 1) else weighting
    if eff == 'local':
        w = omega
    else:
        if len(tap.calls) != 1:
            ctx.violation(f'{weighting}: approximate_spectral_radius called {len(tap.calls)} times', case)
            return None
        rho = complex(tap.calls[0][2])
        if rho == 0 or not np.isfinite(rho):
            return None
        w = omega / rho
    wt = {'diagonal': 0, 'local': 1, 'richardson': 2, 'block': 3}[eff]
    args = (f'{wt} {bs} {enc_crat(w)} {degree} {n} {Td.shape[1]} {enc_crats(M.ravel())} {enc_crats(np.abs(M).sum(1))} '
            f'{enc_crats(Td.ravel())}')
    line = ['ext_c10c_smooth ' + args, 'ext_c10c_p_smooth ' + args]

    def judge(reply):
        ctx.feat(f'smooth-c:{weighting}:deg{degree}')
        reply, reply2 = reply
        if reply == 'singular':
            ctx.feat('smooth-c:singular-block-skipped')
            return
        parts = reply.split(';')
        if reply2.split(';') != parts:
            ctx.corr('complex prolongation smoother', case, reply2[:300], reply[:300], 'model and proof-side iterate / polynomial differ')
            return
        if len(parts) != 2:
            ctx.corr('complex prolongation smoother', case, reply[:200], 'n/a', 'driver rejected the request')
            return
        if parts[0] != parts[1]:
            ctx.corr('complex prolongation smoother', case, reply[:300], 'n/a', 'model: smoothing loop and matrix polynomial differ')
            return
        v, f = dec_vals(parts[0], 'c')
        if not close(f, Pd, 1e-9):
            ctx.corr(f'{weighting} prolongation smoother (complex)', case, parts[0][:400], cj(Pd)[:16])
    return {'line': line, 'judge': judge, 'key': _key('smooth-c', line[0]), 'nontrivial': True,
            'sample': {'op': 'complex prolongation smoother', 'weighting': weighting, 'degree': degree, 'n': n, 'omega': omega}}


def item_jacobi_filtered_c(ctx, rng, t):
    """complex filtered Jacobi vs filteredLoopC (satisfy_constraints with B^H); the driver decides the hypotheses of
    filteredC_run_property and re-checks its conclusion on the model's result"""
    from pyamg.aggregation.smooth import jacobi_prolongation_smoother
    bs, nn, M, S, agg, nc, K2, B, T, Bc = smoother_setup(ctx, rng, t, True)
    C, Cn = strength_pattern(rng, M, bs, sym=(t % 3 == 0))
    weighting = ['local', 'diagonal', 'block'][t % 3]
    omega = float(rng.choice([4.0 / 3.0, 1.0]))
    degree = int(rng.choice([1, 2, 2, 3]))
    case = {'op': 'jacobi_filtered', 'weighting': weighting, 'omega': omega, 'degree': degree, 'bs': bs, 'nn': nn, 'complex': True,
            'M': cj(M), 'C': Cn.astype(int).tolist(), 'agg': [int(a) for a in agg], 'nc': nc, 'K2': K2, 'B': cj(B),
            'np_seed': int(rng.integers(2**31))}
    np.random.seed(case['np_seed'])
    pats = []
    Tin = T.copy()
    try:
        with Tap('approximate_spectral_radius') as tap, \
                Tap('satisfy_constraints', pre=lambda U, B_, Z: pats.append((U.indptr.copy(), U.indices.copy(), tuple(U.blocksize)))):
            P = jacobi_prolongation_smoother(S, T, C, Bc, omega=omega, degree=degree, filter_entries=True, weighting=weighting)
    except Exception as e:       # noqa: BLE001
        ctx.violation(f'filtered Jacobi smoother (complex) raised {type(e).__name__}: {e}', case)
        return None
    n = M.shape[0]
    Mf = M * (np.kron(Cn, np.ones((bs, bs))) != 0)
    Td, Pd = Tin.toarray(), P.toarray()
    if len(pats) != degree or not np.all(np.isfinite(Pd)):
        return None                    # reported by item_jacobi_filtered's search on the same kind of input
    stat = ['ok'] * nn
    order = {'ok': 0, 'empty': 0, 'deficient': 1, 'ambiguous': 2}
    for (ip, ix, blk) in pats:
        st = rows_status(Bc, ip, ix, nn, K2)
        stat = [a if order[a] >= order[b] else b for a, b in zip(stat, st)]
    if any(s_ != 'ok' for s_ in stat):
        ctx.feat('jacf-c:ill-posed-rows-skipped')
        return None
    eff = 'diagonal' if (weighting == 'block' and bs == 1) else weighting
    if eff == 'local':
        w = omega
    else:
        if len(tap.calls) != 1 or complex(tap.calls[0][2]) == 0:
            ctx.feat('jacf-c:zero-scaled-matrix-skipped')
            return None
        w = omega / complex(tap.calls[0][2])
    wt = {'diagonal': 0, 'local': 1, 'block': 3}[eff]
    penc = '|'.join(pat_enc(ip, ix, nn) for (ip, ix, blk) in pats) if pats else '-'
    line = (f'ext_c10c_jacf {wt} {bs} {enc_crat(w)} {bs} {K2} {K2} {n} {Td.shape[1]} {enc_crats(Mf.ravel())} '
            f'{enc_crats(np.abs(Mf).sum(1))} {enc_crats(Bc.ravel())} {penc} {enc_crats(Td.ravel())}')

    def judge(reply):
        ctx.feat(f'jacf-c:{weighting}:deg{degree}')
        if reply == 'singular':
            ctx.feat('jacf-c:singular-skipped')
            return
        parts = reply.split(';')
        if len(parts) != 3 or parts[1] != 'constrained' or parts[2] != 'hyps':
            ctx.corr('complex filtered Jacobi smoother (model invariants)', case, reply[-60:], 'n/a',
                     'the model\'s projected updates do not annihilate B_c, the proof-side fold differs, or the call is outside '
                     'the hypotheses of filteredC_run_property')
            return
        v, f = dec_vals(parts[0], 'c')
        if not close(f, Pd, 1e-8):
            ctx.corr('complex filtered Jacobi smoother', case, parts[0][:400], cj(Pd)[:16])
    return {'line': line, 'judge': judge, 'key': _key('jacf-c', line), 'nontrivial': True,
            'sample': {'op': 'complex filtered Jacobi', 'weighting': weighting, 'degree': degree, 'n': n}}


def part_e48(ctx, N):
    rng = ctx.np_rng.spawn(1)[0]          # derived from VERIF_SEED, leaves the streams of the other parts as they were
    items = []
    for t in range(N):
        items.append(safe(ctx, item_energy_model_x, rng, t))
        if t % 2 == 0:
            items.append(safe(ctx, item_smooth_c, rng, t // 2))
        if t % 2 == 1:
            items.append(safe(ctx, item_jacobi_filtered_c, rng, t // 2))
    return items


# ------------------------------------------------------------------------------------------------
# extension E53: the whole of energy_prolongation_smoother (pattern selection with degree / prefilter /
# root rows, filter_operator pass, Krylov loop, postfilter + second pass) vs Model/ExtC10dEnergy.lean
# ------------------------------------------------------------------------------------------------

def pat_of_bsr(X, nbr):
    return [sorted(int(c) for c in X.indices[X.indptr[i]:X.indptr[i + 1]]) for i in range(nbr)]


def dec_pat(s, nbr):
    if s == 'none':
        return [[] for _ in range(nbr)]
    return [[int(x) for x in dec_list(r)] for r in s.split(';')]


def delicate_filter(X, filt, rel):
    """is a row-wise filter decision on the sparse matrix X numerically delicate?  (an entry within `rel` of the
    theta threshold, of the k-th largest magnitude, or a tiny non-zero entry)"""
    if not filt:
        return False
    Xc = sp.csr_array(X)
    for i in range(Xc.shape[0]):
        a = np.abs(Xc.data[Xc.indptr[i]:Xc.indptr[i + 1]])
        a = a[a > 0]
        if len(a) == 0:
            continue
        mx = a.max()
        if a.min() < rel * mx:
            return True
        th = filt.get('theta', 0)
        if th and np.any(np.abs(a - th * mx) < rel * mx):
            return True
        if 'k' in filt:
            k = int(filt['k'])
            s = np.sort(a)[::-1]
            if len(s) > k and (s[k - 1] - s[k]) < rel * mx:
                return True
    return False


E53_PRE = [None, {'theta': 0.25}, {'k': 2}, {'theta': 0.5, 'k': 1}, None, {'k': 1}, {'theta': 0.125, 'k': 2}, {'theta': 0.3},
           {'theta': 0.0, 'k': 3}, {'theta': 0.5}]
E53_POST = [None, {'theta': 0.1}, {'k': 2}, {'theta': 0.1, 'k': 2}, {'k': 1}, {'theta': 0.25, 'k': 1}, {'k': 3}, {'theta': 0.0}]


def e53_filter_enc(f):
    f = f or {}
    return (enc_rat(f['theta']) if 'theta' in f else '-') + ' ' + (str(int(f['k'])) if 'k' in f else '-')


def e53_krylov_gate(ctx, krylov, cplx, diags):
    """may the result of the model's Krylov runs be compared with the binary64 run?  (no breakdown, no decision
    `newsum < tol` / `normr < tol` within rounding distance, well-conditioned Hessenberg factor)"""
    for d in diags:
        head, *lists = d.split('@')
        hs = head.split(',')
        if hs[0] != 'regular' or 'lucky' in hs:
            ctx.feat('energy-full:breakdown-skipped')
            return False
        if krylov == 'gmres':
            dec = (lambda s_: [abs(complex(float(a), float(b))) for a, b in dec_list(s_, dec_crat)]) if cplx else \
                  (lambda s_: [abs(float(x)) for x in dec_list(s_, dec_rat)])
            normrs, hns, diag = dec(lists[0]), dec(lists[1]), dec(lists[2])
            if normrs[:1] == [0.0]:
                continue
            if (any(x < 1e-4 for x in normrs) or any(x < 1e-6 for x in hns) or (diag and min(diag) < 1e-6 * max(diag + [1.0]))):
                ctx.near_skipped += 1
                return False
        else:
            sums = ([abs(complex(float(a), float(b))) for a, b in dec_list(lists[0], dec_crat)] if cplx
                    else [abs(float(x)) for x in dec_list(lists[0], dec_rat)])
            if any(1e-12 < x < 1e-4 for x in sums):
                ctx.near_skipped += 1
                return False
    return True


def e53_oracle(ctx, case):
    """the property itself, judged on the real code by the independent NumPy oracles, for a case of item_energy_full"""
    nn = case['nn']
    Cv = sp.csr_array((np.array(case['Cx'], dtype=float), i32(case['Cj']), i32(case['Cp'])), shape=(nn, nn)).toarray()
    c2 = dict(case, Cvals=Cv.ravel().tolist())
    if case['root']:
        judge_rootnode(ctx, dict(c2, op='energy_rootnode'))
    else:
        judge_energy(ctx, dict(c2, op='energy'))


def item_energy_full(ctx, rng, t):
    """energy_prolongation_smoother, every option, vs the composed model `C10dM.energyFullCG` / `energyFullGmres`
    (`ext_c10d_energy`): the pattern handed to compute_BtBinv in the first pass (exact), the pattern of the
    post-filter pass (exact unless the filter decision on the smoothed P is numerically delicate), the returned P
    (tolerance 1e-6), and the exact checks of the theorem's conclusion made by the driver on the model's result"""
    from pyamg.aggregation.smooth import energy_prolongation_smoother
    from pyamg.aggregation.tentative import fit_candidates
    from pyamg.util.utils import scale_T, get_Cpt_params
    cplx = t % 4 == 3
    root = (t // 2) % 2 == 1
    krylov = ['cg', 'cgnr', 'gmres'][(t // 4) % 3]
    degree = int(rng.choice([0, 1, 1, 2]))
    maxiter = int(rng.integers(1, 4)) if krylov != 'gmres' else int(rng.choice([1, 2]))
    weighting = ['local', 'diagonal', 'block'][int(rng.integers(3))]
    pre = E53_PRE[int(rng.integers(len(E53_PRE)))]
    post = E53_POST[int(rng.integers(len(E53_POST)))] if root else None
    bs = int(rng.choice([1, 1, 2]))
    nn = int(rng.integers(4, 8 if bs == 1 else 5))
    M = rand_matrix(rng, nn, bs, cplx=cplx, sym=(krylov == 'cg' or t % 5 == 0))
    S = to_sparse(M, bs)
    agg, nc = chain_partition(rng, nn)
    extra = 0
    if root:
        roots = np.array([int(rng.choice([i for i in range(nn) if agg[i] == j])) for j in range(nc)], dtype=np.int32)
        extra = int(rng.choice([0, 0, 1]))
        B = rand_candidates(rng, agg, nc, bs, bs + extra, cplx, 'generic')
        K2 = bs
    else:
        roots = None
        K2 = int(rng.choice([1, 1, 2])) if bs == 1 else int(rng.choice([1, bs]))
        B = rand_candidates(rng, agg, nc, bs, K2, cplx, 'generic')
    nd = B.shape[1]
    # strength matrix with dyadic values: ties at the theta threshold and at the k-th largest entry are frequent,
    # negative entries make exact cancellations in Atilde^degree pattern(T) possible
    nodes = np.zeros((nn, nn), dtype=bool)
    for i in range(nn):
        for j in range(nn):
            nodes[i, j] = np.any(M[i * bs:(i + 1) * bs, j * bs:(j + 1) * bs] != 0)
    keep = rng.random((nn, nn)) < 0.75
    Cn = (nodes & keep) | (np.eye(nn, dtype=bool) if rng.random() < 0.85 else False)
    vals = rng.choice([0.25, 0.5, 0.5, 1.0, 1.0, 2.0, -0.5, -1.0], size=(nn, nn))
    Cv = Cn * vals
    if root:
        for i in range(nn):
            if agg[i] < 0:
                Cv[i, :] = 0
                Cv[:, i] = 0
                Cv[i, i] = 1.0
    C = gen.int32csr(sp.csr_array(Cv))
    if rng.random() < 0.5 and C.nnz > 1:         # unsorted column indices: the order of the product's entries changes
        for i in range(nn):
            lo, hi = C.indptr[i], C.indptr[i + 1]
            p = rng.permutation(hi - lo)
            C.indices[lo:hi] = C.indices[lo:hi][p]
            C.data[lo:hi] = C.data[lo:hi][p]
    AggOp = aggop_of(agg, nc)
    T0, Bc = fit_candidates(AggOp, B[:, :K2] if root else B)
    cpts = []
    par = (False, {})
    if root:
        p = get_Cpt_params(S, roots, AggOp, T0)
        T0 = scale_T(T0, p['P_I'], p['I_F'])
        Bc = p['P_I'].T @ B
        cpts = [int(c) for c in p['Cpts']]
        par = (True, p)
    if T0.format != 'bsr':
        T0 = T0.tobsr(blocksize=(1, 1))
    rpb, cpb = T0.blocksize
    case = {'op': 'energy_full', 'root': root, 'krylov': krylov, 'degree': degree, 'maxiter': maxiter, 'weighting': weighting,
            'prefilter': pre, 'postfilter': post, 'bs': bs, 'nn': nn, 'K2': K2, 'nd': nd, 'complex': cplx, 'M': cj(M),
            'Cp': C.indptr.tolist(), 'Cj': C.indices.tolist(), 'Cx': C.data.tolist(), 'agg': [int(a) for a in agg], 'nc': nc,
            'roots': None if roots is None else roots.tolist(), 'B': cj(B)}
    def corr(*a_):
        ctx.corr(*a_)
        e53_oracle(ctx, case)       # the property itself on the real code, independent oracle

    Tin = T0.copy()
    tpat = ';'.join(enc_ints([int(c) for c in Tin.indices[Tin.indptr[i]:Tin.indptr[i + 1]]]) for i in range(nn))
    what = (f'energy_prolongation_smoother({krylov}, degree={degree}, maxiter={maxiter}, {weighting}, prefilter={pre}, '
            f'postfilter={post}, root={root}, complex={cplx})')
    try:
        with Tap('compute_BtBinv') as tap, Tap('filter_matrix_rows') as tapf, Tap('truncate_rows') as tapk, quiet():
            P = energy_prolongation_smoother(S, T0, C.copy(), Bc, B if root else None, par, krylov=krylov, maxiter=maxiter,
                                             degree=degree, weighting=weighting, prefilter=dict(pre) if pre else None,
                                             postfilter=dict(post) if post else None)
    except Exception as e:       # noqa: BLE001
        ctx.violation(f'{what} raised {type(e).__name__}: {e}', case)
        return None
    if not tap.calls:
        return None
    pats = [c[0][1] for c in tap.calls]
    if any(p_.format != 'bsr' or tuple(p_.blocksize) != (rpb, cpb) for p_ in pats):
        corr('energy smoother (E53)', case, 'n/a', f'pattern formats {[(p_.format, getattr(p_, "blocksize", None)) for p_ in pats]}')
        return None
    for p_ in pats:
        st = rows_status(Bc, p_.indptr, p_.indices, nn, cpb)
        if any(x not in ('ok', 'empty') for x in st):
            ctx.feat('energy-full:ill-posed-rows-skipped')
            return None
    post_eff = {k_: v for k_, v in (post or {}).items() if not (k_ == 'theta' and v == 0)}
    second = bool(root and post_eff)
    if len(pats) != (2 if second else 1):
        corr('energy smoother (E53)', case, f'{2 if second else 1} calls of compute_BtBinv', f'{len(pats)} calls')
        return None
    # numerically delicate filter decisions (the model decides them exactly)
    pre_eff = {k_: v for k_, v in (pre or {}).items() if not (k_ == 'theta' and v == 0)}
    npf, npk = (1 if 'theta' in pre_eff else 0), (1 if 'k' in pre_eff else 0)
    delicate1 = False
    if pre_eff and (cplx or 'theta' in pre_eff and pre_eff['theta'] not in (0.5, 0.25, 0.125)):
        # complex moduli are rounded (hypot), theta * max is rounded for a theta that is not a power of two
        for c in tapf.calls[:npf] + tapk.calls[:npk]:
            delicate1 = delicate1 or delicate_filter(c[0][0], pre_eff, 1e-12)
    delicate2 = False
    if second:
        for c in tapf.calls[npf:] + tapk.calls[npk:]:
            delicate2 = delicate2 or delicate_filter(c[0][0], post_eff, 1e-7)
    Td, Pd = Tin.toarray(), P.toarray()
    n = M.shape[0]
    mode = 'c' if cplx else 'r'
    if krylov == 'cgnr':
        wt, aux = 4, (np.abs(M) ** 2).sum(0)
    else:
        wt, aux = {'diagonal': 0, 'local': 1, 'block': 3}[weighting], np.abs(M).sum(1)
    tol = enc_crat(1e-8) if cplx else enc_rat(1e-8)
    Cx = C.data.astype(complex) if cplx else C.data
    line = (f'ext_c10d_energy {mode} {krylov} {wt} {bs} {degree} {e53_filter_enc(pre)} {e53_filter_enc(post)} {1 if root else 0} '
            f'{maxiter} {n} {Td.shape[1]} {nd} {rpb} {cpb} {nn} {enc_ints(C.indptr)} {enc_ints(C.indices)} {enc_vals(Cx, mode)} '
            f'{tpat} {enc_vals(M, mode)} {enc_vals(aux, mode)} {enc_vals(Td, mode)} {enc_vals(Bc, mode)} '
            f'{enc_vals(B if root else np.zeros((n, nd)), mode)} {enc_ints(cpts)} {tol} {tol}')
    tag = f'energy-full:{krylov}:{"complex" if cplx else "real"}:{"root" if root else "plain"}'

    def judge(reply):
        ctx.feat(tag)
        ctx.feat('energy-full:prefilter:' + ('+'.join(sorted(pre_eff)) if pre_eff else 'none') + (':deg0' if degree == 0 else ''))
        if root:
            ctx.feat('energy-full:postfilter:' + ('+'.join(sorted(post_eff)) if post_eff else 'none'))
        if reply.startswith('error:'):
            if reply in ('error:singular', 'error:krylov', 'error:precond'):
                ctx.feat('energy-full:singular-skipped')
            else:
                corr(f'energy smoother (E53) {krylov}', case, reply, 'returned a prolongator')
            return
        parts = reply.split('#')
        if len(parts) != 8:
            corr(f'energy smoother (E53) {krylov}', case, reply[:300], 'n/a', 'malformed reply')
            return
        p1, p2, pm, _p1m, flags, chk, d1, d2 = parts
        if 'NOHYPS' in chk or 'NOPROP' in chk:
            corr(f'energy smoother (E53) {krylov} (model invariants)', case, chk, 'n/a',
                     'the call does not satisfy the hypotheses of energy_full_property or the model\'s own result does not satisfy its conclusion')
            return
        # 1. the pattern of the first pass
        if delicate1:
            ctx.near_skipped += 1
            return
        if dec_pat(p1, nn) != pat_of_bsr(pats[0], nn):
            corr(f'energy smoother (E53): pattern of the first pass', case, p1, pat_enc(pats[0].indptr, pats[0].indices, nn))
            return
        ctx.feat('energy-full:pattern1-exact')
        if ('second' in flags) != second or ('fitted' in flags) != bool(root and nd > bs):
            corr(f'energy smoother (E53): passes', case, flags, f'second={second}')
            return
        # 2. breakdown / tolerance decisions of the Krylov runs
        if not e53_krylov_gate(ctx, krylov, cplx, [d1] + ([d2] if second else [])):
            return
        # 3. the pattern of the post-filter pass
        if second:
            if delicate2:
                ctx.near_skipped += 1
                return
            if dec_pat(p2, nn) != pat_of_bsr(pats[1], nn):
                corr(f'energy smoother (E53): pattern of the post-filter pass', case, p2, pat_enc(pats[1].indptr, pats[1].indices, nn))
                return
            ctx.feat('energy-full:pattern2-exact')
        # 4. the result
        v, f = dec_vals(pm, mode)
        if not close(f, Pd, 1e-6):
            corr(f'energy smoother (E53) {krylov} ({"complex" if cplx else "real"})', case, pm[:300], cj(Pd)[:16])
    return {'line': line, 'judge': judge, 'key': _key('energy-full', line), 'nontrivial': True,
            'sample': {'op': 'energy_prolongation_smoother vs composed model (E53)', 'krylov': krylov, 'complex': cplx, 'degree': degree,
                       'maxiter': maxiter, 'weighting': weighting, 'root': root, 'prefilter': pre, 'postfilter': post, 'n': n}}


def in_child(fn):
    """run fn() in a forked child; ('ok', result) or ('signal n' | 'exit n', None) when the child died"""
    import os
    import pickle
    r, w = os.pipe()
    pid = os.fork()
    if pid == 0:
        code = 0
        try:
            os.close(r)
            data = pickle.dumps(fn())
            with os.fdopen(w, 'wb') as f:
                f.write(data)
        except BaseException:       # noqa: BLE001
            code = 3
        os._exit(code)
    os.close(w)
    with os.fdopen(r, 'rb') as f:
        data = f.read()
    _, st = os.waitpid(pid, 0)
    if os.WIFSIGNALED(st):
        return f'signal {os.WTERMSIG(st)}', None
    if os.WEXITSTATUS(st) != 0 or not data:
        return f'exit {os.WEXITSTATUS(st)}', None
    return 'ok', pickle.loads(data)


def item_energy_blocksize(ctx, rng, t):
    """the input test behind energyFullCG_precond / energyFullGmres_precond: a tentative prolongator whose row block
    size differs from A's block size (so that a 'block' preconditioner would not match the pattern's block rows) is
    rejected with ValueError before any preconditioner is built; the model answers `error:blocksize`"""
    from pyamg.aggregation.smooth import energy_prolongation_smoother
    from pyamg.aggregation.tentative import fit_candidates
    krylov = ['cg', 'cgnr', 'gmres'][t % 3]
    bsA, rpb = [(2, 1), (1, 2), (3, 1), (2, 4)][(t // 3) % 4]
    nn = int(rng.integers(2, 4)) * (rpb if rpb > bsA else 1)
    n = nn * bsA
    M = rand_matrix(rng, nn, bsA, sym=True)
    S = sp.csr_array(M).tobsr(blocksize=(bsA, bsA)) if bsA > 1 else gen.int32csr(sp.csr_array(M))
    nfine = n // rpb                       # aggregation of "nodes" of rpb dofs: T gets row block size rpb
    agg, nc = chain_partition(rng, nfine, p_un=0.0)
    K2 = 1
    B = rand_candidates(rng, agg, nc, rpb, K2, False, 'generic')
    T0, Bc = fit_candidates(aggop_of(agg, nc), B)
    if T0.format != 'bsr':
        T0 = T0.tobsr(blocksize=(1, 1))
    C = gen.int32csr(sp.csr_array(np.eye(nfine)))
    case = {'op': 'energy_blocksize', 'krylov': krylov, 'bsA': bsA, 'rpb': rpb, 'nn': nn, 'M': cj(M), 'agg': [int(a) for a in agg],
            'nc': nc, 'B': cj(B)}
    what = f'energy_prolongation_smoother({krylov}, weighting=block) with A.blocksize[0]={bsA}, T.blocksize[0]={rpb}'
    # in a child process: without the input test the kernels are called with inconsistent block sizes and may crash
    def call():
        try:
            with quiet():
                P_ = energy_prolongation_smoother(S, T0.copy(), C, Bc, None, (False, {}), krylov=krylov, maxiter=2, degree=1, weighting='block')
            return (None, P_.toarray())
        except ValueError as e:
            return (str(e), None)
        except Exception as e:       # noqa: BLE001
            return (f'{type(e).__name__}: {e}', None)
    status, res = in_child(call)
    if status != 'ok':
        ctx.violation(what + f': the call crashed the interpreter ({status})', case)
        return None
    raised, Pd_child = res
    Td = T0.toarray()
    tpat = ';'.join(enc_ints([int(c) for c in T0.indices[T0.indptr[i]:T0.indptr[i + 1]]]) for i in range(nfine))
    line = (f'ext_c10d_energy r {krylov} 3 {bsA} 1 - - - - 0 2 {n} {Td.shape[1]} {K2} {rpb} {T0.blocksize[1]} {nfine} '
            f'{enc_ints(C.indptr)} {enc_ints(C.indices)} {enc_rats(C.data)} {tpat} {enc_rats(M.ravel())} {enc_rats(np.abs(M).sum(1))} '
            f'{enc_rats(Td.ravel())} {enc_rats(Bc.ravel())} {enc_rats(np.zeros(n * K2))} - {enc_rat(1e-8)} {enc_rat(1e-8)}')

    def judge(reply):
        ctx.feat('energy-full:blocksize-mismatch-rejected' if raised else 'energy-full:blocksize-mismatch-ACCEPTED')
        if reply != 'error:blocksize':
            ctx.corr('energy smoother (E53): block size test of the model', case, reply[:200], 'error:blocksize expected')
        if raised is None or 'blocksize' not in raised:
            ctx.corr('energy smoother (E53): block size test', case, 'error:blocksize', raised or 'returned a prolongator')
            # the property itself on what came back: the constraint (P - T) B_c = 0 and finite entries
            if Pd_child is not None:
                Pd = Pd_child
                if Pd.shape != Td.shape or not np.all(np.isfinite(Pd)) or not close(Pd @ Bc, Td @ Bc, 1e-7):
                    ctx.violation(what + ': accepted, and the result does not satisfy (P - T) B_c = 0', case)
            elif raised is not None:
                ctx.violation(what + f': raised {raised}', case)
    return {'line': line, 'judge': judge, 'key': _key('energy-blocksize', line), 'nontrivial': True,
            'sample': {'op': 'energy smoother block-size input test (E53)', 'krylov': krylov, 'bsA': bsA, 'rpb': rpb} if t < 2 else None}


E53_HIER_SMOOTH_SA = [None, ('jacobi', {'omega': 4.0 / 3.0}), ('jacobi', {'omega': 1.0, 'degree': 2, 'weighting': 'local'}),
                      ('jacobi', {'weighting': 'block', 'degree': 1}), ('richardson', {'omega': 1.0, 'degree': 2}),
                      ('energy', {'krylov': 'cg', 'maxiter': 2, 'degree': 1}),
                      ('energy', {'krylov': 'cgnr', 'maxiter': 2, 'degree': 1, 'weighting': 'diagonal'}),
                      ('energy', {'krylov': 'gmres', 'maxiter': 2, 'degree': 1, 'weighting': 'diagonal'}),
                      ('energy', {'krylov': 'cg', 'maxiter': 1, 'degree': 2, 'weighting': 'diagonal', 'prefilter': {'k': 3}}),
                      ('energy', {'krylov': 'cg', 'maxiter': 2, 'degree': 0, 'weighting': 'block'}),
                      ('energy', {'krylov': 'cg', 'maxiter': 2, 'degree': 1, 'prefilter': {'theta': 0.25}})]
E53_HIER_SMOOTH_RN = [('energy', {'krylov': 'cg', 'maxiter': 2, 'degree': 1}), None,
                      ('energy', {'krylov': 'gmres', 'maxiter': 2, 'degree': 1, 'weighting': 'diagonal'}),
                      ('energy', {'krylov': 'cg', 'maxiter': 2, 'degree': 1, 'postfilter': {'k': 2}}),
                      ('energy', {'krylov': 'cgnr', 'maxiter': 1, 'degree': 2, 'postfilter': {'theta': 0.125}}),
                      ('energy', {'krylov': 'cg', 'maxiter': 2, 'degree': 1, 'weighting': 'diagonal', 'prefilter': {'k': 2}})]


def item_hierarchy_model(ctx, rng, t):
    """smoothed_aggregation_solver / rootnode_solver (keep=True, improve_candidates=None, hermitian problems) level by
    level vs the level loop `C10dM.hierarchy` (`ext_c10d_hier`: fit_candidates kernel model + scale_T + composed energy
    model + Galerkin product, on rationals with 64-bit square roots), given the AggOp, strength matrix and root dofs the
    real run produced on each level: T, B_c, P, the next A (tolerance) and the patterns (exact)"""
    import pyamg
    root = t % 2 == 1
    kind = ['poisson1d', 'random', 'poisson2d', 'random_bsr', 'random'][(t // 2) % 5]
    from pyamg.gallery import poisson
    if kind == 'poisson1d':
        n = int(rng.integers(6, 11))
        A, bs = poisson((n,), format='csr'), 1
        B = np.ones((n, 1)) if t % 3 else np.hstack([np.ones((n, 1)), np.arange(n, dtype=float).reshape(-1, 1) / 8.0])
    elif kind == 'poisson2d':
        nx, ny = 3, int(rng.integers(3, 5))
        A, bs = poisson((nx, ny), format='csr'), 1
        B = np.ones((A.shape[0], 1))
    else:
        bs = 1 if kind == 'random' else 2
        nn = int(rng.integers(5, 9)) if bs == 1 else int(rng.integers(3, 5))
        M = rand_matrix(rng, nn, bs, sym=True)
        A = to_sparse(M, bs)
        B = np.round(rng.standard_normal((nn * bs, int(rng.choice([1, 2])) if not root else bs)) * 8) / 8
        B[np.abs(B) < 0.125] = 0.5
    if root and B.shape[1] < bs:
        B = np.hstack([B, np.round(rng.standard_normal((B.shape[0], bs - B.shape[1])) * 8) / 8 + 0.0625])
    if root and rng.random() < 0.3:
        B = np.hstack([B, np.round(rng.standard_normal((B.shape[0], 1)) * 8) / 8 + 0.0625])     # more candidates than dofs per node
    smooth = (E53_HIER_SMOOTH_RN if root else E53_HIER_SMOOTH_SA)[int(rng.integers(len(E53_HIER_SMOOTH_RN if root else E53_HIER_SMOOTH_SA)))]
    energy = bool(smooth) and smooth[0] == 'energy'
    if energy and B.shape[1] > 1 and smooth[1].get('krylov') in ('gmres', 'cgnr'):
        # the exact rationals of the gmres / cgnr models grow too fast with several candidates per aggregate (the second
        # column of T has 200-bit entries): those loops are run on hierarchies with one candidate, and directly (item_energy_full)
        smooth = ('energy', dict(smooth[1], krylov='cg'))
    strength = [('symmetric', {'theta': 0.0}), ('symmetric', {'theta': 0.25}), ('classical', {'theta': 0.25}), None][int(rng.integers(4))]
    if (bs > 1 or B.shape[1] > 1) and strength is None:
        strength = ('symmetric', {'theta': 0.0})
    aggregate = ['standard', 'naive'][int(rng.integers(2))]
    n0, nd0 = A.shape[0], B.shape[1]
    Ad = A.toarray()
    case = {'op': 'hierarchy_model', 'root': root, 'kind': kind, 'smooth': smooth, 'strength': strength, 'aggregate': aggregate,
            'bs': bs, 'A': Ad.ravel().tolist(), 'n': n0, 'B': B.ravel().tolist(), 'nd': nd0}
    seed = int(rng.integers(2**31))
    case.update({'complex': False, 'symmetry': 'hermitian', 'max_coarse': 1, 'np_seed': seed})
    case['A'], case['B'] = cj(Ad), cj(B)

    def corr(*a_):
        ctx.corr(*a_)
        judge_hierarchy(ctx, dict(case, op='hierarchy'))      # the property itself on the real code, independent oracles

    np.random.seed(seed)
    fn = pyamg.rootnode_solver if root else pyamg.smoothed_aggregation_solver
    sm = None if smooth is None else (smooth[0], {k_: (dict(v) if isinstance(v, dict) else v) for k_, v in smooth[1].items()})
    what0 = ('rootnode_solver' if root else 'smoothed_aggregation_solver') + f'(smooth={smooth}, strength={strength}, aggregate={aggregate})'
    try:
        with Tap('compute_BtBinv') as tap, Tap('approximate_spectral_radius') as taprho, quiet():
            ml = fn(A, B=B.copy(), symmetry='hermitian', strength=strength, aggregate=aggregate, smooth=sm, improve_candidates=None,
                    max_coarse=1, max_levels=3, keep=True)
    except Exception as e:       # noqa: BLE001
        ctx.violation(f'{what0} raised {type(e).__name__}: {e}', case)
        return None
    lv = ml.levels[:-1]
    if not lv:
        return None
    opts = smooth[1] if smooth else {}
    krylov = (opts.get('krylov', 'cg') if energy else 'jacobi') if smooth else 'none'
    pre, post = opts.get('prefilter'), opts.get('postfilter') if root else None
    post_eff = {k_: v for k_, v in (post or {}).items() if not (k_ == 'theta' and v == 0)}
    passes = (2 if (root and post_eff) else 1) if energy else 0
    if energy and len(tap.calls) != passes * len(lv):
        return None          # a level returned early (empty T or A): nothing to compare level by level
    ws = ['0'] * len(lv)
    if smooth and not energy:
        omega = opts.get('omega', 4.0 / 3.0)
        wname = 'richardson' if smooth[0] == 'richardson' else opts.get('weighting', 'diagonal')
        if wname == 'local':
            ws = [enc_rat(omega)] * len(lv)
        else:
            if len(taprho.calls) != len(lv):
                return None
            ws = [enc_rat(omega / float(c[2])) for c in taprho.calls]
    levels = []
    for lvl in lv:
        Ac = lvl.AggOp.tocsc()
        C = sp.csr_array(lvl.C)
        cpts = [int(c) for c in lvl.Cpts] if root else []
        if root and len(cpts) != lvl.P.shape[1]:
            return None      # an aggregate without members (see C12): no root
        levels.append(':'.join([str(lvl.AggOp.shape[0]), str(lvl.AggOp.shape[1]), enc_ints(Ac.indptr), enc_ints(Ac.indices),
                                str(C.shape[0]), enc_ints(C.indptr), enc_ints(C.indices), enc_rats(C.data), enc_ints(cpts), ws[len(levels)]]))
    if energy or not smooth:
        wt = {'diagonal': 0, 'local': 1, 'block': 3}[opts.get('weighting', 'local')]
    else:
        wt = 2 if smooth[0] == 'richardson' else {'diagonal': 0, 'local': 1, 'block': 3}[opts.get('weighting', 'diagonal')]
    line = (f'ext_c10d_hier {1 if root else 0} {krylov} {wt} {opts.get("degree", 1)} {e53_filter_enc(pre)} {e53_filter_enc(post)} '
            f'{opts.get("maxiter", 4)} {bs} {n0} {nd0} {enc_rats(Ad.ravel())} {enc_rats(B.ravel())} {"~".join(levels)} '
            f'{enc_rat(opts.get("tol", 1e-8))} {enc_rat(1e-10)} 80')

    def judge(reply):
        ctx.feat('hier-model:' + ('rootnode' if root else 'sa') + ':' + kind)
        ctx.feat('hier-model:smooth:' + krylov)
        blocks = [b_ for b_ in reply.split('~') if b_ != '']
        for li, lvl in enumerate(lv):
            what = f'{what0} level {li}'
            if li >= len(blocks) or blocks[li].startswith('error:'):
                err = blocks[min(li, len(blocks) - 1)]
                if err in ('error:singular', 'error:krylov', 'error:precond'):
                    ctx.feat('hier-model:singular-skipped')
                else:
                    corr(f'hierarchy model: {what}', case, err, 'a level was built')
                return
            parts = blocks[li].split('#')
            if len(parts) != (13 if energy else 6):
                corr(f'hierarchy model: {what}', case, blocks[li][:200], 'n/a', 'malformed reply')
                return
            Td, Pd = lvl.T.toarray(), lvl.P.toarray()
            Bn, An = np.asarray(ml.levels[li + 1].B), ml.levels[li + 1].A.toarray()
            mT = np.array([float(x) for x in dec_list(parts[0], dec_rat)]).reshape(Td.shape)
            mB = np.array([float(x) for x in dec_list(parts[1], dec_rat)]).reshape(Bn.shape)
            if not close(mT, Td, 1e-9) or not close(mB, Bn, 1e-9):
                corr(f'hierarchy model: tentative prolongator / coarse candidates, {what}', case, parts[0][:200], Td.ravel()[:12].tolist())
                return
            ctx.feat(f'hier-model:level{li}:T')
            if energy:
                p1, p2, _pm, _p1m, flags, _chk, d1, d2 = parts[5:]
                nnodes = lvl.AggOp.shape[0]
                pats = [c[0][1] for c in tap.calls[passes * li:passes * (li + 1)]]
                bad_pat = dec_pat(p1, nnodes) != pat_of_bsr(pats[0], nnodes)
                second = passes == 2
                if bad_pat:
                    # an exact cancellation in Atilde^degree pattern(T) that binary64 misses (or the converse)?
                    Cd = np.abs(sp.csr_array(lvl.C).toarray())
                    Sd = sp.csr_array(lvl.C).toarray()
                    Tb = block_any(Td != 0, lvl.T.blocksize[0], lvl.T.blocksize[1]).astype(float)
                    pa, ps = Tb.copy(), Tb.copy()
                    for _ in range(opts.get('degree', 1)):
                        pa, ps = Cd @ pa, Sd @ ps
                    if np.any((np.abs(ps) < 1e-9 * np.maximum(pa, 1e-300)) & (pa > 0)) or delicate_filter(sp.csr_array(ps), pre, 1e-9):
                        ctx.near_skipped += 1
                        return
                    corr(f'hierarchy model: pattern of the first pass, {what}', case, p1, pat_enc(pats[0].indptr, pats[0].indices, nnodes))
                    return
                if not e53_krylov_gate(ctx, krylov, False, [d1] + ([d2] if second else [])):
                    return
                if second and dec_pat(p2, nnodes) != pat_of_bsr(pats[1], nnodes):
                    ctx.near_skipped += 1          # the post-filter decides on rounded values of P: not compared exactly here
                    return
            mP = np.array([float(x) for x in dec_list(parts[2], dec_rat)]).reshape(Pd.shape)
            mA = np.array([float(x) for x in dec_list(parts[3], dec_rat)]).reshape(An.shape)
            if not close(mP, Pd, 1e-6) or not close(mA, An, 1e-6):
                # stability probe: is the real level itself determined to 1e-6?  (candidates in the near null space of A, e.g.
                # [1, x] on 1-D Poisson, make the coarse energy minimisation ill-conditioned: binary64 and the exact model then
                # differ by more than the tolerance although both are right)  Rebuild with the candidates perturbed by 1e-11.
                try:
                    np.random.seed(seed)
                    Bp = B * (1.0 + 1e-11 * np.random.default_rng(7).standard_normal(B.shape))
                    np.random.seed(seed)
                    with quiet():
                        mlp = fn(A, B=Bp, symmetry='hermitian', strength=strength, aggregate=aggregate, smooth=sm, improve_candidates=None,
                                 max_coarse=1, max_levels=3, keep=True)
                    Pp = mlp.levels[li].P.toarray() if li < len(mlp.levels) - 1 else None
                    unstable = Pp is None or Pp.shape != Pd.shape or not close(Pp, Pd, 1e-7)
                except Exception:       # noqa: BLE001
                    unstable = True
                if unstable:
                    ctx.near_skipped += 1
                    ctx.feat('hier-model:ill-conditioned-level-skipped')
                    return
                corr(f'hierarchy model: P / Galerkin product, {what}', case, parts[2][:200], Pd.ravel()[:12].tolist())
                return
            ctx.feat(f'hier-model:level{li}:P')
    return {'line': line, 'judge': judge, 'key': _key('hier-model', line), 'nontrivial': any(l_.AggOp.shape[0] > l_.AggOp.shape[1] for l_ in lv),
            'sample': {'op': what0 + ' vs level-loop model (E53)', 'levels': len(lv), 'n': n0, 'kind': kind} if t < 4 else None}


def replay_energy_blocksize(ctx, case):
    from pyamg.aggregation.smooth import energy_prolongation_smoother
    from pyamg.aggregation.tentative import fit_candidates
    bsA, rpb, nn = case['bsA'], case['rpb'], case['nn']
    n = nn * bsA
    M = uncj(case['M'], False).reshape(n, n)
    S = sp.csr_array(M).tobsr(blocksize=(bsA, bsA)) if bsA > 1 else gen.int32csr(sp.csr_array(M))
    nfine = n // rpb
    B = uncj(case['B'], False).reshape(nfine * rpb, -1)
    T0, Bc = fit_candidates(aggop_of(np.array(case['agg']), case['nc']), B)
    if T0.format != 'bsr':
        T0 = T0.tobsr(blocksize=(1, 1))
    C = gen.int32csr(sp.csr_array(np.eye(nfine)))

    def call():
        try:
            with quiet():
                P_ = energy_prolongation_smoother(S, T0.copy(), C, Bc, None, (False, {}), krylov=case['krylov'], maxiter=2, degree=1, weighting='block')
            return (None, P_.toarray())
        except ValueError as e:
            return (str(e), None)
        except Exception as e:       # noqa: BLE001
            return (f'{type(e).__name__}: {e}', None)
    status, res = in_child(call)
    what = f'energy_prolongation_smoother({case["krylov"]}, weighting=block) with A.blocksize[0]={bsA}, T.blocksize[0]={rpb}'
    if status != 'ok':
        ctx.violation(what + f': the call crashed the interpreter ({status})', case)
    elif res[0] is None:
        Pd, Td = res[1], T0.toarray()
        if Pd.shape != Td.shape or not np.all(np.isfinite(Pd)) or not close(Pd @ Bc, Td @ Bc, 1e-7):
            ctx.violation(what + ': accepted, and the result does not satisfy (P - T) B_c = 0', case)
    elif 'blocksize' not in res[0]:
        ctx.violation(what + f': raised {res[0]}', case)


def part_e53h(ctx, N):
    rng = ctx.np_rng.spawn(3)[2]
    return [safe(ctx, item_hierarchy_model, rng, t) for t in range(N)]


def part_e53(ctx, N):
    rng = ctx.np_rng.spawn(2)[1]
    items = []
    for t in range(N):
        items.append(safe(ctx, item_energy_full, rng, t))
        if t % 8 == 0:
            items.append(safe(ctx, item_energy_blocksize, rng, t // 8))
    return items


def fixed_corpus(ctx):
    """a handful of deterministic inputs of the two known findings of this property (KNOWN_FINDINGS.txt), judged by the same
    code as the random cases (fit_float32_case / item_jacobi_filtered); no draw from ctx.rng / ctx.np_rng"""
    from pyamg.aggregation.tentative import fit_candidates
    prng = np.random.default_rng(1010)
    # (1) fit-single-precision-rank-deficient: float32 / complex64 candidates whose second column is a multiple of the first
    #     on every aggregate (aggregates of three nodes, a singleton aggregate, nodal blocks K1 = 2)
    b0 = np.array([0.3, 0.7, 1.1, 1.3, 0.9, 0.2])
    for cplx, K1, agg, col0 in [
            (False, 1, [0, 0, 0, 1, 1, 1], b0),
            (True, 1, [0, 0, 0, 1, 1, 1], b0 * (1 + 0.5j)),
            (False, 1, [0, 1, 1, 1, -1, 1], b0),
            (False, 2, [0, 0, 1], b0)]:
        dt = np.complex64 if cplx else np.float32
        B = np.stack([col0, col0 * ((0.3 - 1.7j) if cplx else 3.0)], axis=1).astype(dt)
        safe(ctx, lambda c, r, t, f=(cplx, K1, 2, np.array(agg), 2, B): fit_float32_case(c, r, t, fixed=f), None, -1)
    # (2) jacobi-filter-zero-diagonal: filter_entries=True with a strength pattern without diagonal entries, weightings that
    #     divide by the spectral radius of the scaled matrix
    items = []
    for weighting, bs, degree in [('diagonal', 1, 1), ('block', 1, 2), ('block', 2, 1), ('diagonal', 2, 2)]:
        nn = 4
        Mn = np.array([[4.0, -1, 0, 0], [-1, 4, -1, 0], [0, -1, 4, -1], [0, 0, -1, 4]])
        M = np.kron(Mn, np.array([[2.0, 0.5], [0.5, 2.0]])) if bs == 2 else Mn
        S = to_sparse(M, bs)
        Cn = (Mn != 0) & ~np.eye(nn, dtype=bool)
        C = gen.int32csr(sp.csr_array(Cn * 0.5))
        agg, nc, K2 = np.array([0, 0, 1, 1]), 2, bs
        B = prng.standard_normal((nn * bs, K2))
        T, Bc = fit_candidates(aggop_of(agg, nc), B)
        fx = (False, bs, nn, M, S, agg, nc, K2, B, T, Bc, C, Cn, weighting, 4.0 / 3.0, degree, 1010)
        items.append(safe(ctx, lambda c, r, t, f=fx: item_jacobi_filtered(c, r, t, fixed=f), None, -1))
    return items


def run(ctx):
    items = fixed_corpus(ctx)
    items += part_a(ctx, ctx.scale(200, 10000))
    items += part_b(ctx, ctx.scale(150, 7500))
    items += part_e24(ctx, ctx.scale(60, 600))
    items += part_e48(ctx, ctx.scale(48, 960))
    items += part_e53(ctx, ctx.scale(40, 800))
    items += part_e53h(ctx, ctx.scale(10, 150))
    run_items(ctx, items)
    part_c(ctx, ctx.scale(150, 7500), ctx.scale(160, 8000), ctx.scale(42, 2100))
    part_lr(ctx, ctx.scale(40, 1000))


def search(ctx):
    part_lr(ctx, 150)
    part_c(ctx, 600, 400, 140)
    run_items(ctx, part_b(ctx, 300) + part_e24(ctx, 200) + part_e48(ctx, 200) + part_e53(ctx, 200) + part_e53h(ctx, 40))


def _rebuild_smoother_inputs(case):
    from pyamg.aggregation.tentative import fit_candidates
    cplx, bs, nn, nc, K2 = case['complex'], case['bs'], case['nn'], case['nc'], case['K2']
    M = uncj(case['M'], cplx).reshape(nn * bs, nn * bs)
    B = uncj(case['B'], cplx).reshape(nn * bs, K2)
    agg = np.array(case['agg'])
    T, Bc = fit_candidates(aggop_of(agg, nc), B)
    return M, to_sparse(M, bs), B, agg, T, Bc


def replay_smoother(ctx, case):
    from pyamg.aggregation.smooth import jacobi_prolongation_smoother, richardson_prolongation_smoother
    M, S, B, agg, T, Bc = _rebuild_smoother_inputs(case)
    w, omega, degree, bs = case['weighting'], case['omega'], case['degree'], case['bs']
    with Tap('approximate_spectral_radius') as tap:
        if w == 'richardson':
            P = richardson_prolongation_smoother(S, T, omega=omega, degree=degree)
        else:
            P = jacobi_prolongation_smoother(S, T, None, Bc, omega=omega, degree=degree, filter_entries=False, weighting=w)
    eff = 'diagonal' if (w == 'block' and bs == 1) else w
    rho = float(tap.calls[0][2]) if tap.calls else 1.0
    rho_true = float(np.abs(np.linalg.eigvals(scaled_dense(M, eff, bs, 1.0, 1.0))).max())
    print('spectral radius used', rho, 'dense value', rho_true)
    if eff != 'local' and abs(rho - rho_true) > 0.05 * rho_true:
        ctx.violation(f'{w}: spectral radius of the scaled matrix is {rho_true} but the smoother used {rho}', case)
    Ms = scaled_dense(M, eff, bs, omega, rho)
    ref = T.toarray().astype(Ms.dtype)
    for _ in range(degree):
        ref = ref - Ms @ ref
    print('max |P - (I - w D^-1 S)^d T| =', np.abs(P.toarray() - ref).max())
    if not close(P.toarray(), ref, 1e-8):
        ctx.violation(f'{w} smoother (omega={omega}, degree={degree}) differs from (I - omega/rho D^-1 S)^degree T by '
                      f'{np.abs(P.toarray() - ref).max():.3e}', case)


def replay_jacobi_filtered(ctx, case):
    from pyamg.aggregation.smooth import jacobi_prolongation_smoother
    M, S, B, agg, T, Bc = _rebuild_smoother_inputs(case)
    bs, nn, K2, degree = case['bs'], case['nn'], case['K2'], case['degree']
    Cn = np.array(case['C']) != 0
    C = gen.int32csr(sp.csr_array(Cn.astype(float)))
    P = jacobi_prolongation_smoother(S, T, C, Bc, omega=case['omega'], degree=degree, filter_entries=True, weighting=case['weighting'])
    Cp = (np.kron(Cn, np.ones((bs, bs))) != 0) & (M != 0)
    reach = T.toarray() != 0
    allowed = np.zeros_like(reach)
    for _ in range(degree):
        reach = (Cp.astype(float) @ reach.astype(float)) != 0
        allowed |= reach
    amask = block_any(allowed, bs, K2)
    st = status_from_mask(Bc, amask, K2)
    print('max |(P - T) B_c| =', np.abs((P - T) @ Bc).max())
    bad = product_failures(P, T, Bc, np.kron(amask, np.ones((bs, K2))) != 0, st, bs, f'filtered Jacobi ({case["weighting"]}, degree {degree})')
    if bad:
        ctx.violation(bad, case)


def replay_filter(ctx, case):
    from pyamg.util.utils import filter_operator
    cplx, rpb, cpb, nbr, ncb, nd = case['complex'], case['rpb'], case['cpb'], case['nbr'], case['ncb'], case['nd']
    dt = complex if cplx else float
    ap, aj, cp, cjx = i32(case['ap']), i32(case['aj']), i32(case['cp']), i32(case['cj'])
    ax = uncj(case['ax'], cplx).reshape(len(aj), rpb, cpb)
    B = uncj(case['B'], cplx).reshape(ncb * cpb, nd)
    Bf = uncj(case['Bf'], cplx).reshape(nbr * rpb, nd)
    shape = (nbr * rpb, ncb * cpb)
    if case['fmt'] == 'csr':
        A = sp.csr_array((ax.ravel(), aj, ap), shape=shape)
        C = sp.csr_array((np.ones(len(cjx), dtype=dt), cjx, cp), shape=shape)
    else:
        A = sp.bsr_array((ax, aj, ap), shape=shape, blocksize=(rpb, cpb))
        C = sp.bsr_array((np.full((len(cjx), rpb, cpb), 2.0, dtype=dt), cjx, cp), shape=shape, blocksize=(rpb, cpb))
    Fd = filter_operator(A, C, B, Bf).toarray()
    mask = pattern_mask(cp, cjx, nbr, ncb, rpb, cpb)
    if np.any((Fd != 0) & ~mask):
        ctx.violation('filter_operator: entries outside the pattern of C', case)
    st = rows_status(B, cp, cjx, nbr, cpb)
    E = np.abs(Fd @ B - Bf)
    print('row status', st, 'row errors', [float(E[i * rpb:(i + 1) * rpb].max(initial=0)) for i in range(nbr)])
    scale = 1 + np.abs(A.toarray()).max(initial=0) * np.abs(B).max(initial=0) + np.abs(Bf).max(initial=0)
    for i in range(nbr):
        if st[i] == 'ok' and E[i * rpb:(i + 1) * rpb].max(initial=0) > 1e-8 * scale:
            ctx.violation(f'filter_operator: row block {i} supports the constraints but (A B - Bf) = {E[i * rpb:(i + 1) * rpb].max():.3e}', case)
            break


def replay_imm_csr(ctx, case):
    from pyamg import amg_core
    cplx = case['complex']
    n, kk, mc = case['dims']
    ap, aj, bp, bj, sp_, sj = (i32(case[k]) for k in ('ap', 'aj', 'bp', 'bj', 'sp', 'sj'))
    ax, bx, out = uncj(case['ax'], cplx), uncj(case['bx'], cplx), uncj(case['sx'], cplx)
    amg_core.incomplete_mat_mult_csr(ap, aj, ax, bp, bj, bx, sp_, sj, out, n)
    if not case.get('sorted', True):
        print('unsorted input: outside the precondition of the kernel, only the model comparison applies')
        return
    ref = sp.csr_array((ax, aj, ap), shape=(n, kk)).toarray() @ sp.csc_array((bx, bj, bp), shape=(kk, mc)).toarray()
    for i in range(n):
        for q in range(sp_[i], sp_[i + 1]):
            if abs(out[q] - ref[i, sj[q]]) > 1e-12:
                ctx.violation(f'incomplete_mat_mult_csr: S[{i},{int(sj[q])}] = {out[q]} but (A B)[{i},{int(sj[q])}] = {ref[i, sj[q]]} '
                              '(sorted indices, no duplicates)', case)
                return


def replay_imm_bsr(ctx, case):
    from pyamg import amg_core
    cplx = case['complex']
    nbr, nk, nbc, ra, ca, cb = case['dims']
    ap, aj, bp, bj, sp_, sj = (i32(case[k]) for k in ('ap', 'aj', 'bp', 'bj', 'sp', 'sj'))
    ax, bx, sx = uncj(case['ax'], cplx), uncj(case['bx'], cplx), uncj(case['sx'], cplx)
    out = sx.copy()
    amg_core.incomplete_mat_mult_bsr(ap, aj, ax, bp, bj, bx, sp_, sj, out, nbr, nbc, ra, ca, cb)
    ref = (bsr_blocks_dense(sp_, sj, sx, nbr, nbc, ra, cb) + bsr_blocks_dense(ap, aj, ax, nbr, nk, ra, ca) @
           bsr_blocks_dense(bp, bj, bx, nk, nbc, ca, cb)) * pattern_mask(sp_, sj, nbr, nbc, ra, cb)
    got = bsr_blocks_dense(sp_, sj, out, nbr, nbc, ra, cb)
    if not np.allclose(got, ref, atol=1e-9):
        ctx.violation('incomplete_mat_mult_bsr does not accumulate A*B on the stored blocks of S: expected '
                      f'{ref.tolist()} got {got.tolist()}', case)


def replay(ctx, data):
    case = data['case']
    op = case.get('op')
    print('replaying', op, {k: v for k, v in case.items() if k not in ('M', 'A', 'B', 'BH', 'Cvals', 'C', 'sx', 'ax', 'Bf', 'UB', 'BtBinv')})
    if 'np_seed' in case:
        np.random.seed(case['np_seed'])
    if op in ('fit_candidates', 'fit_kernel'):
        replay_fit(ctx, case)
    elif op == 'energy':
        judge_energy(ctx, case)
    elif op == 'energy_rootnode':
        judge_rootnode(ctx, case)
    elif op == 'hierarchy':
        judge_hierarchy(ctx, case)
    elif op == 'hierarchy_lr':
        judge_lr(ctx, case)
    elif op in ('satisfy_constraints', 'satisfy_constraints_helper'):
        judge_projection_property(ctx, case, 'replay')
    elif op == 'smoother':
        replay_smoother(ctx, case)
    elif op == 'jacobi_filtered':
        replay_jacobi_filtered(ctx, case)
    elif op == 'filter_operator':
        replay_filter(ctx, case)
    elif op == 'incomplete_mat_mult_csr':
        replay_imm_csr(ctx, case)
    elif op == 'incomplete_mat_mult_bsr':
        replay_imm_bsr(ctx, case)
    elif op == 'energy_full':
        e53_oracle(ctx, case)
    elif op == 'energy_blocksize':
        replay_energy_blocksize(ctx, case)
    elif op == 'hierarchy_model':
        judge_hierarchy(ctx, dict(case, op='hierarchy'))
    elif op in ('energy_model', 'gmres_model'):
        c2 = dict(case, complex=case.get('complex', False), prefilter=None, postfilter=None)
        if case['root']:
            judge_rootnode(ctx, dict(c2, nd=case['bs']))
        else:
            judge_energy(ctx, c2)
    else:
        print('no dedicated replay for this operation; the case dictionary holds the complete input')
    for v in ctx.violations:
        print('violation:', v['what'][:400])
    if not ctx.violations:
        print('no violation on replay')
